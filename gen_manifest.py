#!/usr/bin/env python3
"""Regenerates MANIFEST.json from the table below (kept in one place so it is always valid)."""
import json, os

HERE = os.path.dirname(os.path.abspath(__file__))

CLAIMED = {
    # id: (technique, level text, level note, design ref)
}
NOT_APPLICABLE = {
    'C09': 'metric axioms over floating-point values for all pairs/triples need numeric or symbolic evaluation (a different technique family) (DESIGN 5)',
    'C10': 'shortest-path / constant-speed interpolation is a numeric statement over all state pairs and t; several claimed checks assume it and say so (DESIGN 5)',
}

exec(open(os.path.join(HERE, 'manifest_table.py')).read())

checks = []
for pid in sorted(CLAIMED):
    tech, text, note, ref = CLAIMED[pid]
    checks.append({
        'property_id': pid,
        'quick_cmd': './check %s --tier quick' % pid,
        'thorough_cmd': './check %s --tier thorough' % pid,
        'evidence_file': '/verif/evidence/%s.json' % pid,
        'replay_cmd_template': 'cat {path}',
        'engine': 'oxa',
        'level_claimed': {'category': 'other', 'text': text, 'design_ref': ref},
        'level_note': note,
        'technique': tech,
    })
na = [{'property_id': k, 'reason': v} for k, v in sorted(NOT_APPLICABLE.items()) if k not in CLAIMED]
m = {
    'version': 1,
    'setup_cmd': './setup.sh',
    'hooks': {
        'guard': 'oxmpl_verif',
        'enable': 'none needed: the checks analyse /repo as it is (cargo +nightly check under the mirfacts rustc wrapper); no hook code exists in /repo',
        'baseline_off_cmd': 'cd /repo && cargo test --workspace --no-fail-fast --offline',
        'source_commits': [],
        'add_only': True,
    },
    'engines': [
        {'name': 'mirfacts', 'path': '/verif/mirfacts', 'serves_properties': sorted(CLAIMED),
         'kind_free_text': 'rustc_private driver (nightly) serialising MIR, resolved callees, ADTs and impls of every workspace crate'},
        {'name': 'oxa', 'path': '/verif/oxa', 'serves_properties': sorted(CLAIMED),
         'kind_free_text': 'static rule engine over the MIR facts: reachability/edge guards, reaching definitions, origin terms, loops, interprocedural return summaries; one rule module per property'},
    ],
    'checks': checks,
    'not_applicable': na,
    'notes': 'Static analysis only. Known genuine defects recorded in /verif/known_findings.json; see DESIGN.md.',
}
with open(os.path.join(HERE, 'MANIFEST.json'), 'w') as fh:
    json.dump(m, fh, indent=1)
print('claimed:', sorted(CLAIMED), 'n/a:', [x['property_id'] for x in na])
