"""C20 witness: a validity callback that raises SystemExit inside a fault region.

Expected by the property: the state counts as invalid and planning goes on exactly as if the callback had returned
False there.  Run with the extension built from /repo:
    CARGO_TARGET_DIR=/tmp/pybuild/target cargo build -p oxmpl-py --offline
    mkdir -p /tmp/pybuild/cur && cp /tmp/pybuild/target/debug/liboxmpl_py.so /tmp/pybuild/cur/oxmpl_py.so
    PYTHONPATH=/tmp/pybuild/cur python3 findings/c20_system_exit.py ; echo "exit status $?"
"""
import math, random, sys
from oxmpl_py.base import RealVectorState, RealVectorStateSpace, ProblemDefinition, PlannerConfig
from oxmpl_py.geometric import RRT


class Goal:
    def __init__(self, space):
        self.space, self.target, self.rng = space, RealVectorState([9.0, 5.0]), random.Random(1)

    def is_satisfied(self, s):
        return self.space.distance(self.target, s) <= 0.5

    def sample_goal(self):
        a, r = self.rng.uniform(0, 2 * math.pi), 0.5 * math.sqrt(self.rng.uniform(0, 1))
        return RealVectorState([9.0 + r * math.cos(a), 5.0 + r * math.sin(a)])


def run(kind):
    space = RealVectorStateSpace(dimension=2, bounds=[(0.0, 10.0), (0.0, 10.0)])
    pd = ProblemDefinition.from_real_vector(space, RealVectorState([1.0, 5.0]), Goal(space))
    planner = RRT(max_distance=0.5, goal_bias=0.05, problem_definition=pd, planner_config=PlannerConfig(seed=3))

    def valid(s):
        x, y = s.values
        if 4.75 <= x <= 5.25 and 2.0 <= y <= 8.0:
            if kind == 'false':
                return False
            raise SystemExit(7)
        return True
    planner.setup(valid)
    path = planner.solve(timeout_secs=5.0)
    return [tuple(s.values) for s in path.states]


ref = run('false')
print('callback returning False in the wall: path of %d states' % len(ref), flush=True)
got = run('exit')
print('callback raising SystemExit in the wall: path of %d states, identical=%s' % (len(got), got == ref), flush=True)
sys.exit(0 if got == ref else 1)
