use std::{f64::consts::PI, sync::Arc, time::Duration};
use oxmpl::base::{
    error::StateSamplingError,
    goal::{Goal, GoalRegion, GoalSampleableRegion},
    planner::{Planner, PlannerConfig},
    problem_definition::ProblemDefinition,
    space::{RealVectorStateSpace, SO2StateSpace, SO3StateSpace, StateSpace},
    state::{RealVectorState, SO2State, SO3State},
    validity::StateValidityChecker,
};
use oxmpl::geometric::{RRT, RRTConnect, RRTStar, PRM};
use rand::Rng;

struct Checker<F: Fn(f64, f64) -> bool>(F);
impl<F: Fn(f64, f64) -> bool> StateValidityChecker<RealVectorState> for Checker<F> {
    fn is_valid(&self, s: &RealVectorState) -> bool { (self.0)(s.values[0], s.values[1]) }
}
struct CircGoal { target: RealVectorState, radius: f64, space: Arc<RealVectorStateSpace> }
impl Goal<RealVectorState> for CircGoal {
    fn is_satisfied(&self, s: &RealVectorState) -> bool { self.space.distance(s, &self.target) <= self.radius }
}
impl GoalRegion<RealVectorState> for CircGoal {
    fn distance_goal(&self, s: &RealVectorState) -> f64 { (self.space.distance(s, &self.target) - self.radius).max(0.0) }
}
impl GoalSampleableRegion<RealVectorState> for CircGoal {
    fn sample_goal(&self, rng: &mut impl Rng) -> Result<RealVectorState, StateSamplingError> {
        let angle = rng.random_range(0.0..2.0 * PI);
        let radius = self.radius * rng.random::<f64>().sqrt();
        Ok(RealVectorState { values: vec![self.target.values[0] + radius * angle.cos(), self.target.values[1] + radius * angle.sin()] })
    }
}
struct AnyAngle;
impl StateValidityChecker<SO2State> for AnyAngle { fn is_valid(&self, _s: &SO2State) -> bool { true } }
struct AngleGoal { target: f64, tol: f64 }
impl Goal<SO2State> for AngleGoal { fn is_satisfied(&self, s: &SO2State) -> bool { (s.value - self.target).abs() <= self.tol } }
impl GoalRegion<SO2State> for AngleGoal { fn distance_goal(&self, s: &SO2State) -> f64 { ((s.value - self.target).abs() - self.tol).max(0.0) } }
impl GoalSampleableRegion<SO2State> for AngleGoal {
    fn sample_goal(&self, rng: &mut impl Rng) -> Result<SO2State, StateSamplingError> {
        Ok(SO2State { value: self.target + self.tol * (rng.random::<f64>() - 0.5) })
    }
}
fn mk(start: (f64, f64)) -> (Arc<RealVectorStateSpace>, Arc<ProblemDefinition<RealVectorState, RealVectorStateSpace, CircGoal>>) {
    let space = Arc::new(RealVectorStateSpace::new(2, Some(vec![(0.0, 10.0), (0.0, 10.0)])).unwrap());
    let goal = Arc::new(CircGoal { target: RealVectorState { values: vec![9.0, 5.0] }, radius: 0.5, space: space.clone() });
    let pd = Arc::new(ProblemDefinition { space: space.clone(), start_states: vec![RealVectorState { values: vec![start.0, start.1] }], goal });
    (space, pd)
}
struct PointGoal { target: RealVectorState, space: Arc<RealVectorStateSpace> }
impl Goal<RealVectorState> for PointGoal {
    fn is_satisfied(&self, s: &RealVectorState) -> bool { self.space.distance(s, &self.target) <= 1e-9 }
}
impl GoalRegion<RealVectorState> for PointGoal {
    fn distance_goal(&self, s: &RealVectorState) -> f64 { self.space.distance(s, &self.target) }
}
impl GoalSampleableRegion<RealVectorState> for PointGoal {
    fn sample_goal(&self, _rng: &mut impl Rng) -> Result<RealVectorState, StateSamplingError> { Ok(self.target.clone()) }
}
fn main() {
    let which = std::env::args().nth(1).unwrap_or_default();
    let free = || Arc::new(Checker(|_x: f64, _y: f64| true));
    match which.as_str() {
        "c01_gate" => {
            // start (2,5) is rejected by the checker (x > 2 required)
            let (_s, pd) = mk((2.0, 5.0));
            let vc = Arc::new(Checker(|x: f64, _y: f64| x > 2.0));
            let mut p = RRT::new(0.5, 0.1, &PlannerConfig { seed: Some(1) });
            p.setup(pd.clone(), vc.clone());
            match p.solve(Duration::from_secs(5)) {
                Ok(path) => println!("RRT: Ok, first state {:?} valid={}", path.0[0], vc.is_valid(&path.0[0])),
                Err(e) => println!("RRT: Err {:?}", e),
            }
            let mut p = RRTStar::new(0.5, 0.1, 1.0, &PlannerConfig { seed: Some(1) });
            p.setup(pd.clone(), vc.clone());
            match p.solve(Duration::from_secs(5)) {
                Ok(path) => println!("RRT*: Ok, first state {:?} valid={}", path.0[0], vc.is_valid(&path.0[0])),
                Err(e) => println!("RRT*: Err {:?}", e),
            }
            let mut p = RRTConnect::new(0.5, 0.1, &PlannerConfig { seed: Some(1) });
            p.setup(pd.clone(), vc.clone());
            match p.solve(Duration::from_secs(5)) {
                Ok(path) => println!("RRTConnect: Ok, first state {:?} valid={}", path.0[0], vc.is_valid(&path.0[0])),
                Err(e) => println!("RRTConnect: Err {:?}", e),
            }
        }
        "c01_endpoint" => {
            // the motion check asks about interpolate(from, to, 1.0), which is one ulp away from `to`; `to` is what is stored
            let space = Arc::new(RealVectorStateSpace::new(2, Some(vec![(0.0, 1.0), (0.0, 1.0)])).unwrap());
            let goal = Arc::new(PointGoal { target: RealVectorState { values: vec![0.3, 0.5] }, space: space.clone() });
            let pd = Arc::new(ProblemDefinition { space: space.clone(), start_states: vec![RealVectorState { values: vec![0.8, 0.5] }], goal });
            let vc = Arc::new(Checker(|x: f64, _y: f64| x > 0.3));
            let mut out = RealVectorState { values: vec![0.0, 0.0] };
            space.interpolate(&pd.start_states[0], &RealVectorState { values: vec![0.3, 0.5] }, 1.0, &mut out);
            println!("interpolate(start, goal, 1.0) = {:?} (valid={}), goal itself valid={}", out, vc.is_valid(&out), vc.is_valid(&RealVectorState { values: vec![0.3, 0.5] }));
            let mut p = RRT::new(1.0, 1.0, &PlannerConfig { seed: Some(1) });
            p.setup(pd.clone(), vc.clone());
            match p.solve(Duration::from_secs(2)) {
                Ok(path) => { let l = path.0.last().unwrap(); println!("RRT: Ok, last state {:?} valid={}", l, vc.is_valid(l)) }
                Err(e) => println!("RRT: Err {:?}", e),
            }
            let mut p = RRTStar::new(1.0, 1.0, 1.5, &PlannerConfig { seed: Some(1) });
            p.setup(pd.clone(), vc.clone());
            match p.solve(Duration::from_secs(2)) {
                Ok(path) => { let l = path.0.last().unwrap(); println!("RRT*: Ok, last state {:?} valid={}", l, vc.is_valid(l)) }
                Err(e) => println!("RRT*: Err {:?}", e),
            }
        }
        "c11_so3_boundary" => {
            // enforce_bounds projects onto the cone boundary (distance == max_angle up to rounding); satisfies_bounds has no tolerance
            let centre = SO3State::new(0.1, 0.2, 0.3, 0.9).normalise().unwrap();
            let space = SO3StateSpace::new(Some((centre, 0.7))).unwrap();
            let mut rejected = 0;
            let mut worst: f64 = 0.0;
            let n = 1000;
            for k in 0..n {
                let a = 0.37 * (k as f64) + 0.11;
                let mut s = SO3State::new(a.sin(), (1.7 * a).cos(), (0.3 * a).sin(), 0.2 * (2.1 * a).cos()).normalise().unwrap();
                if space.satisfies_bounds(&s) { continue; }
                space.enforce_bounds(&mut s);
                if !space.satisfies_bounds(&s) {
                    rejected += 1;
                    worst = worst.max(space.distance(&space.bounds.0, &s) - 0.7);
                }
            }
            println!("SO3 cone 0.7 rad: {} of {} enforced states are rejected by satisfies_bounds (worst excess {:e} rad)", rejected, n, worst);
        }
        "c07_connect" => {
            let mut lasts = vec![];
            for _ in 0..2 {
                let (_s, pd) = mk((1.0, 5.0));
                let mut p = RRTConnect::new(0.5, 0.0, &PlannerConfig { seed: Some(7) });
                p.setup(pd, free());
                let path = p.solve(Duration::from_secs(5)).unwrap();
                lasts.push(format!("{:?}", path.0.last().unwrap()));
            }
            println!("same={} {:?}", lasts[0] == lasts[1], lasts);
        }
        "c07_restore" => {
            let mut outs = vec![];
            for _ in 0..2 {
                let (_s, pd) = mk((1.0, 5.0));
                let mut p = RRT::new(0.5, 0.0, &PlannerConfig { seed: Some(7) });
                p.setup(pd.clone(), free());
                let a = p.solve(Duration::from_secs(5)).unwrap();
                p.setup(pd.clone(), free());
                let b = p.solve(Duration::from_secs(5)).unwrap();
                outs.push((format!("{:?}", a.0), format!("{:?}", b.0)));
            }
            println!("first solves equal={} second solves equal={}", outs[0].0 == outs[1].0, outs[0].1 == outs[1].1);
        }
        "c01_root" => {
            // the whole goal disc (radius 0.01 around (9,5)) lies inside an obstacle of radius 0.02
            let mut bad = 0;
            for seed in 0..20u64 {
                let space = Arc::new(RealVectorStateSpace::new(2, Some(vec![(0.0, 10.0), (0.0, 10.0)])).unwrap());
                let goal = Arc::new(CircGoal { target: RealVectorState { values: vec![9.0, 5.0] }, radius: 0.01, space: space.clone() });
                let pd = Arc::new(ProblemDefinition { space: space.clone(), start_states: vec![RealVectorState { values: vec![1.0, 5.0] }], goal });
                let vc = Arc::new(Checker(|x: f64, y: f64| (x - 9.0) * (x - 9.0) + (y - 5.0) * (y - 5.0) > 0.02 * 0.02));
                let mut p = RRTConnect::new(0.5, 0.05, &PlannerConfig { seed: Some(seed) });
                p.setup(pd.clone(), vc.clone());
                if let Ok(path) = p.solve(Duration::from_secs(5)) {
                    let last = path.0.last().unwrap();
                    if !vc.is_valid(last) { bad += 1; println!("seed {} -> Ok path ending in invalid state {:?}", seed, last); }
                }
            }
            println!("{} of 20 seeds returned a path whose last state the checker rejects", bad);
        }
        "c06_so3" => {
            use oxmpl::base::space::SO3StateSpace;
            use oxmpl::base::state::SO3State;
            let sp = SO3StateSpace::new(Some((SO3State::identity(), 1e-4))).unwrap();
            let (tx, rx) = std::sync::mpsc::channel();
            std::thread::spawn(move || { let mut rng = rand::rng(); let r = sp.sample_uniform(&mut rng); let _ = tx.send(r.is_ok()); });
            match rx.recv_timeout(Duration::from_secs(5)) {
                Ok(ok) => println!("sample_uniform returned ok={}", ok),
                Err(_) => println!("sample_uniform on a 1e-4 rad cone did not return within 5 s (rejection loop without bound or deadline)"),
            }
            std::process::exit(0);
        }
        "c11_so3_point_cone" => {
            // a cone reduced to its centre (radius 0, legal): for a generic unit centre the computed c.c is 1 - 1.1e-16,
            // distance(c, c) = 2 acos(c.c) = 4.2e-8 > 0, so the centre - which sample_uniform returns and enforce_bounds
            // falls back to - fails the bounds check of its own space
            let sp = SO3StateSpace::new(Some((SO3State::new(1.0, 2.0, 3.0, 4.0), 0.0))).unwrap();
            let mut rng = rand::rng();
            let s = sp.sample_uniform(&mut rng).unwrap();
            println!("distance(centre, centre) = {:e}", sp.distance(&sp.bounds.0, &sp.bounds.0));
            println!("sample_uniform returned a state that satisfies the bounds: {}", sp.satisfies_bounds(&s));
            let mut e = SO3State::new(0.0, 0.0, 1.0, 0.0);
            sp.enforce_bounds(&mut e);
            println!("after enforce_bounds the state satisfies the bounds: {}", sp.satisfies_bounds(&e));
            std::process::exit(0);
        }
        "c12_so3_centre" => {
            // SO3StateSpace::new stores the cone centre as given: a zero or short quaternion is accepted, and the space it
            // returns cannot be sampled (every candidate is at distance 2*acos(|dot|) > max_angle from such a centre)
            for (name, c) in [("zero", SO3State::new(0.0, 0.0, 0.0, 0.0)), ("half-length", SO3State::new(0.0, 0.0, 0.0, 0.5))] {
                match SO3StateSpace::new(Some((c.clone(), 1.0))) {
                    Err(e) => println!("{} centre: constructor refused it ({})", name, e),
                    Ok(sp) => {
                        println!("{} centre: constructor returned a space; stored centre = {:?}, satisfies_bounds(centre) = {}", name, sp.bounds.0, sp.satisfies_bounds(&sp.bounds.0));
                        let (tx, rx) = std::sync::mpsc::channel();
                        std::thread::spawn(move || { let mut rng = rand::rng(); let r = sp.sample_uniform(&mut rng); let _ = tx.send(r.is_ok()); });
                        match rx.recv_timeout(Duration::from_secs(3)) {
                            Ok(ok) => println!("{} centre: sample_uniform returned ok={}", name, ok),
                            Err(_) => println!("{} centre: sample_uniform on the returned 1 rad cone did not return within 3 s", name),
                        }
                    }
                }
            }
            std::process::exit(0);
        }
        "c08_empty_start" => {
            let (space, pd0) = mk((1.0, 5.0));
            let pd = Arc::new(ProblemDefinition { space: space.clone(), start_states: vec![], goal: pd0.goal.clone() });
            let mut p = RRT::new(0.5, 0.0, &PlannerConfig { seed: Some(1) });
            let r = std::panic::catch_unwind(std::panic::AssertUnwindSafe(|| p.setup(pd.clone(), free())));
            println!("RRT::setup with an empty start list panicked={}", r.is_err());
            let mut q = PRM::new(0.05, 1.0, &PlannerConfig { seed: Some(1) });
            q.setup(pd.clone(), free());
            q.construct_roadmap().unwrap();
            let r = std::panic::catch_unwind(std::panic::AssertUnwindSafe(|| q.solve(Duration::from_secs(1)).is_ok()));
            println!("PRM::solve with an empty start list panicked={}", r.is_err());
        }
        "c08_sampler" => {
            // unbounded space: sample_uniform returns Err(UnboundedDimension)
            let space = Arc::new(RealVectorStateSpace::new(2, None).unwrap());
            let goal = Arc::new(CircGoal { target: RealVectorState { values: vec![9.0, 5.0] }, radius: 0.5, space: space.clone() });
            let pd = Arc::new(ProblemDefinition { space: space.clone(), start_states: vec![RealVectorState { values: vec![1.0, 5.0] }], goal });
            let mut p = RRT::new(0.5, 0.0, &PlannerConfig { seed: Some(1) });
            p.setup(pd.clone(), free());
            let r = std::panic::catch_unwind(std::panic::AssertUnwindSafe(|| p.solve(Duration::from_secs(1)).is_ok()));
            println!("RRT::solve with a failing uniform sampler panicked={}", r.is_err());
            let mut q = PRM::new(0.05, 1.0, &PlannerConfig { seed: Some(1) });
            q.setup(pd.clone(), free());
            let r = std::panic::catch_unwind(std::panic::AssertUnwindSafe(|| q.construct_roadmap().is_ok()));
            println!("PRM::construct_roadmap with a failing uniform sampler panicked={}", r.is_err());
        }
        "c11_so2" => {
            let sp = SO2StateSpace::new(None).unwrap();
            let mut s = SO2State { value: 4.71 };
            sp.enforce_bounds(&mut s);
            println!("enforced value {} satisfies={}", s.value, sp.satisfies_bounds(&s));
        }
        "c11_so2_pi" => {
            // bounds whose upper end is exactly PI (the doc example of SO2StateSpace::new)
            let sp = SO2StateSpace::new(Some((0.0, std::f64::consts::PI))).unwrap();
            for v in [3.5_f64, -3.0, 3.2, std::f64::consts::PI] {
                let mut s = SO2State { value: v };
                sp.enforce_bounds(&mut s);
                let ok1 = sp.satisfies_bounds(&s);
                let before = s.value;
                sp.enforce_bounds(&mut s);
                println!("value {} -> enforced {} satisfies={} ; enforced again {} (idempotent={})", v, before, ok1, s.value, before == s.value);
            }
        }
        "c11_so2_round" => {
            // the check canonicalises with (v + PI).rem_euclid(2 PI) - PI, which is not the identity on floats
            for (lo, hi) in [(-1.0_f64, 0.1_f64), (-0.3, 1.0), (-2.0, -0.3)] {
                let sp = SO2StateSpace::new(Some((lo, hi))).unwrap();
                for v in [2.0_f64, -2.5, 3.0, -3.0] {
                    let mut s = SO2State { value: v };
                    sp.enforce_bounds(&mut s);
                    println!("bounds ({}, {}) value {} -> enforced {} satisfies={}", lo, hi, v, s.value, sp.satisfies_bounds(&s));
                }
            }
        }
        "c04_so2" => {
            // bounds (-3, 3): start and goal in bounds, on either side of the excluded seam region |angle| > 3.
            // The planners never consult the bounds and interpolation takes the short arc through +-pi.
            let space = Arc::new(SO2StateSpace::new(Some((-3.0, 3.0))).unwrap());
            let goal = Arc::new(AngleGoal { target: 2.9, tol: 0.05 });
            let pd = Arc::new(ProblemDefinition { space: space.clone(), start_states: vec![SO2State { value: -2.9 }], goal });
            let mut mid = SO2State { value: 0.0 };
            space.interpolate(&SO2State { value: -2.9 }, &SO2State { value: 2.9 }, 0.5, &mut mid);
            println!("interpolate(-2.9, 2.9, 0.5) = {} satisfies_bounds={}", mid.value, space.satisfies_bounds(&mid));
            for seed in 0..5u64 {
                let mut p = RRT::new(0.05, 0.2, &PlannerConfig { seed: Some(seed) });
                p.setup(pd.clone(), Arc::new(AnyAngle));
                match p.solve(Duration::from_secs(5)) {
                    Ok(path) => {
                        let out: Vec<f64> = path.0.iter().filter(|s| !space.satisfies_bounds(s)).map(|s| s.value).collect();
                        println!("RRT seed {}: {} states, {} outside the bounds, e.g. {:?}", seed, path.0.len(), out.len(), out.first());
                    }
                    Err(e) => println!("RRT seed {}: Err {:?}", seed, e),
                }
            }
        }
        "c04_so3" => {
            // cone of radius 2.0 rad around the identity: rotations by +1.9 and -1.9 rad about z are both inside, the
            // geodesic between them runs through the rotation by pi about z, which is outside
            let space = SO3StateSpace::new(Some((SO3State::identity(), 2.0))).unwrap();
            let q = |a: f64| SO3State { x: 0.0, y: 0.0, z: (a / 2.0).sin(), w: (a / 2.0).cos() };
            let (a, b) = (q(1.9), q(-1.9));
            println!("a in bounds={} b in bounds={}", space.satisfies_bounds(&a), space.satisfies_bounds(&b));
            for t in [0.25, 0.5, 0.75] {
                let mut m = SO3State::identity();
                space.interpolate(&a, &b, t, &mut m);
                println!("interpolate(a, b, {}) = ({:.3}, {:.3}, {:.3}, {:.3}) distance to centre {:.3} satisfies_bounds={}", t, m.x, m.y, m.z, m.w,
                         space.distance(&SO3State::identity(), &m), space.satisfies_bounds(&m));
            }
        }
        "c12_so2" => {
            let r = SO2StateSpace::new(Some((4.0, 5.0)));
            match r { Ok(sp) => { println!("accepted, bounds {:?}", sp.bounds);
                let mut rng = rand::rng();
                let r = std::panic::catch_unwind(std::panic::AssertUnwindSafe(|| sp.sample_uniform(&mut rng)));
                println!("sample panicked={}", r.is_err()); }
              Err(e) => println!("rejected {:?}", e) }
            let r = SO2StateSpace::new(Some((f64::NAN, 1.0)));
            println!("SO2 NaN accepted={}", r.is_ok());
            let r = RealVectorStateSpace::new(1, Some(vec![(f64::NAN, 1.0)]));
            println!("RV NaN accepted={}", r.is_ok());
        }
        "c08_bias" => {
            let (_s, pd) = mk((1.0, 5.0));
            let mut p = RRT::new(0.5, 1.5, &PlannerConfig { seed: Some(7) });
            p.setup(pd, free());
            let r = std::panic::catch_unwind(std::panic::AssertUnwindSafe(|| p.solve(Duration::from_secs(1)).is_ok()));
            println!("bias 1.5 panicked={}", r.is_err());
        }
        "c06_fraction" => {
            let mut sp = RealVectorStateSpace::new(2, Some(vec![(0.0, 10.0), (0.0, 10.0)])).unwrap();
            sp.set_longest_valid_segment_fraction(0.0);
            println!("lvs length = {}", sp.get_longest_valid_segment_length());
            let n = (1.0f64 / (sp.get_longest_valid_segment_length() * 0.1)).ceil() as usize;
            println!("motion check of length 1 would need {} steps", n);
        }
        "c12_quat_overflow" => {
            // finite quaternion whose squares overflow: norm = inf, every component / inf = 0
            let r = SO3State::new(1e200, 0.0, 0.0, 0.0).normalise();
            println!("normalise(1e200,0,0,0) = {:?}", r);
            let r = SO3State::new(3e160, -4e160, 0.0, 0.0).normalise();
            println!("normalise(3e160,-4e160,0,0) = {:?}", r);
        }
        "c12_wide_bounds" => {
            // finite bounds whose width overflows: accepted by the constructor, rand panics on hi - lo = inf
            let r = RealVectorStateSpace::new(1, Some(vec![(-1e308, 1e308)]));
            match r { Ok(sp) => { println!("accepted, bounds {:?}", sp.bounds);
                let mut rng = rand::rng();
                let r = std::panic::catch_unwind(std::panic::AssertUnwindSafe(|| sp.sample_uniform(&mut rng)));
                println!("sample panicked={} result={:?}", r.is_err(), r.ok()); }
              Err(e) => println!("rejected {:?}", e) }
        }
        _ => println!("unknown"),
    }
    let _ = PRM::<RealVectorState, RealVectorStateSpace, CircGoal>::new(0.1, 1.0, &PlannerConfig { seed: None });
}
