#!/bin/sh
# Builds the mirfacts driver and warms the dependency build of /repo under the nightly toolchain
# (offline). Idempotent.
set -e
cd "$(dirname "$0")"
export CARGO_NET_OFFLINE=true
(cd mirfacts && cargo +nightly build --offline 2>&1 | tail -3)
python3 -c "
import sys
sys.path.insert(0, '.')
from oxa import extract
d, h, info = extract.extract()
print('facts:', d, info)
"
