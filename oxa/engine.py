"""Shared analyses over one MIR body (see DESIGN.md section 3).

A1  edge guards            Fn.reachable(..., removed_edges), Fn.guard_edges(...)
A2  value origins          Fn.op_terms / Fn.place_terms  (sets of terms, refs transparent)
A3  no-redefinition        Fn.redefined_between
A4  reaching definitions   Fn.reaching
A6  natural loops          Fn.loops

Terms (a value is a frozenset of nodes; children of nodes are such frozensets again):
  ('param', i, name)                       function parameter i (1-based MIR local), closure env = 1
  ('const', text)                          scalar constant (text: 'true', '0', '0.1f', ...)
  ('fnitem', path)                         zero-sized function item
  ('field', T, name)                       field projection (refs/derefs are transparent)
  ('index', T, I)                          v[i] (Index::index, IndexMut::index_mut, MIR Index)
  ('payload', T, variant, k)               (x as Variant).k
  ('discr', T)
  ('call', path, (T..), site)              result of a call; site = (fn path, block)
  ('out', path, k, (T..), site)            value written by a call through its k-th (&mut) argument
  ('agg', adt, variant, ((fname, T)..))    struct / enum literal
  ('tuple', (T..)) ('array', (T..)) ('closure', path, (T..))
  ('binop', op, A, B) ('unop', op, A) ('cast', kind, A, ty)
  ('clone', T)
  ('unwrap', T)                            payload of Some/Ok: unwrap/expect/?/match arm
  ('rec', event id)                        cyclic dependence through a loop
  ('unknown', why)
"""
from collections import deque

from .facts import fmt_place

# callees whose result denotes their first argument (references are transparent in terms)
TRANSPARENT = {
    'std::ops::Deref::deref', 'std::ops::DerefMut::deref_mut',
    'std::option::Option::<T>::as_ref', 'std::option::Option::<T>::as_mut',
    'std::option::Option::<T>::as_deref', 'std::option::Option::<T>::as_deref_mut',
    'std::convert::AsRef::as_ref', 'std::convert::AsMut::as_mut',
    'std::borrow::Borrow::borrow', 'std::borrow::BorrowMut::borrow_mut',
    'std::iter::IntoIterator::into_iter',
    'std::vec::Vec::<T, A>::as_slice', 'std::vec::Vec::<T, A>::as_mut_slice',
    'std::boxed::Box::<T>::new', 'std::sync::Arc::<T>::new', 'std::rc::Rc::<T>::new',
    'std::convert::Into::into', 'std::convert::From::from',
    'std::cell::RefCell::<T>::borrow', 'std::cell::RefCell::<T>::borrow_mut',
    'std::cell::RefCell::<T>::new',
}
UNWRAP = {'std::result::Result::<T, E>::unwrap', 'std::result::Result::<T, E>::expect',
          'std::option::Option::<T>::unwrap', 'std::option::Option::<T>::expect',
          'std::option::Option::<T>::unwrap_unchecked', 'std::result::Result::<T, E>::unwrap_unchecked'}
# Option/Result adaptors that keep the payload and only change the wrapper / the error
PAYLOAD_KEEP = {'std::option::Option::<T>::ok_or', 'std::option::Option::<T>::ok_or_else',
                'std::ops::Try::branch', 'std::result::Result::<T, E>::map_err',
                'std::result::Result::<T, E>::ok'}
CLONE = {'std::clone::Clone::clone', 'std::borrow::ToOwned::to_owned',
         'std::option::Option::<&T>::cloned', 'std::option::Option::<&T>::copied'}
INDEX = {'std::ops::Index::index', 'std::ops::IndexMut::index_mut'}
CMP_CALLS = {'std::cmp::PartialOrd::lt': 'Lt', 'std::cmp::PartialOrd::le': 'Le', 'std::cmp::PartialOrd::gt': 'Gt',
             'std::cmp::PartialOrd::ge': 'Ge', 'std::cmp::PartialEq::eq': 'Eq', 'std::cmp::PartialEq::ne': 'Ne'}
ARITH_CALLS = {'std::ops::Add::add': 'Add', 'std::ops::Sub::sub': 'Sub', 'std::ops::Mul::mul': 'Mul', 'std::ops::Div::div': 'Div',
               'std::ops::Rem::rem': 'Rem'}
import re as _re
PRIM_REF = _re.compile(r'^&*(mut )?&*(f64|f32|usize|isize|u8|u16|u32|u64|u128|i8|i16|i32|i64|i128|bool|char)$')


def T(*nodes):
    return frozenset(nodes)


def is_mut_ref_ty(ty):
    return ty.startswith('&mut ') or ty.startswith("&'") and ' mut ' in ty.split(' ', 2)[1:2]


class Event:
    __slots__ = ('id', 'local', 'block', 'idx', 'kind', 'path', 'data')

    def __init__(self, id, local, block, idx, kind, path, data):
        self.id = id
        self.local = local
        self.block = block
        self.idx = idx
        self.kind = kind      # 'assign' | 'call' | 'out' | 'escape'
        self.path = path      # tuple of field names written ('' = whole)
        self.data = data

    def __repr__(self):
        return 'Ev#%d(_%d %s bb%d[%d] %s)' % (self.id, self.local, self.kind, self.block, self.idx,
                                              '.'.join(map(str, self.path)))


def box_internal(e):
    """the Unique/NonNull/pointer fields that an elaborated Box deref goes through"""
    if not isinstance(e, dict) or 'f' not in e:
        return False
    ty = e.get('ty') or ''
    return ty.startswith('std::ptr::Unique<') or ty.startswith('std::ptr::NonNull<') or \
        (e.get('name') == 'pointer' and ty.startswith('*const '))


def proj_path(proj):
    """field path of a projection list (derefs dropped, index -> '[]')"""
    out = []
    for e in proj:
        if e == 'deref' or box_internal(e):
            continue
        if 'f' in e:
            out.append(e['name'] if e.get('name') is not None else str(e['f']))
        elif 'idx' in e or 'cidx' in e:
            out.append('[]')
        elif 'down' in e:
            out.append('as:' + str(e.get('name') or e['down']))
        else:
            out.append('?')
    return tuple(out)


class Fn:
    def __init__(self, body):
        self.b = body
        self.path = body.path
        self.blocks = body.blocks
        self.nb = len(self.blocks)
        self.nloc = len(body.locals)
        self._events = None
        self._by_local = None
        self._memo = {}
        self._borrow_roots = None
        self._reach_cache = {}

    # ------------------------------------------------------------------ basic CFG helpers
    def succs(self, b):
        return self.b.succs(b)

    def nstmts(self, b):
        return len(self.blocks[b]['stmts'])

    def reachable(self, start=0, removed=frozenset(), stop=frozenset()):
        """blocks reachable from `start` (a block) following normal edges not in `removed`
        (set of (src,dst)); blocks in `stop` are entered but not left."""
        seen = {start}
        dq = deque([start])
        while dq:
            x = dq.popleft()
            if x in stop:
                continue
            for s in self.succs(x):
                if (x, s) in removed:
                    continue
                if s not in seen:
                    seen.add(s)
                    dq.append(s)
        return seen

    def reachable_multi(self, starts, removed=frozenset(), stop=frozenset()):
        seen = set(starts)
        dq = deque(starts)
        while dq:
            x = dq.popleft()
            if x in stop:
                continue
            for s in self.succs(x):
                if (x, s) in removed:
                    continue
                if s not in seen:
                    seen.add(s)
                    dq.append(s)
        return seen

    def can_reach(self, target, removed=frozenset()):
        """set of blocks from which `target` is reachable"""
        pred = self.b.preds()
        seen = {target}
        dq = deque([target])
        while dq:
            x = dq.popleft()
            for p in pred[x]:
                if (p, x) in removed:
                    continue
                if p not in seen:
                    seen.add(p)
                    dq.append(p)
        return seen

    def return_blocks(self):
        return [i for i, b in enumerate(self.blocks) if b['term']['k'] == 'return' and not b['cleanup']]

    # ------------------------------------------------------------------ dominators / loops
    def dominators(self):
        if hasattr(self, '_dom'):
            return self._dom
        reach = self.reachable(0)
        order = sorted(reach)
        dom = {b: set(order) for b in order}
        dom[0] = {0}
        pred = self.b.preds()
        changed = True
        while changed:
            changed = False
            for b in order:
                if b == 0:
                    continue
                ps = [p for p in pred[b] if p in reach]
                if not ps:
                    continue
                new = set.intersection(*(dom[p] for p in ps)) | {b}
                if new != dom[b]:
                    dom[b] = new
                    changed = True
        self._dom = dom
        return dom

    def loops(self):
        """natural loops: list of dict(header, body(set of blocks), back_edges, exits[(src,dst)])"""
        if hasattr(self, '_loops'):
            return self._loops
        dom = self.dominators()
        pred = self.b.preds()
        by_header = {}
        for b in dom:
            for s in self.succs(b):
                if s in dom.get(b, ()):  # back edge b -> s
                    body = {s, b}
                    st = [b]
                    while st:
                        x = st.pop()
                        if x == s:
                            continue
                        for p in pred[x]:
                            if p in dom and p not in body:
                                body.add(p)
                                st.append(p)
                    h = by_header.setdefault(s, {'header': s, 'body': set(), 'back_edges': []})
                    h['body'] |= body
                    h['back_edges'].append((b, s))
        out = []
        for h in by_header.values():
            exits = []
            for x in h['body']:
                for s in self.succs(x):
                    if s not in h['body']:
                        exits.append((x, s))
            h['exits'] = exits
            out.append(h)
        out.sort(key=lambda l: l['header'])
        self._loops = out
        return out

    # ------------------------------------------------------------------ definition events
    def _build_events(self):
        ev = []
        by_local = {}

        def add(local, block, idx, kind, path, data):
            e = Event(len(ev), local, block, idx, kind, path, data)
            ev.append(e)
            by_local.setdefault(local, []).append(e)
            return e

        # pass 1: direct assignments and call destinations; collect &mut borrows of locals
        # borrow_of[temp] = (root local, path)  for temps holding &mut into a local (no deref base)
        borrow_of = {}
        pending = True
        # iterate to a fixed point for reborrow chains (temps are assigned once in practice)
        for _round in range(4):
            changed = False
            for bi, blk in enumerate(self.blocks):
                if blk['cleanup']:
                    continue
                for si, st in enumerate(blk['stmts']):
                    if st['k'] != 'assign':
                        continue
                    pl, rv = st['place'], st['rv']
                    if pl['p']:
                        continue
                    tgt = pl['l']
                    src = None
                    if rv['k'] in ('ref', 'rawptr') and rv['mut']:
                        rp = rv['place']
                        if not rp['p'] or rp['p'][0] != 'deref':
                            # &mut local.path
                            if not any(e == 'deref' for e in rp['p']):
                                src = (rp['l'], proj_path(rp['p']))
                        else:
                            # &mut (*tmp).path : reborrow through tmp
                            base = borrow_of.get(rp['l'])
                            if base is not None and not any(e == 'deref' for e in rp['p'][1:]):
                                src = (base[0], base[1] + proj_path(rp['p'][1:]))
                    elif rv['k'] == 'use':
                        o = rv['op']
                        p2 = o.get('move') or o.get('copy')
                        if p2 is not None and not p2['p'] and p2['l'] in borrow_of:
                            src = borrow_of[p2['l']]
                    if src is not None and borrow_of.get(tgt) != src:
                        borrow_of[tgt] = src
                        changed = True
            if not changed:
                break
        self._borrow_of = borrow_of

        for bi, blk in enumerate(self.blocks):
            if blk['cleanup']:
                continue
            for si, st in enumerate(blk['stmts']):
                if st['k'] == 'assign':
                    pl = st['place']
                    if not any(e == 'deref' for e in pl['p']):
                        add(pl['l'], bi, si, 'assign', proj_path(pl['p']), st)
                    elif pl['p'][0] == 'deref' and pl['l'] in borrow_of and \
                            not any(e == 'deref' for e in pl['p'][1:]):
                        root, path = borrow_of[pl['l']]
                        add(root, bi, si, 'assign', path + proj_path(pl['p'][1:]), st)
                    # aggregates / other rvalues capturing a &mut borrow temp: escape
                    rv = st['rv']
                    if rv['k'] == 'agg':
                        for f in rv['fields']:
                            p2 = f.get('move') or f.get('copy')
                            if p2 is not None and not p2['p'] and p2['l'] in borrow_of:
                                root, path = borrow_of[p2['l']]
                                add(root, bi, si, 'escape', path, st)
                elif st['k'] == 'setdiscr':
                    pl = st['place']
                    if not any(e == 'deref' for e in pl['p']):
                        add(pl['l'], bi, si, 'assign', proj_path(pl['p']), st)
            t = blk['term']
            ti = len(blk['stmts'])
            if t['k'] == 'call':
                d = t['dest']
                if not any(e == 'deref' for e in d['p']):
                    add(d['l'], bi, ti, 'call', proj_path(d['p']), t)
                elif d['p'][0] == 'deref' and d['l'] in borrow_of:
                    root, path = borrow_of[d['l']]
                    add(root, bi, ti, 'call', path + proj_path(d['p'][1:]), t)
                for k, a in enumerate(t['args']):
                    p2 = a.get('move') or a.get('copy')
                    if p2 is not None and not p2['p'] and p2['l'] in borrow_of:
                        root, path = borrow_of[p2['l']]
                        add(root, bi, ti, 'out', path, (t, k))
        self._events = ev
        self._by_local = by_local

    def events(self, local=None):
        if self._events is None:
            self._build_events()
        if local is None:
            return self._events
        return self._by_local.get(local, [])

    def borrow_root(self, local):
        """(root local, path) if `local` is a temp holding a &mut borrow into a local"""
        if self._events is None:
            self._build_events()
        return self._borrow_of.get(local)

    # ------------------------------------------------------------------ reaching definitions
    @staticmethod
    def _path_related(evpath, qpath):
        n = min(len(evpath), len(qpath))
        return evpath[:n] == qpath[:n]

    def reaching(self, local, point, qpath=(), mut_kills=True, whole_only=False):
        """definition events of `local` (restricted to those overlapping field path `qpath`)
        that may reach `point` = (block, idx); idx == nstmts means 'at the terminator'.
        Events located exactly at `point` do not reach it.
        mut_kills=False ignores 'out' events (identity mode).
        whole_only ignores events that write a strict sub-path of qpath.
        Returns (events, reaches_entry: bool)."""
        evs = [e for e in self.events(local) if self._path_related(e.path, qpath)]
        if not mut_kills:
            evs = [e for e in evs if e.kind != 'out']
        if whole_only:
            evs = [e for e in evs if len(e.path) <= len(qpath)]
        by_block = {}
        for e in evs:
            by_block.setdefault(e.block, []).append(e)
        for l in by_block.values():
            l.sort(key=lambda e: e.idx)
        res = []
        entry = False
        pred = self.b.preds()
        b0, i0 = point
        # within the start block, events strictly before the point
        found = None
        for e in reversed(by_block.get(b0, [])):
            if e.idx < i0:
                found = e
                break
        if found is not None:
            return [found], False
        seen = set()
        dq = deque()
        if b0 == 0:
            entry = True
        for p in pred[b0]:
            dq.append(p)
        while dq:
            x = dq.popleft()
            if x in seen:
                continue
            seen.add(x)
            l = by_block.get(x)
            if l:
                # if x == b0 (loop back into the start block) any event in it counts (last one)
                res.append(l[-1])
                continue
            if x == 0:
                entry = True
            for p in pred[x]:
                if p not in seen:
                    dq.append(p)
        # dedupe
        uniq = []
        for e in res:
            if e not in uniq:
                uniq.append(e)
        return uniq, entry

    # ------------------------------------------------------------------ terms
    def const_term(self, c):
        if 'fn' in c:
            return ('fnitem', c['fn']['path'])
        if 'closure' in c:
            return ('closure', c['closure'], ())
        if 'val' in c:
            return ('const', 'true' if c['val'] else 'false')
        if 'fval' in c:
            return ('const', c['fval'] + 'f')
        if 'ival' in c:
            return ('const', c['ival'])
        if 'uneval' in c:
            if 'promoted' in c:
                v = self._promoted_value(c['uneval'], c['promoted'])
                if v is not None:
                    return v
            return ('const', 'path:' + c['uneval'] + ('#p%d' % c['promoted'] if 'promoted' in c else ''))
        return ('const', c.get('dbg', '?'))

    def _promoted_value(self, owner, idx):
        """the value of promoted constant `idx` of function `owner` when its body is a single literal (e.g. `&Enum::Variant`)"""
        crate = getattr(self.b, 'crate', None)
        if crate is None:
            return None
        pb = crate.body('%s::{promoted#%d}' % (owner, idx))
        if pb is None or len(pb.blocks) > 4:
            return None
        cache = crate.__dict__.setdefault('_promoted_cache', {})
        if pb.path not in cache:
            val = None
            try:
                f = Fn(pb)
                rbs = f.return_blocks()
                if len(rbs) == 1:
                    ts = f.local_terms(0, (rbs[0], f.nstmts(rbs[0])))
                    if len(ts) == 1:
                        n = next(iter(ts))
                        if n[0] in ('agg', 'const', 'tuple') or (n[0] == 'call' and n[1] == 'std::ops::RangeInclusive::<Idx>::new'):
                            val = n         # (a literal, or the pure constructor of `a..=b`)
            except Exception:
                val = None
            cache[pb.path] = val
        return cache[pb.path]

    def op_terms(self, op, point, mut_kills=True):
        if 'const' in op:
            return T(self.const_term(op['const']))
        pl = op.get('copy') or op.get('move')
        if pl is None:
            return T(('unknown', 'operand'))
        return self.place_terms(pl, point, mut_kills)

    def place_terms(self, pl, point, mut_kills=True):
        """terms of the value stored in place `pl` just before `point`"""
        proj = pl['p']
        # split the projection at the first deref: the prefix is a sub-place of the local itself
        k = 0
        while k < len(proj) and proj[k] != 'deref' and not box_internal(proj[k]):
            k += 1
        qpath = proj_path(proj[:k])
        base = self.local_terms(pl['l'], point, qpath, mut_kills)
        return self._apply_proj(base, proj[k:], point, mut_kills)

    def _apply_proj(self, base, proj, point, mut_kills):
        cur = base
        i = 0
        while i < len(proj):
            e = proj[i]
            if e == 'deref' or box_internal(e):
                pass
            elif 'f' in e:
                name = e['name'] if e.get('name') is not None else str(e['f'])
                cur = self._field(cur, name)
            elif 'idx' in e:
                it = self.local_terms(e['idx'], point, (), mut_kills)
                cur = T(('index', cur, it))
            elif 'cidx' in e:
                cur = T(('index', cur, T(('const', str(e['cidx'])))))
            elif 'down' in e:
                vname = str(e.get('name') or e['down'])
                # a downcast is always followed by a field
                if i + 1 < len(proj) and isinstance(proj[i + 1], dict) and 'f' in proj[i + 1]:
                    cur = self._payload(cur, vname, proj[i + 1]['f'])
                    i += 1
                else:
                    cur = T(('payload', cur, vname, None))
            else:
                cur = T(('unknown', 'proj'))
            i += 1
        return cur

    def _apply_tokens(self, t, tokens):
        i = 0
        while i < len(tokens):
            f = tokens[i]
            if f.startswith('as:'):
                if i + 1 < len(tokens) and tokens[i + 1].isdigit():
                    t = self._payload(t, f[3:], int(tokens[i + 1]))
                    i += 2
                    continue
                if i + 1 < len(tokens):
                    # named field of a struct-like variant
                    t = T(('payload', t, f[3:], tokens[i + 1]))
                    i += 2
                    continue
                t = T(('payload', t, f[3:], None))
            elif f == '[]':
                t = T(('index', t, T(('unknown', 'idx'))))
            else:
                t = self._field(t, f)
            i += 1
        return t

    def _field(self, base, name):
        """field of a value: see through aggregate literals"""
        out = set()
        rest = set()
        for n in base:
            if n[0] == 'agg':
                hit = [t for (fn_, t) in n[3] if fn_ == name]
                if hit:
                    out |= hit[0]
                    continue
            if n[0] == 'tuple' and name.isdigit() and int(name) < len(n[1]):
                # component k of a tuple literal; `rec.k` at position k (the component carried round a loop unchanged, as in
                # a tuple accumulator `acc = if c {(i, d)} else {(acc.0, acc.1)}`) adds nothing to the set of origins
                out |= {m for m in n[1][int(name)]
                        if not (m[0] == 'field' and m[2] == name and m[1] and all(q[0] == 'rec' for q in m[1]))}
                continue
            if n[0] == 'closure' and name.isdigit() and int(name) < len(n[2]):
                out |= n[2][int(name)]          # captured variable k of a closure literal (after closure inlining)
                continue
            if n[0] == 'clone':
                # field of a clone = clone of the field
                out.add(('clone', T(('field', n[1], name))))
                continue
            if n[0] == 'rec' and len(base) > 1:
                # the value carried round a loop unchanged (`else { acc }`): its fields are the fields of the other
                # definitions of the same variable, already in this set
                continue
            rest.add(n)
        if rest:
            out.add(('field', frozenset(rest), name))
        return frozenset(out)

    def _payload(self, base, vname, k):
        out = set()
        rest = set()
        if vname in ('Some', 'Ok', 'Continue') and k == 0:
            for n in base:
                if n[0] == 'agg' and n[2] in ('Some', 'Ok', 'Continue') and n[3]:
                    out |= n[3][0][1]
                elif n[0] == 'agg' and n[2] in ('None', 'Err', 'Break'):
                    continue            # a residual literal carries no payload: this definition cannot reach here
                elif n[0] == 'call' and n[1] == 'std::ops::FromResidual::from_residual':
                    continue
                else:
                    rest.add(n)
            if rest:
                out.add(('unwrap', frozenset(rest)))
            return frozenset(out)
        for n in base:
            if n[0] == 'agg' and n[2] == vname:
                fields = n[3]
                if k < len(fields):
                    out |= fields[k][1]
                    continue
            if n[0] == 'agg' and n[1] in ('std::ops::ControlFlow', 'std::result::Result', 'std::option::Option') and n[2] != vname:
                continue                # a literal of another variant: this definition cannot reach a read of `vname`'s payload
            rest.add(n)
        if rest:
            out.add(('payload', frozenset(rest), vname, k))
        return frozenset(out)

    def local_terms(self, local, point, qpath=(), mut_kills=True):
        key = (local, point, qpath, mut_kills)
        if key in self._memo:
            return self._memo[key]
        evs, entry = self.reaching(local, point, qpath, mut_kills, whole_only=True)
        out = set()
        if entry or not evs:
            if 1 <= local <= self.b.arg_count:
                n = ('param', local, self.b.local_name(local))
                out |= self._apply_tokens(T(n), qpath)
            elif not evs:
                out.add(('unknown', 'uninit _%d' % local))
        for e in evs:
            t = self.event_terms(e, mut_kills)
            # event wrote path e.path (prefix of qpath since whole_only): project the remainder
            rest = qpath[len(e.path):]
            out |= self._apply_tokens(t, rest)
        res = frozenset(out)
        self._memo[key] = res
        return res

    def event_terms(self, e, mut_kills=True):
        key = ('ev', e.id, mut_kills)
        if key in self._memo:
            v = self._memo[key]
            if v is None:
                return T(('rec', e.id))
            return v
        self._memo[key] = None
        point = (e.block, e.idx)
        if e.kind == 'assign':
            st = e.data
            if st['k'] == 'setdiscr':
                res = T(('unknown', 'setdiscr'))
            else:
                res = self.rvalue_terms(st['rv'], point, mut_kills)
        elif e.kind == 'call':
            res = self.call_terms(e.data, e.block)
        elif e.kind == 'out':
            t, k = e.data
            f = t['func']
            path = f.get('path', 'indirect')
            args = tuple(self.arg_terms(t, j, e.block) for j in range(len(t['args'])))
            res = T(('out', path, k, args, (self.path, e.block)))
        else:
            res = T(('unknown', 'escape'))
        self._memo[key] = res
        return res

    def arg_terms(self, t, j, block):
        """terms of the j-th argument of call terminator t (in `block`); &mut arguments are
        evaluated in identity mode (ignoring earlier mutations through out-arguments)."""
        a = t['args'][j]
        point = (block, self.nstmts(block))
        pl = a.get('move') or a.get('copy')
        if pl is not None and not pl['p']:
            ty = self.b.local_ty(pl['l'])
            if ty.startswith('&mut ') or (ty.startswith("&'") and ' mut ' in ty[:ty.find(' ', 2) + 5]):
                return self.op_terms(a, point, mut_kills=False)
        return self.op_terms(a, point, True)

    def call_terms(self, t, block):
        f = t['func']
        site = (self.path, block)
        if 'indirect' in f:
            args = tuple(self.arg_terms(t, j, block) for j in range(len(t['args'])))
            callee = self.op_terms(f['indirect'], (block, self.nstmts(block)))
            return T(('call', 'indirect', (callee,) + args, site))
        path = f['path']
        if path == 'std::boxed::box_assume_init_into_vec_unsafe':
            # vec![a, b, ..] lowering: Box::new_uninit(); *ptr = [a, b, ..]; box_assume_init_into_vec_unsafe(box)
            # the array store carries the span of the same vec! invocation
            sp = self.blocks[block]['tspan']
            key = (sp['file'], sp['l0'], sp['c0'], sp['l1'], sp['c1'])
            for bi2, blk2 in enumerate(self.blocks):
                if blk2['cleanup']:
                    continue
                for si2, st2 in enumerate(blk2['stmts']):
                    if st2['k'] == 'assign' and st2['rv']['k'] == 'agg' and st2['rv'].get('agg') == 'array':
                        s2 = st2['span']
                        if (s2['file'], s2['l0'], s2['c0'], s2['l1'], s2['c1']) == key and 'vec' in s2.get('mac', []):
                            return self.rvalue_terms(st2['rv'], (bi2, si2))
        args = tuple(self.arg_terms(t, j, block) for j in range(len(t['args'])))
        if (path in TRANSPARENT or path in PAYLOAD_KEEP) and args:
            return args[0]
        if path in UNWRAP and args:
            return T(('unwrap', args[0]))
        if path in CLONE and args:
            sty = (f.get('self_ty') or f.get('resolved', {}).get('self_ty') or '')
            if sty.startswith(('std::sync::Arc<', 'std::rc::Rc<', 'alloc::sync::Arc<', 'alloc::rc::Rc<')):
                return args[0]              # a new handle on the same allocation: what is pointed at is the very same value
            return T(('clone', args[0]))
        if path in INDEX and len(args) == 2:
            return T(('index', args[0], args[1]))
        if len(args) == 1 and f.get('trait') and hasattr(self.b.crate, 'accessors'):
            acc = self.b.crate.accessors().get(path)
            if acc is not None:
                return self._field(args[0], acc)        # a uniform field accessor of one of the crate's traits
        if path in CMP_CALLS and len(args) == 2 and PRIM_REF.match(f.get('self_ty') or ''):
            # `a < b` on references to primitives is a call of the blanket impl for &A; references are transparent in terms
            return T(('binop', CMP_CALLS[path], args[0], args[1]))
        if path in ARITH_CALLS and len(args) == 2 and PRIM_REF.match(f.get('self_ty') or ''):
            return T(('binop', ARITH_CALLS[path], args[0], args[1]))     # `&a + b`, `a - &b`, .. on primitives
        if path == 'std::ops::Neg::neg' and len(args) == 1 and PRIM_REF.match(f.get('self_ty') or ''):
            return T(('unop', 'Neg', args[0]))
        if path == 'core::slice::<impl [T]>::len':
            path = 'std::vec::Vec::<T, A>::len'     # Deref is transparent: the length of a vector seen as a slice
        return T(('call', path, args, site))

    def rvalue_terms(self, rv, point, mut_kills=True):
        k = rv['k']
        if k == 'use':
            return self.op_terms(rv['op'], point, mut_kills)
        if k in ('ref', 'rawptr'):
            return self.place_terms(rv['place'], point, mut_kills=(mut_kills and not rv['mut']))
        if k == 'cast':
            a = self.op_terms(rv['op'], point, mut_kills)
            c = rv['cast']
            if 'Unsize' in c or 'PtrToPtr' in c or 'Transmute' in c or 'ReifyFnPointer' in c \
                    or 'ClosureFnPointer' in c or 'MutToConstPointer' in c:
                return a
            return T(('cast', c, a, rv['ty']))
        if k == 'binop':
            return T(('binop', rv['op'], self.op_terms(rv['a'], point), self.op_terms(rv['b'], point)))
        if k == 'unop':
            return T(('unop', rv['op'], self.op_terms(rv['a'], point)))
        if k == 'discr':
            return T(('discr', self.place_terms(rv['place'], point)))
        if k == 'agg':
            fs = tuple(self.op_terms(f, point, mut_kills) for f in rv['fields'])
            if rv['agg'] == 'adt':
                names = rv.get('field_names', [])
                if 'active' in rv:
                    names = [names[rv['active']]] if rv['active'] < len(names) else ['?']
                return T(('agg', rv['adt'], rv['variant_name'],
                          tuple((names[i] if i < len(names) else str(i), fs[i]) for i in range(len(fs)))))
            if rv['agg'] == 'tuple':
                return T(('tuple', fs))
            if rv['agg'] == 'array':
                return T(('array', fs))
            if rv['agg'] == 'closure':
                return T(('closure', rv['closure'], fs))
            return T(('unknown', 'agg'))
        if k == 'repeat':
            return T(('repeat', self.op_terms(rv['op'], point), rv['n']))
        return T(('unknown', 'rvalue:' + rv.get('dbg', k)[:40]))

    def split_defs(self, op, point, depth=0, _seen=None):
        """A4: the reaching definitions of an operand kept apart: list of (def block, def idx, terms).
        Compiler temporaries and single-definition copies are transparent; a variable with several reaching
        definitions yields one entry per definition, located at that definition, carrying the (merged) terms
        of that definition.  Constants and projected places yield one entry located at `point`."""
        if 'const' in op or depth > 12:
            return [(point[0], point[1], self.op_terms(op, point))]
        pl = op.get('move') or op.get('copy')
        if pl is not None and len(pl['p']) == 1 and isinstance(pl['p'][0], dict) and 'f' in pl['p'][0]:
            # `x.k` where every whole definition of x is a copy or a tuple literal: follow component k per definition
            # (the destructuring of a helper's tuple result, also after inlining; a tuple accumulator of a fold written
            # as a loop: definitions that only carry the component round the loop are dropped)
            evs, entry = self.reaching(pl['l'], point, (), True, whole_only=True)
            seen = _seen if _seen is not None else set()
            key = (pl['l'], pl['p'][0]['f'])
            if evs and not entry and key not in seen and depth <= 12:
                seen = seen | {key}
                out = []
                ok = True
                carried = False
                for e in evs:
                    if not (e.kind == 'assign' and e.data['k'] == 'assign' and not e.path):
                        ok = False
                        break
                    rv = e.data['rv']
                    if rv['k'] == 'use':
                        src = rv['op'].get('move') or rv['op'].get('copy')
                        if src is None or src['p']:
                            ok = False
                            break
                        if (src['l'], pl['p'][0]['f']) in seen:
                            carried = True
                            continue            # carried round the loop
                        sub = self.split_defs({'copy': {'l': src['l'], 'p': list(pl['p'])}}, (e.block, e.idx), depth + 1, seen)
                        sub = self._settle(sub, e, len(evs))
                        out.extend(sub)
                    elif rv['k'] == 'agg' and (rv.get('agg') == 'tuple' or (
                            rv.get('agg') == 'adt' and not (self.b.crate.adts.get(rv.get('adt')) or {'is_enum': True}).get('is_enum'))) and \
                            pl['p'][0]['f'] < len(rv['fields']):
                        # a tuple literal, or a literal of one of the crate's own structs (`Candidate { index, cost }`)
                        fo = rv['fields'][pl['p'][0]['f']]
                        fp = fo.get('move') or fo.get('copy')
                        if fp is not None and len(fp['p']) == 1 and isinstance(fp['p'][0], dict) and 'f' in fp['p'][0] and \
                                (fp['l'], fp['p'][0]['f']) in seen:
                            carried = True
                            continue
                        sub = self.split_defs(fo, (e.block, e.idx), depth + 1, seen)
                        # one of several literals: it is the definition of this component, one entry located at the literal,
                        # whatever the history of the value put into it (`Candidate { index: nearest, .. }` with nearest found
                        # by a scan) -- as for a variable with several definitions.  A single literal (the tuple a helper
                        # returns) is transparent: the definitions of its component are followed.
                        sub = self._settle(sub, e, len(evs))
                        out.extend(sub)
                    else:
                        ok = False
                        break
                if ok and (out or len(evs) > 1 or carried):
                    return out
            elif key in seen:
                return []
        if pl is None or pl['p']:
            return [(point[0], point[1], self.op_terms(op, point))]
        evs, entry = self.reaching(pl['l'], point, (), True, whole_only=True)
        out = []
        if entry or not evs:
            out.append((0, 0, self.local_terms(pl['l'], (0, 0))))
        n_defs = len(evs) + (1 if (entry or not evs) else 0)
        for e in evs:
            is_copy = e.kind == 'assign' and e.data['k'] == 'assign' and e.data['rv']['k'] == 'use' and not e.path
            if is_copy and n_defs == 1:
                inner = self.split_defs(e.data['rv']['op'], (e.block, e.idx), depth + 1, _seen)
                if len(inner) == 1:
                    # a plain move: the value is unchanged, keep the latest location (most facts known)
                    out.append((e.block, e.idx, inner[0][2]))
                else:
                    out.extend(inner)
            else:
                out.append((e.block, e.idx, self.event_terms(e)))
        return out

    def _settle(self, sub, e, n_here):
        """where a component definition that passes through the copy / literal `e` is located:
        several deeper definitions under one of several definitions here -> one entry at `e` (as for variables);
        one deeper definition -> the later of the two points when the deeper one dominates `e` (the value is unchanged on
        the way and every fact known there is known here, plus the guards in between: `ret = candidate` under the test),
        else the deeper one (`acc = ret` after the join of the closure's two arms keeps the guarded arm's location)."""
        if len(sub) > 1 and n_here > 1:
            return [(e.block, e.idx, frozenset().union(*[t_ for (_b, _i, t_) in sub]))]
        if len(sub) == 1:
            (b1, i1, t1) = sub[0]
            dom = self.dominators()
            if (b1 == e.block and i1 <= e.idx) or (b1 != e.block and b1 in dom.get(e.block, ())):
                return [(e.block, e.idx, t1)]
        return sub

    # ------------------------------------------------------------------ A3
    def _psucc(self, pt, via_edges=None):
        b, i = pt
        if i < self.nstmts(b):
            return [(b, i + 1)]
        out = []
        for s in self.succs(b):
            if via_edges is not None and (b, s) not in via_edges:
                continue
            out.append((s, 0))
        return out

    def points_between(self, p_point, q_point, via_edges=None):
        """(fwd, back): fwd = program points reachable from just after p_point without executing
        p_point again; back = points from which q_point is reachable without executing p_point.
        via_edges restricts the first step out of p_point's block (when p_point is a terminator)."""
        fwd = set()
        dq = deque(self._psucc(p_point, via_edges))
        while dq:
            x = dq.popleft()
            if x in fwd:
                continue
            fwd.add(x)
            if x == p_point:
                continue
            for s in self._psucc(x):
                if s not in fwd:
                    dq.append(s)
        # backward
        pred = self.b.preds()
        back = set()
        dq = deque([q_point])
        while dq:
            x = dq.popleft()
            if x in back:
                continue
            back.add(x)
            b, i = x
            if i > 0:
                ps = [(b, i - 1)]
            else:
                ps = [(p, self.nstmts(p)) for p in pred[b]]
            for p in ps:
                if p == p_point:
                    continue
                if p not in back:
                    dq.append(p)
        return fwd, back

    def redefined_between(self, local, p_point, q_point, qpath=(), via_edges=None, ignore=()):
        """A3: events writing `local` (overlapping field path qpath) that can execute strictly
        after p_point and before q_point on a path p -> q that does not execute p again."""
        fwd, back = self.points_between(p_point, q_point, via_edges)
        out = []
        for e in self.events(local):
            if e in ignore or not self._path_related(e.path, qpath):
                continue
            x = (e.block, e.idx)
            if x == p_point or x not in fwd:
                continue
            if any(s in back for s in self._psucc(x)):
                out.append(e)
        return out

    def executes_between(self, x_point, p_point, q_point, via_edges=None):
        fwd, back = self.points_between(p_point, q_point, via_edges)
        return x_point != p_point and x_point in fwd and any(s in back for s in self._psucc(x_point))

    # ------------------------------------------------------------------ A1
    def switch_info(self, b):
        """if block b ends in a switch: (discr terms, {value: target}, otherwise)"""
        t = self.blocks[b]['term']
        if t['k'] != 'switch':
            return None
        terms = self.op_terms(t['discr'], (b, self.nstmts(b)))
        return terms, {v: tg for v, tg in t['targets']}, t['otherwise']

    def bool_edges(self, pred):
        """For every switch whose discriminant is (possibly negated) a boolean term accepted by
        `pred(node) -> bool`: return (true_edges, false_edges, switch_blocks) where true_edges are
        the CFG edges taken when the accepted term evaluated to true.  Only switches whose
        discriminant term set consists solely of accepted nodes are used."""
        te, fe, sb = set(), set(), []
        for b in range(self.nb):
            if self.blocks[b]['cleanup']:
                continue
            si = self.switch_info(b)
            if si is None:
                continue
            terms, tmap, other = si
            neg = None
            only = None
            lits = [n for n in terms if n[0] == 'const' and n[1] in ('true', 'false')]
            if lits and len(lits) < len(terms):
                fi = self.flag_info(b)
                if fi is None:
                    continue
                only = fi[0] == 'false'          # the edge on which the flag holds its computed value
                terms = frozenset(n for n in terms if n not in lits)
            ok = bool(terms)
            for n in terms:
                m, ng = n, False
                while m[0] == 'unop' and m[1] == 'Not' and len(m[2]) == 1:
                    m = next(iter(m[2]))
                    ng = not ng
                if not pred(m):
                    ok = False
                    break
                if neg is None:
                    neg = ng
                elif neg != ng:
                    ok = False
                    break
            if not ok:
                continue
            # boolean switch: value 0 -> false target, otherwise -> true target
            if set(tmap.keys()) == {'0'}:
                f_t, t_t = tmap['0'], other
            elif set(tmap.keys()) == {'1'}:
                t_t, f_t = tmap['1'], other
            elif set(tmap.keys()) == {'0', '1'}:
                f_t, t_t = tmap['0'], tmap['1']
            else:
                continue
            if neg:
                t_t, f_t = f_t, t_t
            if t_t == f_t:
                continue
            if only is None:
                te.add((b, t_t))
                fe.add((b, f_t))
            else:
                # (t_t, f_t) are the edges on which the accepted term is true / false; the flag speaks for it only on the raw
                # edge where it cannot be the literal: raw true edge for `a && x` (literal false), raw false for `a || x`
                raw_t, raw_f = (t_t, f_t) if not neg else (f_t, t_t)
                e = raw_t if only else raw_f
                if e == t_t:
                    te.add((b, t_t))
                else:
                    fe.add((b, f_t))
            sb.append(b)
        return te, fe, sb

    # ------------------------------------------------------------------ materialised boolean flags
    def flag_root(self, b):
        """the local holding the flag switched on in block b, plain copies followed (`_9 = _5; switch(move _9)`)"""
        t = self.blocks[b]['term']
        if t['k'] != 'switch':
            return None
        pl = t['discr'].get('move') or t['discr'].get('copy')
        if pl is None or pl['p']:
            return None
        l, seen = pl['l'], set()
        for _ in range(4):
            defs = [st for blk in self.blocks if not blk['cleanup'] for st in blk['stmts']
                    if st['k'] == 'assign' and st['place']['l'] == l]
            cdefs = [blk for blk in self.blocks if not blk['cleanup'] and blk['term']['k'] == 'call' and blk['term']['dest']['l'] == l]
            if len(defs) == 1 and not cdefs and not defs[0]['place']['p'] and defs[0]['rv']['k'] == 'use':
                src = defs[0]['rv']['op'].get('move') or defs[0]['rv']['op'].get('copy')
                if src is not None and not src['p'] and src['l'] not in seen:
                    seen.add(l)
                    l = src['l']
                    continue
            return l
        return None

    def flag_info(self, b):
        """block b switches on a bool local whose definitions are literals of one kind plus exactly one computed value
        (`let f = a && b`: false / b;  `a || b`: true / b), assigned afresh on every way round to b:
        returns (literal 'false'|'true', block of the computed definition), else None"""
        key = ('flag', b)
        if key in self._memo:
            return self._memo[key]
        res = None
        l = self.flag_root(b)
        if l is not None and self.b.local_ty(l) == 'bool':
            lits, comp = [], []
            for bi, blk in enumerate(self.blocks):
                if blk['cleanup']:
                    continue
                for st in blk['stmts']:
                    if st['k'] == 'assign' and st['place']['l'] == l:
                        if st['place']['p']:
                            comp.append(None)
                        elif st['rv']['k'] == 'use' and 'const' in st['rv']['op'] and isinstance(st['rv']['op']['const'].get('val'), bool):
                            lits.append((bi, st['rv']['op']['const']['val']))
                        else:
                            comp.append(bi)
                t = blk['term']
                if t['k'] == 'call' and t['dest']['l'] == l:
                    comp.append(bi if not t['dest']['p'] else None)
            if lits and len(comp) == 1 and comp[0] is not None and len({v for _b, v in lits}) == 1:
                defs = frozenset([comp[0]] + [x for x, _v in lits])
                fresh = b not in defs
                if fresh:
                    for s0 in self.succs(b):
                        if s0 not in defs and b in self.reachable(s0, stop=defs):
                            fresh = False
                if fresh:
                    res = ('true' if lits[0][1] else 'false', comp[0])
        self._memo[key] = res
        return res

    def guarded_by(self, block, edges, _depth=0):
        """every path from the entry to `block` takes one of `edges`; a block that is only reached over the edge of a flag
        switch on which the flag holds its computed value (`if a && f(x)` materialised as a bool) counts as reached
        through the block computing it"""
        edges = frozenset(edges)
        if not edges:
            return False
        if block not in self.reachable(0, removed=edges):
            return True
        if _depth >= 3:
            return False
        for b in range(self.nb):
            if self.blocks[b]['cleanup'] or self.blocks[b]['term']['k'] != 'switch':
                continue
            fi = self.flag_info(b)
            if fi is None:
                continue
            lit, D = fi
            si = self.switch_info(b)
            if si is None:
                continue
            _terms, tmap, other = si
            if set(tmap.keys()) == {'0'}:
                f_t, t_t = tmap['0'], other
            elif set(tmap.keys()) == {'1'}:
                t_t, f_t = tmap['1'], other
            else:
                continue
            e = (b, t_t) if lit == 'false' else (b, f_t)
            if t_t != f_t and block not in self.reachable(0, removed=frozenset([e])) and D != block:
                if self.guarded_by(D, edges, _depth + 1):
                    return True
        return False

    def discr_edges(self, pred):
        """for every switch on discriminant(X) with pred(X terms): {variant value (str): set of edges};
        key 'otherwise' collects the default edge"""
        out = {}
        for b in range(self.nb):
            if self.blocks[b]['cleanup']:
                continue
            si = self.switch_info(b)
            if si is None:
                continue
            terms, tmap, other = si
            if not terms or not all(n[0] == 'discr' and pred(n[1]) for n in terms):
                continue
            for v, tg in tmap.items():
                out.setdefault(v, set()).add((b, tg))
            out.setdefault('otherwise', set()).add((b, other))
        return out

    def dominated_by_edges(self, target, edges, start=0):
        """True iff every path from start to `target` uses one of `edges`"""
        if not edges:
            return False
        return target not in self.reachable(start, removed=frozenset(edges))

    # ------------------------------------------------------------------ misc helpers
    def call_sites(self, pred=None):
        out = []
        for bi, t in self.b.calls():
            f = t['func']
            if pred is None or pred(f, t):
                out.append((bi, t))
        return out

    def loc(self, b, i=None):
        return self.b.loc(b, i)


# ---------------------------------------------------------------------------------------------
# term utilities

def walk(ts, seen=None):
    """iterate over all nodes in a term set (deep)"""
    if seen is None:
        seen = set()
    for n in ts:
        if id(n) in seen:
            continue
        seen.add(id(n))
        yield n
        for c in n[1:]:
            if isinstance(c, frozenset):
                yield from walk(c, seen)
            elif isinstance(c, tuple):
                for cc in c:
                    if isinstance(cc, frozenset):
                        yield from walk(cc, seen)
                    elif isinstance(cc, tuple) and len(cc) == 2 and isinstance(cc[1], frozenset):
                        yield from walk(cc[1], seen)


def strip_clone(ts):
    out = set()
    for n in ts:
        if n[0] == 'clone':
            out |= strip_clone(n[1])
        else:
            out.add(n)
    return frozenset(out)


def has_node(ts, pred):
    return any(pred(n) for n in walk(ts))


def fmt_terms(ts, depth=0):
    if depth > 8:
        return '...'
    items = sorted(fmt_node(n, depth) for n in ts)
    if len(items) == 1:
        return items[0]
    return '{' + ' | '.join(items) + '}'


def fmt_node(n, depth=0):
    k = n[0]
    d = depth + 1
    if k == 'param':
        return str(n[2] or 'arg%d' % n[1])
    if k == 'const':
        return n[1]
    if k == 'fnitem':
        return 'fn:' + n[1]
    if k == 'field':
        return '%s.%s' % (fmt_terms(n[1], d), n[2])
    if k == 'index':
        return '%s[%s]' % (fmt_terms(n[1], d), fmt_terms(n[2], d))
    if k == 'payload':
        return '(%s as %s).%s' % (fmt_terms(n[1], d), n[2], n[3])
    if k == 'discr':
        return 'discr(%s)' % fmt_terms(n[1], d)
    if k == 'call':
        return '%s(%s)@bb%d' % (short(n[1]), ', '.join(fmt_terms(a, d) for a in n[2]), n[3][1])
    if k == 'out':
        return 'out%d:%s(%s)@bb%d' % (n[2], short(n[1]), ', '.join(fmt_terms(a, d) for a in n[3]), n[4][1])
    if k == 'agg':
        return '%s::%s{%s}' % (short(n[1]), n[2], ', '.join('%s: %s' % (f, fmt_terms(t, d)) for f, t in n[3]))
    if k in ('tuple', 'array'):
        return '%s(%s)' % (k, ', '.join(fmt_terms(a, d) for a in n[1]))
    if k == 'closure':
        return 'closure %s[%s]' % (short(n[1]), ', '.join(fmt_terms(a, d) for a in n[2]))
    if k == 'binop':
        return '%s(%s, %s)' % (n[1], fmt_terms(n[2], d), fmt_terms(n[3], d))
    if k == 'unop':
        return '%s(%s)' % (n[1], fmt_terms(n[2], d))
    if k == 'cast':
        return '(%s as %s)' % (fmt_terms(n[2], d), n[3])
    if k == 'clone':
        return 'clone(%s)' % fmt_terms(n[1], d)
    if k == 'unwrap':
        return '%s!' % fmt_terms(n[1], d)
    if k == 'rec':
        return 'rec#%d' % n[1]
    if k == 'repeat':
        return '[%s; %s]' % (fmt_terms(n[1], d), n[2])
    return str(n)


def short(path):
    # drop generic noise for readability
    import re
    p = re.sub(r'<[^<>]*>', '', path)
    p = re.sub(r'<[^<>]*>', '', p)
    parts = [x for x in p.split('::') if x]
    return '::'.join(parts[-2:]) if len(parts) >= 2 else p
