"""python3 -m oxa.dump <crate> <substring> [--terms]  : pretty-print MIR bodies from the newest facts dir"""
import glob, os, sys
from .facts import Facts, dump_body
from .engine import Fn, fmt_terms, short

def newest():
    # facts of the tree named by OXA_REPO (default /repo), extracted if necessary
    from . import extract
    return extract.extract(log=lambda m: None)[0]

if __name__ == '__main__':
    crate, sub = sys.argv[1], sys.argv[2]
    f = Facts(newest())
    c = f.crate(crate)
    for b in c.bodies:
        if sub in b.path and not b.in_test_mod():
            print(dump_body(b))
            if '--terms' in sys.argv:
                fn = Fn(b)
                for bi, t in b.calls():
                    if 'path' in t['func']:
                        print('  bb%d %s(%s)' % (bi, short(t['func']['path']),
                              ' ; '.join(fmt_terms(fn.arg_terms(t, j, bi))[:200] for j in range(len(t['args'])))))
            print()
