"""Symbolic exploration of the boolean control flow of one function (A7 extension).

explore(fn, start, is_atom) walks the CFG from `start`, tracking for every bool local whether it holds a constant, an atom
(a comparison / predicate term accepted by is_atom) or the negation of one.  A switch on a constant follows one edge; a
switch on an atom forks, recording the atom's truth value on each side.  Leaves:
    ('ret', True | False | None)   the first assignment to the return place on this path (None = not a known constant)
    ('loop', block)                the path came back to a block it had already visited (next iteration)
    ('stop', block)                a caller-supplied stop block was reached
    ('exit', None)                 return / diverging terminator without an assignment to the return place
Each leaf carries the valuation {atom: bool} of the atoms decided on the way.  Bounded by max_leaves (fail closed: the
caller treats an overflow as unrecognised shape)."""

CMP = ('Lt', 'Le', 'Gt', 'Ge', 'Eq', 'Ne')


class Overflow(Exception):
    pass


def explore(fn, start, is_atom, stop=frozenset(), max_leaves=2048):
    leaves = []

    def expr_of(rv, pt, env, order=None):
        k = rv['k']
        if k == 'use':
            op = rv['op']
            if 'const' in op:
                v = op['const'].get('val')
                return ('c', v) if isinstance(v, bool) else None
            pl = op.get('move') or op.get('copy')
            if pl is not None and not pl['p']:
                return env.get(pl['l'])
            return None
        if k == 'unop' and rv['op'] == 'Not':
            pl = rv['a'].get('move') or rv['a'].get('copy')
            e = env.get(pl['l']) if pl is not None and not pl['p'] else None
            if e is None:
                return None
            return ('c', not e[1]) if e[0] == 'c' else ('a', e[1], not e[2])
        if k == 'binop' and rv['op'] in CMP:
            ts = fn.rvalue_terms(rv, pt)
            if len(ts) == 1:
                n = next(iter(ts))
                if n[0] == 'binop' and (len(n[2]) > 1 or len(n[3]) > 1) and order is not None:
                    # an operand selected on the way here (`let v = if c { a } else { b }; v >= lo`): on this path it is the
                    # value of the arm that was taken
                    a = path_terms(rv['a'], pt, order) or n[2]
                    b_ = path_terms(rv['b'], pt, order) or n[3]
                    n = ('binop', n[1], a, b_)
                if is_atom(n):
                    return ('a', n, True)
        return None

    def path_terms(op, pt, order):
        """terms of a plain-local operand as assigned last along the blocks visited so far (None: not decidable here)"""
        pl = op.get('move') or op.get('copy')
        if pl is None or pl['p']:
            return None
        local = pl['l']
        seq = list(order)
        bi, si = pt
        for _hop in range(6):
            found = None
            # scan backwards: current block before si, then earlier blocks
            k = len(seq) - 1
            while k >= 0 and found is None:
                blk_i = seq[k]
                blk = fn.blocks[blk_i]
                hi = si if (k == len(seq) - 1) else len(blk['stmts'])
                if k != len(seq) - 1:
                    t = blk['term']
                    if t['k'] == 'call' and t['dest'] == {'l': local, 'p': []}:
                        return fn.call_terms(t, blk_i)
                for sj in range(hi - 1, -1, -1):
                    st = blk['stmts'][sj]
                    if st['k'] == 'assign' and st['place']['l'] == local:
                        if st['place']['p']:
                            return None
                        found = (blk_i, sj, st, k)
                        break
                k -= 1
            if found is None:
                return None
            blk_i, sj, st, k = found
            rv2 = st['rv']
            if rv2['k'] == 'use':
                src = rv2['op'].get('move') or rv2['op'].get('copy')
                if src is not None and not src['p']:
                    local = src['l']
                    seq = seq[:k + 1]
                    si = sj
                    continue
            if rv2['k'] == 'ref' and rv2['place']['p'] in ([], ['deref']):      # `&v`, and the reborrow `&*r`
                # `&v` handed to a predicate: what v holds on this path (references are transparent in the term language)
                local = rv2['place']['l']
                seq = seq[:k + 1]
                si = sj
                continue
            return fn.rvalue_terms(rv2, (blk_i, sj))
        return None

    def walk(b, env, val, path, order=()):
        while True:
            if len(leaves) > max_leaves:
                raise Overflow()
            if b in stop:
                leaves.append((dict(val), ('stop', b)))
                return
            if b in path:
                leaves.append((dict(val), ('loop', b)))
                return
            path = path | {b}
            order = order + (b,)
            blk = fn.blocks[b]
            for si, st in enumerate(blk['stmts']):
                if st['k'] != 'assign':
                    continue
                pl = st['place']
                if pl['p']:
                    continue
                e = expr_of(st['rv'], (b, si), env, order)
                if pl['l'] == 0:
                    if e is None:
                        leaves.append((dict(val), ('ret', None)))
                    elif e[0] == 'c':
                        leaves.append((dict(val), ('ret', e[1])))
                    else:
                        key, pol = e[1], e[2]
                        if key in val:
                            leaves.append((dict(val), ('ret', val[key] == pol)))
                        else:
                            for tv in (True, False):
                                v2 = dict(val)
                                v2[key] = tv
                                leaves.append((v2, ('ret', tv == pol)))
                    return
                if e is None:
                    env.pop(pl['l'], None)
                else:
                    env[pl['l']] = e
            t = blk['term']
            k = t['k']
            if k == 'return' or k in ('unreachable', 'resume', 'terminate'):
                leaves.append((dict(val), ('exit', None)))
                return
            if k == 'call':
                if not t['dest']['p']:
                    ts = fn.call_terms(t, b)
                    atom = None
                    if len(ts) == 1:
                        n = next(iter(ts))
                        if n[0] == 'call' and len(n) > 2 and any(len(a) > 1 for a in n[2]) and len(n[2]) == len(t['args']):
                            # a predicate over a value selected on the way here: on this path it is the value of the arm taken
                            args = tuple(path_terms(o, (b, len(blk['stmts'])), order) or a for o, a in zip(t['args'], n[2]))
                            n = n[:2] + (args,) + n[3:]
                        if is_atom(n):
                            atom = n
                    if t['dest']['l'] == 0:
                        if atom is None:
                            leaves.append((dict(val), ('ret', None)))
                        elif atom in val:
                            leaves.append((dict(val), ('ret', val[atom])))
                        else:
                            for tv in (True, False):
                                v2 = dict(val)
                                v2[atom] = tv
                                leaves.append((v2, ('ret', tv)))
                        return
                    env.pop(t['dest']['l'], None)
                    if atom is not None:
                        env[t['dest']['l']] = ('a', atom, True)
                if t['target'] is None:
                    leaves.append((dict(val), ('exit', None)))
                    return
                b = t['target']
                continue
            if k == 'switch':
                d = t['discr'].get('move') or t['discr'].get('copy')
                e = env.get(d['l']) if d is not None and not d['p'] else None
                tm = {str(v): tg for v, tg in t['targets']}
                if e is not None and set(tm.keys()) <= {'0', '1'}:
                    def edge(v):
                        return tm.get('1' if v else '0', t['otherwise'])
                    if e[0] == 'c':
                        b = edge(e[1])
                        continue
                    key, pol = e[1], e[2]
                    if key in val:
                        b = edge(val[key] == pol)
                        continue
                    for tv in (True, False):
                        v2 = dict(val)
                        v2[key] = tv
                        walk(edge(tv == pol), dict(env), v2, path, order)
                    return
                for s in fn.succs(b):
                    walk(s, dict(env), dict(val), path, order)
                return
            nxt = fn.succs(b)
            if not nxt:
                leaves.append((dict(val), ('exit', None)))
                return
            if len(nxt) == 1:
                b = nxt[0]
                continue
            for s in nxt:
                walk(s, dict(env), dict(val), path, order)
            return

    import sys
    old = sys.getrecursionlimit()
    sys.setrecursionlimit(max(old, 10000))
    try:
        walk(start, {}, {}, frozenset())
    finally:
        sys.setrecursionlimit(old)
    return leaves
