"""MIR-level inlining on the fact representation (A5 with an explicit inlining bound).

inline_calls(body, pick) returns a new Body in which every call terminator accepted by `pick(callee Body)` is replaced
by a renumbered copy of the callee's blocks: arguments are assigned to the callee's parameter locals, the callee's
return place becomes a fresh local that is moved into the call destination, `return` becomes a goto to the call's
target.  Cleanup blocks of the callee are dropped.  Used so that rules written for "the code is in solve" keep working
when a maintainer extracts a pure selector helper (nearest neighbour, steering) out of solve."""
import copy
import json

from .facts import Body


def _shift_place(pl, off):
    p = []
    for e in pl['p']:
        if isinstance(e, dict) and 'idx' in e:
            e = dict(e)
            e['idx'] = e['idx'] + off
        p.append(e)
    return {'l': pl['l'] + off, 'p': p}


def _shift_op(o, off):
    if 'copy' in o:
        return {'copy': _shift_place(o['copy'], off)}
    if 'move' in o:
        return {'move': _shift_place(o['move'], off)}
    return o


def _shift_rv(rv, off):
    rv = dict(rv)
    k = rv['k']
    if k in ('use', 'cast', 'repeat'):
        rv['op'] = _shift_op(rv['op'], off)
    elif k in ('ref', 'rawptr', 'discr'):
        rv['place'] = _shift_place(rv['place'], off)
    elif k == 'binop':
        rv['a'] = _shift_op(rv['a'], off)
        rv['b'] = _shift_op(rv['b'], off)
    elif k == 'unop':
        rv['a'] = _shift_op(rv['a'], off)
    elif k == 'agg':
        rv['fields'] = [_shift_op(f, off) for f in rv['fields']]
    return rv


def _shift_term(t, loff, boff, ret_local, dest, target):
    t = dict(t)
    k = t['k']
    if k == 'goto':
        t['target'] += boff
    elif k == 'switch':
        t['discr'] = _shift_op(t['discr'], loff)
        t['targets'] = [[v, b + boff] for v, b in t['targets']]
        t['otherwise'] += boff
    elif k == 'drop':
        t['place'] = _shift_place(t['place'], loff)
        t['target'] += boff
        t['unwind'] = None
    elif k == 'assert':
        t['cond'] = _shift_op(t['cond'], loff)
        t['target'] += boff
        t['unwind'] = None
    elif k == 'call':
        f = t['func']
        if 'indirect' in f:
            t['func'] = {'indirect': _shift_op(f['indirect'], loff)}
        t['args'] = [_shift_op(a, loff) for a in t['args']]
        t['dest'] = _shift_place(t['dest'], loff)
        t['target'] = t['target'] + boff if t['target'] is not None else None
        t['unwind'] = None
    elif k == 'return':
        return None
    elif k == 'other':
        t['succ'] = [s + boff for s in t.get('succ', [])]
    return t


def inline_once(body, bi, callee):
    """inline the call terminating block `bi` of `body` (a Body) with `callee` (a Body); returns new Body"""
    j = copy.deepcopy(body.j)
    cj = callee.j
    t = j['blocks'][bi]['term']
    assert t['k'] == 'call'
    loff = len(j['locals'])
    boff = len(j['blocks'])
    # locals
    for l in cj['locals']:
        nl = dict(l)
        if nl.get('name'):
            nl['name'] = nl['name']  # keep user names: useful in messages
        j['locals'].append(nl)
    span = j['blocks'][bi]['tspan']
    # argument passing
    stmts = j['blocks'][bi]['stmts']
    for i, a in enumerate(t['args']):
        stmts.append({'k': 'assign', 'place': {'l': loff + 1 + i, 'p': []}, 'rv': {'k': 'use', 'op': a}, 'span': span})
    target = t['target']
    dest = t['dest']
    j['blocks'][bi]['term'] = {'k': 'goto', 'target': boff}
    for cb in cj['blocks']:
        nb = {'stmts': [], 'term': None, 'tspan': cb['tspan'], 'cleanup': cb['cleanup']}
        if cb['cleanup']:
            nb['term'] = {'k': 'unreachable'}
            j['blocks'].append(nb)
            continue
        for st in cb['stmts']:
            st2 = dict(st)
            if st['k'] == 'assign':
                st2['place'] = _shift_place(st['place'], loff)
                st2['rv'] = _shift_rv(st['rv'], loff)
            elif st['k'] == 'setdiscr':
                st2['place'] = _shift_place(st['place'], loff)
            nb['stmts'].append(st2)
        nt = _shift_term(cb['term'], loff, boff, loff, dest, target)
        if nt is None:   # return
            nb['stmts'].append({'k': 'assign', 'place': dest, 'rv': {'k': 'use', 'op': {'move': {'l': loff, 'p': []}}},
                                'span': cb['tspan']})
            nt = {'k': 'goto', 'target': target} if target is not None else {'k': 'unreachable'}
        nb['term'] = nt
        j['blocks'].append(nb)
    nbdy = Body(j, body.crate)
    return nbdy


def inline_calls(body, pick, crate, max_rounds=24, sub=None, max_blocks=3000):
    """repeatedly inline calls whose callee body is accepted by pick(callee); `sub(callee)` may substitute an already
    processed version of the callee.  Bounded: at most max_rounds inlinings and max_blocks blocks per body.
    The returned Body carries `inlined_from` (set of callee paths) when anything was inlined."""
    cur = body
    used = set()
    for _ in range(max_rounds):
        did = False
        for bi, t in list(cur.calls()):
            p = t['func'].get('path')
            cb = crate.body(p) if p else None
            if cb is None or cb.path == body.path or cb.in_test_mod() or not pick(cb):
                continue
            if t['target'] is None:
                continue
            cb2 = sub(cb) if sub else cb
            if len(cur.blocks) + len(cb2.blocks) > max_blocks:
                continue
            cur = inline_once(cur, bi, cb2)
            used.add(cb.path)
            used |= getattr(cb2, 'inlined_from', set())
            did = True
            break
        if not did:
            break
    if used:
        cur.inlined_from = used
    return cur


# ---------------------------------------------------------------------------------------------------------------------
# Desugaring of the short-circuiting iterator adaptors  it.all(|x| P(x))  /  it.any(|x| P(x))  into the loop they denote
#     loop { match it.next() { None => break <all: true | any: false>,
#                              Some(x) => if <all: !P(x) | any: P(x)> { break <all: false | any: true> } } }
# with the closure body inlined, so that rules written for `for` loops see the same shape (documented std semantics).
ADAPTORS = {'std::iter::Iterator::all': 'all', 'std::iter::Iterator::any': 'any', 'std::iter::Iterator::find': 'find'}
#     it.find(|x| P(x))  ==  loop { match it.next() { None => break None, Some(x) => if P(&x) { break Some(x) } } }


def _closure_of(body, local):
    """path of the closure literal assigned (once) to `local`, or None"""
    hit = []
    for blk in body.blocks:
        if blk['cleanup']:
            continue
        for st in blk['stmts']:
            if st['k'] == 'assign' and st['place']['l'] == local and not st['place']['p']:
                rv = st['rv']
                if rv['k'] == 'agg' and rv.get('agg') == 'closure':
                    hit.append(rv['closure'])
                else:
                    return None
        t = blk['term']
        if t['k'] == 'call' and t['dest']['l'] == local:
            return None
    return hit[0] if len(hit) == 1 else None


def desugar_once(body, bi, cb, kind):
    j = copy.deepcopy(body.j)
    t = j['blocks'][bi]['term']
    span = j['blocks'][bi]['tspan']
    target, dest = t['target'], t['dest']
    a_it, a_clo = t['args'][0], t['args'][1]
    clo_local = (a_clo.get('move') or a_clo.get('copy'))['l']
    env_ty = cb.locals[1]['ty']
    item_ty = cb.locals[2]['ty']

    def new_local(ty, name=None):
        j['locals'].append({'ty': ty, 'name': name, 'mut': True})
        return len(j['locals']) - 1
    itp = a_it.get('move') or a_it.get('copy')
    if itp is not None and not itp['p']:
        it = itp['l']
    else:
        it = new_local(t['func'].get('self_ty') or 'iter')
        j['blocks'][bi]['stmts'].append({'k': 'assign', 'place': {'l': it, 'p': []}, 'rv': {'k': 'use', 'op': a_it}, 'span': span})
    it_ref = new_local('&mut ' + j['locals'][it]['ty'])
    opt = new_local('std::option::Option<%s>' % item_ty)
    disc = new_local('isize')
    item = new_local(item_ty)
    env = new_local(env_ty)
    r = new_local('bool')
    n0 = len(j['blocks'])
    n_next, n_sw, n_call, n_test, n_end, n_short = n0, n0 + 1, n0 + 2, n0 + 3, n0 + 4, n0 + 5

    def blk(stmts, term):
        return {'stmts': stmts, 'term': term, 'tspan': span, 'cleanup': False}

    def assign(l, rv):
        return {'k': 'assign', 'place': {'l': l, 'p': []}, 'rv': rv, 'span': span}

    def cbool(v):
        return {'const': {'ty': 'bool', 'bits': '1' if v else '0', 'val': v, 'dbg': 'true' if v else 'false'}}
    j['blocks'][bi]['term'] = {'k': 'goto', 'target': n_next}
    j['blocks'].append(blk([assign(it_ref, {'k': 'ref', 'mut': True, 'place': {'l': it, 'p': []}})],
                           {'k': 'call', 'func': {'path': 'std::iter::Iterator::next', 'full': 'std::iter::Iterator::next', 'name': 'next', 'trait': 'std::iter::Iterator', 'gargs': []},
                            'args': [{'move': {'l': it_ref, 'p': []}}], 'dest': {'l': opt, 'p': []}, 'target': n_sw, 'unwind': None}))
    j['blocks'].append(blk([assign(disc, {'k': 'discr', 'place': {'l': opt, 'p': []}})],
                           {'k': 'switch', 'discr': {'move': {'l': disc, 'p': []}}, 'targets': [['0', n_end], ['1', n_call]], 'otherwise': n_end}))
    if kind == 'find':
        # the predicate takes the element by reference; the element itself is what find returns
        elem_ty = item_ty[1:].lstrip() if item_ty.startswith('&') else item_ty
        for pre in ("'_ ", 'mut '):
            if elem_ty.startswith(pre):
                elem_ty = elem_ty[len(pre):]
        j['locals'][item]['ty'] = elem_ty
        j['locals'][opt]['ty'] = 'std::option::Option<%s>' % elem_ty
        item_ref = new_local(item_ty)
    some0 = {'l': opt, 'p': [{'down': 1, 'name': 'Some'}, {'f': 0, 'name': '0', 'ty': j['locals'][item]['ty']}]}
    call_stmts = [assign(item, {'k': 'use', 'op': {'move': some0}}),
                  assign(env, {'k': 'ref', 'mut': env_ty.startswith('&mut'), 'place': {'l': clo_local, 'p': []}})]
    arg2 = {'move': {'l': item, 'p': []}}
    if kind == 'find':
        call_stmts.append(assign(item_ref, {'k': 'ref', 'mut': False, 'place': {'l': item, 'p': []}}))
        arg2 = {'move': {'l': item_ref, 'p': []}}
    j['blocks'].append(blk(call_stmts,
                           {'k': 'call', 'func': {'path': cb.path, 'full': cb.path, 'name': 'call', 'gargs': []},
                            'args': [{'move': {'l': env, 'p': []}}, arg2],
                            'dest': {'l': r, 'p': []}, 'target': n_test, 'unwind': None}))
    if kind == 'all':
        sw = {'k': 'switch', 'discr': {'move': {'l': r, 'p': []}}, 'targets': [['0', n_short]], 'otherwise': n_next}
    else:
        sw = {'k': 'switch', 'discr': {'move': {'l': r, 'p': []}}, 'targets': [['0', n_next]], 'otherwise': n_short}
    j['blocks'].append(blk([], sw))
    if kind == 'find':
        def opt_agg(variant, fields):
            return {'k': 'agg', 'agg': 'adt', 'adt': 'std::option::Option', 'variant': 1 if variant == 'Some' else 0,
                    'variant_name': variant, 'field_names': ['0'] if fields else [], 'fields': fields}
        j['blocks'].append(blk([{'k': 'assign', 'place': dest, 'rv': opt_agg('None', []), 'span': span}], {'k': 'goto', 'target': target}))
        j['blocks'].append(blk([{'k': 'assign', 'place': dest, 'rv': opt_agg('Some', [{'move': {'l': item, 'p': []}}]), 'span': span}],
                               {'k': 'goto', 'target': target}))
    else:
        j['blocks'].append(blk([{'k': 'assign', 'place': dest, 'rv': {'k': 'use', 'op': cbool(kind == 'all')}, 'span': span}],
                               {'k': 'goto', 'target': target}))
        j['blocks'].append(blk([{'k': 'assign', 'place': dest, 'rv': {'k': 'use', 'op': cbool(kind != 'all')}, 'span': span}],
                               {'k': 'goto', 'target': target}))
    nb = Body(j, body.crate)
    return inline_once(nb, n_call, cb)


def desugar_fold(body, bi, cb):
    """it.fold(init, |acc, x| F(acc, x))  ==  acc = init; loop { match it.next() { None => break, Some(x) => acc = F(acc, x) } }; acc"""
    j = copy.deepcopy(body.j)
    t = j['blocks'][bi]['term']
    span = j['blocks'][bi]['tspan']
    target, dest = t['target'], t['dest']
    a_it, a_init, a_clo = t['args'][0], t['args'][1], t['args'][2]
    clo_local = (a_clo.get('move') or a_clo.get('copy'))['l']
    env_ty, acc_ty, item_ty = cb.locals[1]['ty'], cb.locals[2]['ty'], cb.locals[3]['ty']

    def new_local(ty, name=None):
        j['locals'].append({'ty': ty, 'name': name, 'mut': True})
        return len(j['locals']) - 1

    def assign(l, rv):
        return {'k': 'assign', 'place': {'l': l, 'p': []}, 'rv': rv, 'span': span}

    def blk(stmts, term):
        return {'stmts': stmts, 'term': term, 'tspan': span, 'cleanup': False}
    itp = a_it.get('move') or a_it.get('copy')
    if itp is not None and not itp['p']:
        it = itp['l']
    else:
        it = new_local(t['func'].get('self_ty') or 'iter')
        j['blocks'][bi]['stmts'].append(assign(it, {'k': 'use', 'op': a_it}))
    acc = new_local(acc_ty)
    j['blocks'][bi]['stmts'].append(assign(acc, {'k': 'use', 'op': a_init}))
    it_ref = new_local('&mut ' + j['locals'][it]['ty'])
    opt = new_local('std::option::Option<%s>' % item_ty)
    disc = new_local('isize')
    item = new_local(item_ty)
    env = new_local(env_ty)
    tmp = new_local(acc_ty)
    n0 = len(j['blocks'])
    n_next, n_sw, n_call, n_back, n_end = n0, n0 + 1, n0 + 2, n0 + 3, n0 + 4
    j['blocks'][bi]['term'] = {'k': 'goto', 'target': n_next}
    j['blocks'].append(blk([assign(it_ref, {'k': 'ref', 'mut': True, 'place': {'l': it, 'p': []}})],
                           {'k': 'call', 'func': {'path': 'std::iter::Iterator::next', 'full': 'std::iter::Iterator::next', 'name': 'next',
                                                  'trait': 'std::iter::Iterator', 'gargs': []},
                            'args': [{'move': {'l': it_ref, 'p': []}}], 'dest': {'l': opt, 'p': []}, 'target': n_sw, 'unwind': None}))
    j['blocks'].append(blk([assign(disc, {'k': 'discr', 'place': {'l': opt, 'p': []}})],
                           {'k': 'switch', 'discr': {'move': {'l': disc, 'p': []}}, 'targets': [['0', n_end], ['1', n_call]], 'otherwise': n_end}))
    some0 = {'l': opt, 'p': [{'down': 1, 'name': 'Some'}, {'f': 0, 'name': '0', 'ty': item_ty}]}
    j['blocks'].append(blk([assign(item, {'k': 'use', 'op': {'move': some0}}),
                            assign(env, {'k': 'ref', 'mut': env_ty.startswith('&mut'), 'place': {'l': clo_local, 'p': []}})],
                           {'k': 'call', 'func': {'path': cb.path, 'full': cb.path, 'name': 'call', 'gargs': []},
                            'args': [{'move': {'l': env, 'p': []}}, {'move': {'l': acc, 'p': []}}, {'move': {'l': item, 'p': []}}],
                            'dest': {'l': tmp, 'p': []}, 'target': n_back, 'unwind': None}))
    j['blocks'].append(blk([assign(acc, {'k': 'use', 'op': {'move': {'l': tmp, 'p': []}}})], {'k': 'goto', 'target': n_next}))
    j['blocks'].append(blk([{'k': 'assign', 'place': dest, 'rv': {'k': 'use', 'op': {'move': {'l': acc, 'p': []}}}, 'span': span}],
                           {'k': 'goto', 'target': target}))
    nb = Body(j, body.crate)
    return inline_once(nb, n_call, cb)


def desugar_adaptors(body, crate, max_rounds=8):
    cur = body
    used = set()
    for _ in range(max_rounds):
        did = False
        for bi, t in list(cur.calls()):
            if t['func'].get('path') == 'std::iter::Iterator::fold' and len(t['args']) == 3 and t['target'] is not None:
                cp = t['args'][2].get('move') or t['args'][2].get('copy')
                path = _closure_of(cur, cp['l']) if cp is not None and not cp['p'] else None
                cb = crate.body(path) if path else None
                if cb is not None and cb.arg_count == 3:
                    cur = desugar_fold(cur, bi, cb)
                    used.add(path)
                    did = True
                    break
                continue
            kind = ADAPTORS.get(t['func'].get('path'))
            if kind is None or len(t['args']) != 2 or t['target'] is None:
                continue
            cp = t['args'][1].get('move') or t['args'][1].get('copy')
            if cp is None or cp['p']:
                continue
            path = _closure_of(cur, cp['l'])
            cb = crate.body(path) if path else None
            if cb is None or cb.arg_count != 2 or cb.j.get('ret_ty', 'bool') not in ('bool',):
                continue
            cur = desugar_once(cur, bi, cb, kind)
            used.add(path)
            did = True
            break
        if not did:
            break
    if used:
        cur.inlined_from = set(getattr(body, 'inlined_from', set())) | used
    return cur


# ---------------------------------------------------------------------------------------------------------------------
# Decision splitting (tail duplication): when the arms of a two-way (or n-way) selection inside a loop only assign
# values (no calls) and re-join, the rest of the iteration is duplicated per arm so that correlated selections (which
# tree grows, which one connects, the flag that says so) stay correlated; switches on values that are constant in a
# copy are folded and dead blocks emptied.  Pure CFG duplication + folding of constant switches: semantics preserving.
def _retarget(term, old, new):
    t = dict(term)
    k = t['k']
    if k == 'goto' and t['target'] == old:
        t['target'] = new
    elif k == 'switch':
        t['targets'] = [[v, (new if b == old else b)] for v, b in t['targets']]
        if t['otherwise'] == old:
            t['otherwise'] = new
    elif k in ('drop', 'assert', 'call'):
        if t.get('target') == old:
            t['target'] = new
    elif k == 'other':
        t['succ'] = [(new if s == old else s) for s in t.get('succ', [])]
    return t


def _remap_term(term, m):
    t = dict(term)
    k = t['k']
    if k == 'goto':
        t['target'] = m.get(t['target'], t['target'])
    elif k == 'switch':
        t['targets'] = [[v, m.get(b, b)] for v, b in t['targets']]
        t['otherwise'] = m.get(t['otherwise'], t['otherwise'])
    elif k in ('drop', 'assert', 'call'):
        if t.get('target') is not None:
            t['target'] = m.get(t['target'], t['target'])
    elif k == 'other':
        t['succ'] = [m.get(s, s) for s in t.get('succ', [])]
    return t


def find_decision_join(fn, skip=frozenset()):
    """(join block, [pred blocks], innermost loop) of the first value-selection join inside a loop, or None"""
    from .engine import Fn  # noqa
    loops = fn.loops()
    if not loops:
        return None
    pred = fn.b.preds()
    reach = fn.reachable(0)
    dom = fn.dominators()
    for J in sorted(reach):
        if J in skip or fn.blocks[J]['cleanup']:
            continue
        inl = [L for L in loops if J in L['body'] and J != L['header']]
        if not inl:
            continue
        L = min(inl, key=lambda l: len(l['body']))
        ps = [p for p in pred[J] if p in reach and p in L['body']]
        if len(ps) < 2 or len(ps) > 4:
            continue
        # every pred arm is a straight line of assignment-only blocks hanging off one switch
        heads = set()
        assigned = []
        ok = True
        for p in ps:
            cur = p
            locs = set()
            n = 0
            while True:
                blk = fn.blocks[cur]
                t = blk['term']
                if t['k'] == 'switch':
                    heads.add(cur)
                    break
                if t['k'] != 'goto' or n > 4:
                    ok = False
                    break
                for st in blk['stmts']:
                    if st['k'] == 'assign':
                        locs.add(st['place']['l'])
                pp = [q for q in pred[cur] if q in reach]
                if len(pp) != 1:
                    ok = False
                    break
                cur = pp[0]
                n += 1
            if not ok:
                break
            assigned.append(locs)
        if not ok or len(heads) != 1:
            continue
        common = set.intersection(*assigned) if assigned else set()
        # something other than unit temporaries is selected
        common = {l for l in common if fn.b.local_ty(l) != '()'}
        if not common:
            continue
        return J, ps, L
    return None


def split_decisions(body, max_splits=2, max_blocks=2500):
    from .engine import Fn
    cur = body
    nsplit = 0
    skip = set()
    for _ in range(max_splits):
        fn = Fn(cur)
        hit = find_decision_join(fn, frozenset(skip))
        if hit is None:
            break
        J, ps, L = hit
        H = L['header']
        # the rest of the iteration and the exit tails that leave the loop from it (e.g. `return Ok(..)` paths), up to the
        # headers of this and of the enclosing loops
        heads = frozenset(l['header'] for l in fn.loops() if J in l['body'])
        region = fn.reachable(J, stop=heads)
        region = {x for x in region if x not in heads and not fn.blocks[x]['cleanup']}
        if len(cur.blocks) + len(region) * (len(ps) - 1) > max_blocks:
            break
        j = copy.deepcopy(cur.j)
        copies = []
        for p in ps[1:]:
            base = len(j['blocks'])
            order = sorted(region)
            m = {x: base + k for k, x in enumerate(order)}
            copies.append(m)
            for x in order:
                nb = copy.deepcopy(j['blocks'][x])
                nb['term'] = _remap_term(nb['term'], m)
                j['blocks'].append(nb)
            # the arm ending in p now continues in its own copy
            j['blocks'][p]['term'] = _retarget(j['blocks'][p]['term'], J, m[J])
        # what the head switch tested, and the value it had on each arm: inside the copy of an arm a later switch on the
        # same (not reassigned) variable takes the same edge
        head = None
        for p0 in ps:
            c0 = p0
            while fn.blocks[c0]['term']['k'] != 'switch':
                c0 = [q for q in fn.b.preds()[c0] if q in fn.reachable(0)][0]
            head = c0
        src = _switch_source(fn, head)
        arm_entry = {}
        if src is not None:
            tm = fn.blocks[head]['term']
            for p0 in ps:
                c0, prev = p0, J
                while c0 != head:
                    prev = c0
                    c0 = [q for q in fn.b.preds()[c0] if q in fn.reachable(0)][0]
                vals = [v for v, tg in tm['targets'] if tg == prev]
                arm_entry[p0] = vals[0] if len(vals) == 1 else ('otherwise' if tm['otherwise'] == prev else None)
        cur = Body(j, body.crate)
        nsplit += 1
        known = []
        if src is not None:
            all_vals = [v for v, _tg in fn.blocks[head]['term']['targets']]
            for k, p0 in enumerate(ps):
                blocks_k = set(region) if k == 0 else {copies[k - 1][x] for x in region}
                known.append((blocks_k, src, arm_entry.get(p0), all_vals))
        cur = fold_constant_switches(cur, known)
        skip.add(J)
    if nsplit:
        cur.inlined_from = set(getattr(body, 'inlined_from', set())) | {'decision-split:%s x%d' % (body.path, nsplit)}
    return cur


def _switch_source(fn, b):
    """(root local, id of its single reaching definition) of the value a switch block tests, following plain copies; None
    when the tested value is not a once-assigned variable"""
    t = fn.blocks[b]['term']
    pl = t['discr'].get('move') or t['discr'].get('copy')
    if pl is None or pl['p']:
        return None
    point = (b, fn.nstmts(b))
    local = pl['l']
    last = None
    for _ in range(6):
        evs, entry = fn.reaching(local, point, (), True, whole_only=True)
        if entry or len(evs) != 1:
            return last
        e = evs[0]
        last = (local, (e.block, e.idx))
        if e.kind == 'assign' and e.data['k'] == 'assign' and e.data['rv']['k'] == 'use' and not e.path:
            src = e.data['rv']['op'].get('move') or e.data['rv']['op'].get('copy')
            if src is None or src['p']:
                return last
            local, point = src['l'], (e.block, e.idx)
            continue
        return last
    return last


def _same_source(fn, b, src):
    """does switch block b test the same variable with the same reaching definition as `src`?"""
    t = fn.blocks[b]['term']
    pl = t['discr'].get('move') or t['discr'].get('copy')
    if pl is None or pl['p']:
        return False
    point = (b, fn.nstmts(b))
    local = pl['l']
    for _ in range(6):
        evs, entry = fn.reaching(local, point, (), True, whole_only=True)
        if entry or len(evs) != 1:
            return False
        e = evs[0]
        if (local, (e.block, e.idx)) == src:
            return True
        if e.kind == 'assign' and e.data['k'] == 'assign' and e.data['rv']['k'] == 'use' and not e.path:
            s2 = e.data['rv']['op'].get('move') or e.data['rv']['op'].get('copy')
            if s2 is None or s2['p']:
                return False
            local, point = s2['l'], (e.block, e.idx)
            continue
        return False
    return False


def fold_constant_switches(body, known=(), rounds=6):
    """fold switches whose tested value is a constant, and (known = [(blocks, source, value, all values)]) switches inside
    the copy of a decision arm that test the variable the decision itself tested"""
    from .engine import Fn
    cur = body
    for _ in range(rounds):
        fn = Fn(cur)
        reach = fn.reachable(0)
        j = None
        for b in sorted(reach):
            blk = cur.blocks[b]
            if blk['cleanup'] or blk['term']['k'] != 'switch':
                continue
            hit = None
            for (blocks_k, src, val, all_vals) in known:
                if b in blocks_k and val is not None and _same_source(fn, b, src):
                    tm = {str(v): tg for v, tg in blk['term']['targets']}
                    if val == 'otherwise':
                        # the decision took its default edge: the value is none of the listed ones
                        if set(tm.keys()) <= set(str(v) for v in all_vals):
                            hit = blk['term']['otherwise']
                    else:
                        hit = tm.get(str(val), blk['term']['otherwise'])
            if hit is not None:
                if j is None:
                    j = copy.deepcopy(cur.j)
                j['blocks'][b]['term'] = {'k': 'goto', 'target': hit}
                continue
            si = fn.switch_info(b)
            if si is None:
                continue
            terms, tmap, other = si
            if len(terms) != 1:
                continue
            n = next(iter(terms))
            val = None
            if n[0] == 'const' and n[1] in ('true', 'false'):
                val = '1' if n[1] == 'true' else '0'
            elif n[0] == 'const' and n[1].lstrip('-').isdigit():
                val = n[1]
            elif n[0] == 'discr' and len(n[1]) == 1:
                a = next(iter(n[1]))
                if a[0] == 'agg':
                    adt = cur.crate.adts.get(a[1])
                    if adt is not None and adt.get('is_enum'):
                        names = [v['name'] for v in adt['variants']]
                        if a[2] in names:
                            val = str(names.index(a[2]))       # fieldless / default discriminants only
                            if any(v.get('discr') is not None for v in adt['variants']):
                                val = None
            elif n[0] == 'call' and n[1] in ('std::cmp::PartialEq::eq', 'std::cmp::PartialEq::ne') and len(n[2]) == 2 and \
                    all(len(a) == 1 for a in n[2]):
                # derived equality of two known field-less enum values
                x, y = next(iter(n[2][0])), next(iter(n[2][1]))
                if x[0] == 'agg' and y[0] == 'agg' and x[1] == y[1] and not x[3] and not y[3]:
                    adt = cur.crate.adts.get(x[1])
                    t_call = fn.blocks[n[3][1]]['term'] if n[3][0] == fn.path else None
                    res = (t_call or {}).get('func', {}).get('resolved', {})
                    rb = cur.crate.body(res.get('path', '')) if res else None
                    if adt is not None and adt.get('is_enum') and rb is not None and rb.j.get('impl_derived'):
                        eq = x[2] == y[2]
                        val = '1' if (eq if n[1].endswith('::eq') else not eq) else '0'
            if val is None:
                continue
            tgt = tmap.get(val, other)
            if j is None:
                j = copy.deepcopy(cur.j)
            j['blocks'][b]['term'] = {'k': 'goto', 'target': tgt}
        if j is None:
            break
        cur = Body(j, body.crate)
    # empty the blocks that became unreachable
    fn = Fn(cur)
    reach = fn.reachable(0)
    dead = [b for b in range(len(cur.blocks)) if b not in reach and not cur.blocks[b]['cleanup'] and
            (cur.blocks[b]['stmts'] or cur.blocks[b]['term']['k'] != 'unreachable')]
    if dead:
        j = copy.deepcopy(cur.j)
        for b in dead:
            j['blocks'][b]['stmts'] = []
            j['blocks'][b]['term'] = {'k': 'unreachable'}
        cur = Body(j, body.crate)
    return cur


# ---------------------------------------------------------------------------------------------------------------------
# Jump threading: a block that does nothing but switch on the discriminant of X, entered from a predecessor that has just
# assigned a known variant to X, is bypassed from that predecessor (the decided edge is taken directly).  Removes the
# infeasible paths a materialised Option/Result introduces (`let r = it.find(..); if let Some(x) = r {..}` after find has
# been written as a loop; `let v = if c {Some(a)} else {None}; match v {..}`).
def thread_jumps(body, rounds=4):
    cur = body
    did_any = False
    for _ in range(rounds):
        j = None
        blocks = cur.blocks
        preds = cur.preds()
        for J, blk in enumerate(blocks):
            if blk['cleanup'] or blk['term']['k'] != 'switch':
                continue
            stmts = [s for s in blk['stmts'] if s['k'] == 'assign']
            if len(stmts) != 1 or stmts[0]['rv']['k'] != 'discr' or stmts[0]['place']['p']:
                continue
            d = blk['term']['discr'].get('move') or blk['term']['discr'].get('copy')
            if d is None or d['p'] or d['l'] != stmts[0]['place']['l']:
                continue
            xp = stmts[0]['rv']['place']
            if xp['p']:
                continue
            X = xp['l']
            tm = {str(v): tg for v, tg in blk['term']['targets']}
            for P in preds.get(J, []):
                pb = blocks[P]
                if pb['cleanup'] or pb['term']['k'] != 'goto' or pb['term']['target'] != J:
                    continue
                last = None
                for s in pb['stmts']:
                    if s['k'] == 'assign' and s['place']['l'] == X:
                        last = s if not s['place']['p'] else None
                if last is None or last['rv']['k'] != 'agg' or last['rv'].get('agg') != 'adt' or 'variant' not in last['rv']:
                    continue
                v = str(last['rv']['variant'])
                tgt = tm.get(v, blk['term']['otherwise'])
                if j is None:
                    j = copy.deepcopy(cur.j)
                j['blocks'][P]['stmts'] = j['blocks'][P]['stmts'] + [copy.deepcopy(stmts[0])]
                j['blocks'][P]['term'] = {'k': 'goto', 'target': tgt}
        if j is None:
            break
        cur = Body(j, body.crate)
        did_any = True
    if did_any:
        cur.inlined_from = set(getattr(body, 'inlined_from', set())) | {'jump-threading:%s' % body.path}
    return cur
