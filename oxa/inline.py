"""MIR-level inlining on the fact representation (A5 with an explicit inlining bound).

inline_calls(body, pick) returns a new Body in which every call terminator accepted by `pick(callee Body)` is replaced
by a renumbered copy of the callee's blocks: arguments are assigned to the callee's parameter locals, the callee's
return place becomes a fresh local that is moved into the call destination, `return` becomes a goto to the call's
target.  Cleanup blocks of the callee are dropped.  Used so that rules written for "the code is in solve" keep working
when a maintainer extracts a pure selector helper (nearest neighbour, steering) out of solve."""
import copy
import json

from .facts import Body


def _map(l, off):
    # `off` is an offset, or a function from callee locals to caller locals
    return off(l) if callable(off) else l + off


def _shift_place(pl, off):
    p = []
    for e in pl['p']:
        if isinstance(e, dict) and 'idx' in e:
            e = dict(e)
            e['idx'] = _map(e['idx'], off)
        p.append(e)
    return {'l': _map(pl['l'], off), 'p': p}


def _shift_op(o, off):
    if 'copy' in o:
        return {'copy': _shift_place(o['copy'], off)}
    if 'move' in o:
        return {'move': _shift_place(o['move'], off)}
    return o


def _shift_rv(rv, off):
    rv = dict(rv)
    k = rv['k']
    if k in ('use', 'cast', 'repeat'):
        rv['op'] = _shift_op(rv['op'], off)
    elif k in ('ref', 'rawptr', 'discr'):
        rv['place'] = _shift_place(rv['place'], off)
    elif k == 'binop':
        rv['a'] = _shift_op(rv['a'], off)
        rv['b'] = _shift_op(rv['b'], off)
    elif k == 'unop':
        rv['a'] = _shift_op(rv['a'], off)
    elif k == 'agg':
        rv['fields'] = [_shift_op(f, off) for f in rv['fields']]
    return rv


def _shift_term(t, loff, boff, ret_local, dest, target):
    t = dict(t)
    k = t['k']
    if k == 'goto':
        t['target'] += boff
    elif k == 'switch':
        t['discr'] = _shift_op(t['discr'], loff)
        t['targets'] = [[v, b + boff] for v, b in t['targets']]
        t['otherwise'] += boff
    elif k == 'drop':
        t['place'] = _shift_place(t['place'], loff)
        t['target'] += boff
        t['unwind'] = None
    elif k == 'assert':
        t['cond'] = _shift_op(t['cond'], loff)
        t['target'] += boff
        t['unwind'] = None
    elif k == 'call':
        f = t['func']
        if 'indirect' in f:
            t['func'] = {'indirect': _shift_op(f['indirect'], loff)}
        t['args'] = [_shift_op(a, loff) for a in t['args']]
        t['dest'] = _shift_place(t['dest'], loff)
        t['target'] = t['target'] + boff if t['target'] is not None else None
        t['unwind'] = None
    elif k == 'return':
        return None
    elif k == 'other':
        t['succ'] = [s + boff for s in t.get('succ', [])]
    return t


def _captures(j, clo_local):
    """capture k of the closure literal assigned to clo_local -> (base place of the captured variable, by_ref)"""
    lit = None
    refs = {}
    for blk in j['blocks']:
        if blk['cleanup']:
            continue
        for st in blk['stmts']:
            if st['k'] != 'assign' or st['place']['p']:
                continue
            if st['rv']['k'] == 'ref':
                refs.setdefault(st['place']['l'], []).append(st['rv']['place'])
            if st['place']['l'] == clo_local and st['rv']['k'] == 'agg' and st['rv'].get('agg') == 'closure':
                lit = st['rv'] if lit is None else False
    if not lit:
        return {}
    out = {}
    for k, f in enumerate(lit['fields']):
        pl = f.get('move') or f.get('copy')
        if pl is None or pl['p']:
            continue
        if len(refs.get(pl['l'], [])) == 1 and all(e == 'deref' or isinstance(e, dict) for e in refs[pl['l']][0]['p']):
            out[k] = (refs[pl['l']][0], True)       # captured by reference: `&[mut] place`
        elif pl['l'] not in refs:
            out[k] = ({'l': pl['l'], 'p': []}, False)    # captured by value
    return out


def _promote_upvars(j, first_block, env_local, caps):
    """inside the inlined closure body (blocks >= first_block) rewrite the captured-variable places `(*(*env).k)` /
    `(*env).k` to the captured variable itself, so that reads and writes through the closure environment are reads and
    writes of the parent's variable"""
    def fix(pl):
        if pl is None or pl['l'] != env_local:
            return pl
        p = list(pl['p'])
        if p and p[0] == 'deref':
            p = p[1:]
        if not p or not isinstance(p[0], dict) or 'f' not in p[0] or p[0]['f'] not in caps:
            return pl
        base, by_ref = caps[p[0]['f']]
        rest = p[1:]
        if by_ref:
            if not rest or rest[0] != 'deref':
                return pl           # the reference itself is used (passed on): leave it
            rest = rest[1:]
        return {'l': base['l'], 'p': list(base['p']) + rest}

    def fix_op(o):
        if 'copy' in o:
            return {'copy': fix(o['copy'])}
        if 'move' in o:
            return {'move': fix(o['move'])}
        return o
    for blk in j['blocks'][first_block:]:
        for st in blk['stmts']:
            if st['k'] != 'assign':
                continue
            st['place'] = fix(st['place'])
            rv = st['rv']
            k = rv['k']
            if k == 'use':
                # `tmp = (*env).k` for a by-reference capture copies the captured reference: it is `&[mut] variable`
                opl = rv['op'].get('copy') or rv['op'].get('move')
                if opl is not None and opl['l'] == env_local:
                    p = list(opl['p'])
                    if p and p[0] == 'deref':
                        p = p[1:]
                    if len(p) == 1 and isinstance(p[0], dict) and p[0].get('f') in caps and caps[p[0]['f']][1]:
                        base = caps[p[0]['f']][0]
                        tmp = st['place']['l']
                        # mutable only if the copied reference is re-borrowed mutably afterwards
                        mut = False
                        for blk2 in j['blocks'][first_block:]:
                            for st2 in blk2['stmts']:
                                if st2['k'] == 'assign' and st2['rv']['k'] in ('ref', 'rawptr') and st2['rv'].get('mut') and \
                                        st2['rv']['place']['l'] == tmp:
                                    mut = True
                        st['rv'] = {'k': 'ref', 'mut': mut, 'place': {'l': base['l'], 'p': list(base['p'])}}
                        continue
            if k in ('use', 'cast', 'repeat'):
                rv['op'] = fix_op(rv['op'])
            elif k in ('ref', 'rawptr', 'discr'):
                rv['place'] = fix(rv['place'])
            elif k == 'binop':
                rv['a'], rv['b'] = fix_op(rv['a']), fix_op(rv['b'])
            elif k == 'unop':
                rv['a'] = fix_op(rv['a'])
            elif k == 'agg':
                rv['fields'] = [fix_op(f) for f in rv['fields']]
        t = blk['term']
        if t['k'] == 'call':
            t['args'] = [fix_op(a) for a in t['args']]
            t['dest'] = fix(t['dest'])
        elif t['k'] == 'switch':
            t['discr'] = fix_op(t['discr'])
        elif t['k'] == 'drop':
            t['place'] = fix(t['place'])
        elif t['k'] == 'assert':
            t['cond'] = fix_op(t['cond'])


def inline_once(body, bi, callee, closure_local=None):
    """inline the call terminating block `bi` of `body` (a Body) with `callee` (a Body); returns new Body.
    closure_local: the local holding the closure literal when `callee` is a closure body called through `&[mut] closure`"""
    j = copy.deepcopy(body.j)
    cj = callee.j
    t = j['blocks'][bi]['term']
    assert t['k'] == 'call'
    loff = len(j['locals'])
    boff = len(j['blocks'])
    # locals
    for l in cj['locals']:
        nl = dict(l)
        if nl.get('name'):
            nl['name'] = nl['name']  # keep user names: useful in messages
        j['locals'].append(nl)
    span = j['blocks'][bi]['tspan']
    # argument passing
    stmts = j['blocks'][bi]['stmts']
    for i, a in enumerate(t['args']):
        stmts.append({'k': 'assign', 'place': {'l': loff + 1 + i, 'p': []}, 'rv': {'k': 'use', 'op': a}, 'span': span})
    target = t['target']
    dest = t['dest']
    j['blocks'][bi]['term'] = {'k': 'goto', 'target': boff}
    # `helper(&mut *self, ..)`: the callee's parameter is the caller's own reference, reborrowed.  `(*param).f` and
    # `(*self).f` are the same place, so the callee's copy names the caller's local directly: a field of the planner
    # written in a `&mut self` helper is, after inlining, a write to `self.f` in the caller.
    alias = _reborrow_aliases(body, j, t, callee)
    off = loff
    if alias:
        lo = loff
        off = (lambda l, a=alias, o=lo: a[l] if l in a else l + o)
    loff_i = loff
    loff = off
    for cb in cj['blocks']:
        nb = {'stmts': [], 'term': None, 'tspan': cb['tspan'], 'cleanup': cb['cleanup']}
        if cb['cleanup']:
            nb['term'] = {'k': 'unreachable'}
            j['blocks'].append(nb)
            continue
        for st in cb['stmts']:
            st2 = dict(st)
            if st['k'] == 'assign':
                st2['place'] = _shift_place(st['place'], loff)
                st2['rv'] = _shift_rv(st['rv'], loff)
            elif st['k'] == 'setdiscr':
                st2['place'] = _shift_place(st['place'], loff)
            nb['stmts'].append(st2)
        nt = _shift_term(cb['term'], loff, boff, loff_i, dest, target)
        if nt is None:   # return
            nb['stmts'].append({'k': 'assign', 'place': dest, 'rv': {'k': 'use', 'op': {'move': {'l': loff_i, 'p': []}}},
                                'span': cb['tspan']})
            nt = {'k': 'goto', 'target': target} if target is not None else {'k': 'unreachable'}
        nb['term'] = nt
        j['blocks'].append(nb)
    if closure_local is not None and callee.kind == 'Closure':
        caps = _captures(j, closure_local)
        if caps:
            _promote_upvars(j, boff, loff_i + 1, caps)
    nbdy = Body(j, body.crate)
    return nbdy


def _whole_defs(j, local):
    out = []
    for blk in j['blocks']:
        if blk['cleanup']:
            continue
        for st in blk['stmts']:
            if st['k'] == 'assign' and st['place']['l'] == local and not st['place']['p']:
                out.append(st)
        tm = blk['term']
        if tm['k'] == 'call' and tm['dest']['l'] == local and not tm['dest']['p']:
            out.append(tm)
    return out


def _reborrow_aliases(body, j, t, callee):
    """{callee parameter local: caller local} for the arguments that are `&mut *R` with R a `&mut` parameter of the caller
    that is never reassigned, where the callee never reassigns (or takes the address of) its own parameter."""
    out = {}
    argc = body.j.get('arg_count') or 0
    for i, a in enumerate(t['args']):
        pl = a.get('move') or a.get('copy')
        if pl is None or pl['p']:
            continue
        ds = _whole_defs(j, pl['l'])
        # (the argument-passing statements appended above are assignments to callee locals, not to pl['l'])
        if len(ds) != 1 or ds[0].get('k') != 'assign':
            continue
        rv = ds[0]['rv']
        if not (rv['k'] == 'ref' and rv.get('mut') and rv['place']['p'] == ['deref']):
            continue
        R = rv['place']['l']
        if not (1 <= R <= argc) or not str(j['locals'][R]['ty']).startswith('&mut ') or _whole_defs(j, R):
            continue
        cp = 1 + i
        cj = callee.j
        if cp > (cj.get('arg_count') or 0) or _whole_defs(cj, cp):
            continue
        addr = False
        for blk in cj['blocks']:
            for st in blk['stmts']:
                if st['k'] == 'assign' and st['rv']['k'] in ('ref', 'rawptr') and st['rv']['place']['l'] == cp and not st['rv']['place']['p']:
                    addr = True
        if addr:
            continue
        out[cp] = R
    return out


def inline_calls(body, pick, crate, max_rounds=24, sub=None, max_blocks=3000):
    """repeatedly inline calls whose callee body is accepted by pick(callee); `sub(callee)` may substitute an already
    processed version of the callee.  Bounded: at most max_rounds inlinings and max_blocks blocks per body.
    The returned Body carries `inlined_from` (set of callee paths) when anything was inlined."""
    cur = body
    used = set()
    for _ in range(max_rounds):
        did = False
        for bi, t in list(cur.calls()):
            p = t['func'].get('path')
            cb = crate.body(p) if p else None
            if cb is None or cb.path == body.path or cb.in_test_mod() or not pick(cb):
                continue
            if t['target'] is None:
                continue
            cb2 = sub(cb) if sub else cb
            if len(cur.blocks) + len(cb2.blocks) > max_blocks:
                continue
            cur = inline_once(cur, bi, cb2)
            used.add(cb.path)
            used |= getattr(cb2, 'inlined_from', set())
            did = True
            break
        if not did:
            break
    if used:
        cur.inlined_from = used
    return cur


# ---------------------------------------------------------------------------------------------------------------------
# Desugaring of the short-circuiting iterator adaptors  it.all(|x| P(x))  /  it.any(|x| P(x))  into the loop they denote
#     loop { match it.next() { None => break <all: true | any: false>,
#                              Some(x) => if <all: !P(x) | any: P(x)> { break <all: false | any: true> } } }
# with the closure body inlined, so that rules written for `for` loops see the same shape (documented std semantics).
ADAPTORS = {'std::iter::Iterator::all': 'all', 'std::iter::Iterator::any': 'any', 'std::iter::Iterator::find': 'find'}
#     it.find(|x| P(x))  ==  loop { match it.next() { None => break None, Some(x) => if P(&x) { break Some(x) } } }


def _closure_of(body, local):
    """path of the closure literal assigned (once) to `local`, or None"""
    hit = []
    for blk in body.blocks:
        if blk['cleanup']:
            continue
        for st in blk['stmts']:
            if st['k'] == 'assign' and st['place']['l'] == local and not st['place']['p']:
                rv = st['rv']
                if rv['k'] == 'agg' and rv.get('agg') == 'closure':
                    hit.append(rv['closure'])
                else:
                    return None
        t = blk['term']
        if t['k'] == 'call' and t['dest']['l'] == local:
            return None
    return hit[0] if len(hit) == 1 else None


def _closure_root(body, local):
    """(path, local holding the literal) of the closure that `local` holds, following plain moves of a once-assigned
    closure value (`let f = |..| ..; helper(f)` after the helper has been inlined: param = move f)"""
    for _ in range(4):
        p = _closure_of(body, local)
        if p is not None:
            return p, local
        defs = []
        for blk in body.blocks:
            if blk['cleanup']:
                continue
            for st in blk['stmts']:
                if st['k'] == 'assign' and st['place']['l'] == local and not st['place']['p']:
                    defs.append(st)
            t = blk['term']
            if t['k'] == 'call' and t['dest']['l'] == local:
                return None, None
        if len(defs) != 1 or defs[0]['rv']['k'] != 'use':
            return None, None
        src = defs[0]['rv']['op'].get('move') or defs[0]['rv']['op'].get('copy')      # a closure that only captures references is Copy
        if src is None or src['p']:
            return None, None
        local = src['l']
    return None, None


def desugar_once(body, bi, cb, kind):
    j = copy.deepcopy(body.j)
    t = j['blocks'][bi]['term']
    span = j['blocks'][bi]['tspan']
    target, dest = t['target'], t['dest']
    a_it, a_clo = t['args'][0], t['args'][1]
    clo_local = (a_clo.get('move') or a_clo.get('copy'))['l']
    env_ty = cb.locals[1]['ty']
    item_ty = cb.locals[2]['ty']

    def new_local(ty, name=None):
        j['locals'].append({'ty': ty, 'name': name, 'mut': True})
        return len(j['locals']) - 1
    itp = a_it.get('move') or a_it.get('copy')
    if itp is not None and not itp['p']:
        it = itp['l']
    else:
        it = new_local(t['func'].get('self_ty') or 'iter')
        j['blocks'][bi]['stmts'].append({'k': 'assign', 'place': {'l': it, 'p': []}, 'rv': {'k': 'use', 'op': a_it}, 'span': span})
    it_ref = new_local('&mut ' + j['locals'][it]['ty'])
    opt = new_local('std::option::Option<%s>' % item_ty)
    disc = new_local('isize')
    item = new_local(item_ty)
    env = new_local(env_ty)
    r = new_local('bool')
    n0 = len(j['blocks'])
    n_next, n_sw, n_call, n_test, n_end, n_short = n0, n0 + 1, n0 + 2, n0 + 3, n0 + 4, n0 + 5

    def blk(stmts, term):
        return {'stmts': stmts, 'term': term, 'tspan': span, 'cleanup': False}

    def assign(l, rv):
        return {'k': 'assign', 'place': {'l': l, 'p': []}, 'rv': rv, 'span': span}

    def cbool(v):
        return {'const': {'ty': 'bool', 'bits': '1' if v else '0', 'val': v, 'dbg': 'true' if v else 'false'}}
    j['blocks'][bi]['term'] = {'k': 'goto', 'target': n_next}
    j['blocks'].append(blk([assign(it_ref, {'k': 'ref', 'mut': True, 'place': {'l': it, 'p': []}})],
                           {'k': 'call', 'func': {'path': 'std::iter::Iterator::next', 'full': 'std::iter::Iterator::next', 'name': 'next', 'trait': 'std::iter::Iterator', 'gargs': []},
                            'args': [{'move': {'l': it_ref, 'p': []}}], 'dest': {'l': opt, 'p': []}, 'target': n_sw, 'unwind': None}))
    j['blocks'].append(blk([assign(disc, {'k': 'discr', 'place': {'l': opt, 'p': []}})],
                           {'k': 'switch', 'discr': {'move': {'l': disc, 'p': []}}, 'targets': [['0', n_end], ['1', n_call]], 'otherwise': n_end}))
    if kind == 'find':
        # the predicate takes the element by reference; the element itself is what find returns
        elem_ty = item_ty[1:].lstrip() if item_ty.startswith('&') else item_ty
        for pre in ("'_ ", 'mut '):
            if elem_ty.startswith(pre):
                elem_ty = elem_ty[len(pre):]
        j['locals'][item]['ty'] = elem_ty
        j['locals'][opt]['ty'] = 'std::option::Option<%s>' % elem_ty
        item_ref = new_local(item_ty)
    some0 = {'l': opt, 'p': [{'down': 1, 'name': 'Some'}, {'f': 0, 'name': '0', 'ty': j['locals'][item]['ty']}]}
    call_stmts = [assign(item, {'k': 'use', 'op': {'move': some0}}),
                  assign(env, {'k': 'ref', 'mut': env_ty.startswith('&mut'), 'place': {'l': clo_local, 'p': []}})]
    arg2 = {'move': {'l': item, 'p': []}}
    if kind == 'find':
        call_stmts.append(assign(item_ref, {'k': 'ref', 'mut': False, 'place': {'l': item, 'p': []}}))
        arg2 = {'move': {'l': item_ref, 'p': []}}
    j['blocks'].append(blk(call_stmts,
                           {'k': 'call', 'func': {'path': cb.path, 'full': cb.path, 'name': 'call', 'gargs': []},
                            'args': [{'move': {'l': env, 'p': []}}, arg2],
                            'dest': {'l': r, 'p': []}, 'target': n_test, 'unwind': None}))
    if kind == 'all':
        sw = {'k': 'switch', 'discr': {'move': {'l': r, 'p': []}}, 'targets': [['0', n_short]], 'otherwise': n_next}
    else:
        sw = {'k': 'switch', 'discr': {'move': {'l': r, 'p': []}}, 'targets': [['0', n_next]], 'otherwise': n_short}
    j['blocks'].append(blk([], sw))
    if kind == 'find':
        def opt_agg(variant, fields):
            return {'k': 'agg', 'agg': 'adt', 'adt': 'std::option::Option', 'variant': 1 if variant == 'Some' else 0,
                    'variant_name': variant, 'field_names': ['0'] if fields else [], 'fields': fields}
        j['blocks'].append(blk([{'k': 'assign', 'place': dest, 'rv': opt_agg('None', []), 'span': span}], {'k': 'goto', 'target': target}))
        j['blocks'].append(blk([{'k': 'assign', 'place': dest, 'rv': opt_agg('Some', [{'move': {'l': item, 'p': []}}]), 'span': span}],
                               {'k': 'goto', 'target': target}))
    else:
        j['blocks'].append(blk([{'k': 'assign', 'place': dest, 'rv': {'k': 'use', 'op': cbool(kind == 'all')}, 'span': span}],
                               {'k': 'goto', 'target': target}))
        j['blocks'].append(blk([{'k': 'assign', 'place': dest, 'rv': {'k': 'use', 'op': cbool(kind != 'all')}, 'span': span}],
                               {'k': 'goto', 'target': target}))
    nb = Body(j, body.crate)
    return inline_once(nb, n_call, cb, closure_local=clo_local)


def desugar_fold(body, bi, cb):
    """it.fold(init, |acc, x| F(acc, x))  ==  acc = init; loop { match it.next() { None => break, Some(x) => acc = F(acc, x) } }; acc"""
    j = copy.deepcopy(body.j)
    t = j['blocks'][bi]['term']
    span = j['blocks'][bi]['tspan']
    target, dest = t['target'], t['dest']
    a_it, a_init, a_clo = t['args'][0], t['args'][1], t['args'][2]
    clo_local = (a_clo.get('move') or a_clo.get('copy'))['l']
    env_ty, acc_ty, item_ty = cb.locals[1]['ty'], cb.locals[2]['ty'], cb.locals[3]['ty']

    def new_local(ty, name=None):
        j['locals'].append({'ty': ty, 'name': name, 'mut': True})
        return len(j['locals']) - 1

    def assign(l, rv):
        return {'k': 'assign', 'place': {'l': l, 'p': []}, 'rv': rv, 'span': span}

    def blk(stmts, term):
        return {'stmts': stmts, 'term': term, 'tspan': span, 'cleanup': False}
    itp = a_it.get('move') or a_it.get('copy')
    if itp is not None and not itp['p']:
        it = itp['l']
    else:
        it = new_local(t['func'].get('self_ty') or 'iter')
        j['blocks'][bi]['stmts'].append(assign(it, {'k': 'use', 'op': a_it}))
    acc = new_local(acc_ty)
    j['blocks'][bi]['stmts'].append(assign(acc, {'k': 'use', 'op': a_init}))
    it_ref = new_local('&mut ' + j['locals'][it]['ty'])
    opt = new_local('std::option::Option<%s>' % item_ty)
    disc = new_local('isize')
    item = new_local(item_ty)
    env = new_local(env_ty)
    tmp = new_local(acc_ty)
    n0 = len(j['blocks'])
    n_next, n_sw, n_call, n_back, n_end = n0, n0 + 1, n0 + 2, n0 + 3, n0 + 4
    j['blocks'][bi]['term'] = {'k': 'goto', 'target': n_next}
    j['blocks'].append(blk([assign(it_ref, {'k': 'ref', 'mut': True, 'place': {'l': it, 'p': []}})],
                           {'k': 'call', 'func': {'path': 'std::iter::Iterator::next', 'full': 'std::iter::Iterator::next', 'name': 'next',
                                                  'trait': 'std::iter::Iterator', 'gargs': []},
                            'args': [{'move': {'l': it_ref, 'p': []}}], 'dest': {'l': opt, 'p': []}, 'target': n_sw, 'unwind': None}))
    j['blocks'].append(blk([assign(disc, {'k': 'discr', 'place': {'l': opt, 'p': []}})],
                           {'k': 'switch', 'discr': {'move': {'l': disc, 'p': []}}, 'targets': [['0', n_end], ['1', n_call]], 'otherwise': n_end}))
    some0 = {'l': opt, 'p': [{'down': 1, 'name': 'Some'}, {'f': 0, 'name': '0', 'ty': item_ty}]}
    j['blocks'].append(blk([assign(item, {'k': 'use', 'op': {'move': some0}}),
                            assign(env, {'k': 'ref', 'mut': env_ty.startswith('&mut'), 'place': {'l': clo_local, 'p': []}})],
                           {'k': 'call', 'func': {'path': cb.path, 'full': cb.path, 'name': 'call', 'gargs': []},
                            'args': [{'move': {'l': env, 'p': []}}, {'move': {'l': acc, 'p': []}}, {'move': {'l': item, 'p': []}}],
                            'dest': {'l': tmp, 'p': []}, 'target': n_back, 'unwind': None}))
    j['blocks'].append(blk([assign(acc, {'k': 'use', 'op': {'move': {'l': tmp, 'p': []}}})], {'k': 'goto', 'target': n_next}))
    j['blocks'].append(blk([{'k': 'assign', 'place': dest, 'rv': {'k': 'use', 'op': {'move': {'l': acc, 'p': []}}}, 'span': span}],
                           {'k': 'goto', 'target': target}))
    nb = Body(j, body.crate)
    return inline_once(nb, n_call, cb, closure_local=clo_local)


FN_CALLS = ('std::ops::Fn::call', 'std::ops::FnMut::call_mut', 'std::ops::FnOnce::call_once')


def inline_closure_call(body, bi, crate):
    """`f(a, b)` on a local closure `f` (MIR: Fn::call(&f, (a, b))): the closure body is inlined with the tuple untupled"""
    t = body.blocks[bi]['term']
    a0 = t['args'][0].get('move') or t['args'][0].get('copy')
    if a0 is None or a0['p']:
        return None
    # the callee: the closure local itself or a reference to it taken in this block
    clo_local = a0['l']
    by_ref = False
    cur_l = a0['l']
    for _ in range(5):
        # follow `&f`, re-borrows `&(*r)` and plain moves of the reference back to the local holding the closure
        refdefs = [st for blk in body.blocks if not blk['cleanup'] for st in blk['stmts']
                   if st['k'] == 'assign' and st['place']['l'] == cur_l and not st['place']['p']]
        if len(refdefs) != 1:
            break
        rv = refdefs[0]['rv']
        if rv['k'] == 'ref' and not rv['place']['p']:
            clo_local = rv['place']['l']
            by_ref = True
            break
        if rv['k'] == 'ref' and rv['place']['p'] == ['deref']:
            cur_l = rv['place']['l']
            continue
        if rv['k'] == 'use' and by_ref is False:
            src = rv['op'].get('move') or rv['op'].get('copy')
            if src is not None and not src['p'] and body.local_ty(src['l']).startswith('&'):
                cur_l = src['l']
                continue
        break
    path, root = _closure_root(body, clo_local)
    cb = crate.body(path) if path else None
    if cb is None:
        return None
    # the argument tuple
    a1 = t['args'][1].get('move') or t['args'][1].get('copy') if len(t['args']) > 1 else None
    fields = None
    if a1 is not None and not a1['p']:
        for blk in body.blocks:
            for st in blk['stmts']:
                if st['k'] == 'assign' and st['place']['l'] == a1['l'] and not st['place']['p'] and st['rv']['k'] == 'agg' and st['rv'].get('agg') == 'tuple':
                    fields = st['rv']['fields'] if fields is None else False
    elif len(t['args']) > 1 and 'const' in t['args'][1]:
        fields = []
    if fields is None or fields is False or len(fields) != cb.arg_count - 1:
        return None
    j = copy.deepcopy(body.j)
    env_ty = cb.locals[1]['ty']
    tt = j['blocks'][bi]['term']
    if env_ty.startswith('&') and not by_ref:
        # closure passed by value where the body expects a reference: take one
        j['locals'].append({'ty': env_ty, 'name': None, 'mut': True})
        env = len(j['locals']) - 1
        j['blocks'][bi]['stmts'].append({'k': 'assign', 'place': {'l': env, 'p': []},
                                         'rv': {'k': 'ref', 'mut': env_ty.startswith('&mut'), 'place': {'l': clo_local, 'p': []}},
                                         'span': j['blocks'][bi]['tspan']})
        arg0 = {'move': {'l': env, 'p': []}}
    else:
        arg0 = tt['args'][0]
    tt['args'] = [arg0] + [copy.deepcopy(f) for f in fields]
    tt['func'] = {'path': cb.path, 'full': cb.path, 'name': 'call', 'gargs': []}
    nb = Body(j, body.crate)
    return inline_once(nb, bi, cb, closure_local=root), path


MAPS = {'std::result::Result::<T, E>::map': ('std::result::Result', 'Ok', 0, 'Err', 1),
        'std::option::Option::<T>::map': ('std::option::Option', 'Some', 1, 'None', 0)}


TRY_BRANCH = 'std::ops::Try::branch'


def desugar_try_branch(body, bi):
    """`match Try::branch(x) { Continue(v) => .., Break(r) => return from_residual(r) }` on a Result / Option x:
    branch(x) is written out as  match x { Ok(v) => Continue(v), Err(e) => Break(Err(e)) }  so that a literal Err / Ok
    assigned to x upstream decides the arm (jump threading, literal-merge splitting)"""
    t = body.blocks[bi]['term']
    xp = t['args'][0].get('move') or t['args'][0].get('copy')
    if xp is None or xp['p'] or t['dest']['p'] or t['target'] is None:
        return None
    xty = body.local_ty(xp['l'])
    if xty.startswith('std::result::Result<'):
        adt, keep, keep_idx, other, other_idx = 'std::result::Result', 'Ok', 0, 'Err', 1
    elif xty.startswith('std::option::Option<'):
        adt, keep, keep_idx, other, other_idx = 'std::option::Option', 'Some', 1, 'None', 0
    else:
        return None
    j = copy.deepcopy(body.j)
    span = j['blocks'][bi]['tspan']
    x, dest, target = xp['l'], t['dest'], t['target']

    def new_local(ty):
        j['locals'].append({'ty': ty, 'name': None, 'mut': True})
        return len(j['locals']) - 1

    def blk(stmts, term):
        j['blocks'].append({'stmts': stmts, 'term': term, 'tspan': span, 'cleanup': False})
        return len(j['blocks']) - 1
    d = new_local('isize')
    v = new_local('unknown')
    r = new_local(xty)
    CF = 'std::ops::ControlFlow'
    j['blocks'][bi]['stmts'].append({'k': 'assign', 'place': {'l': d, 'p': []}, 'rv': {'k': 'discr', 'place': {'l': x, 'p': []}}, 'span': span})
    n0 = len(j['blocks'])
    j['blocks'][bi]['term'] = {'k': 'switch', 'discr': {'move': {'l': d, 'p': []}}, 'targets': [[str(keep_idx), n0], [str(other_idx), n0 + 1]], 'otherwise': n0 + 1}
    blk([{'k': 'assign', 'place': {'l': v, 'p': []}, 'rv': {'k': 'use', 'op': {'move': {'l': x, 'p': [{'down': keep_idx, 'name': keep}, {'f': 0, 'name': '0', 'ty': 'unknown'}]}}}, 'span': span},
         {'k': 'assign', 'place': dest, 'rv': {'k': 'agg', 'agg': 'adt', 'adt': CF, 'variant': 0, 'variant_name': 'Continue', 'field_names': ['0'],
                                              'fields': [{'move': {'l': v, 'p': []}}]}, 'span': span}],
        {'k': 'goto', 'target': target})
    if other == 'None':
        res_rv = {'k': 'agg', 'agg': 'adt', 'adt': adt, 'variant': other_idx, 'variant_name': other, 'field_names': [], 'fields': []}
        pre = []
    else:
        e = new_local('unknown')
        pre = [{'k': 'assign', 'place': {'l': e, 'p': []}, 'rv': {'k': 'use', 'op': {'move': {'l': x, 'p': [{'down': other_idx, 'name': other}, {'f': 0, 'name': '0', 'ty': 'unknown'}]}}}, 'span': span}]
        res_rv = {'k': 'agg', 'agg': 'adt', 'adt': adt, 'variant': other_idx, 'variant_name': other, 'field_names': ['0'], 'fields': [{'move': {'l': e, 'p': []}}]}
    blk(pre + [{'k': 'assign', 'place': {'l': r, 'p': []}, 'rv': res_rv, 'span': span},
               {'k': 'assign', 'place': dest, 'rv': {'k': 'agg', 'agg': 'adt', 'adt': CF, 'variant': 1, 'variant_name': 'Break', 'field_names': ['0'],
                                                    'fields': [{'move': {'l': r, 'p': []}}]}, 'span': span}],
        {'k': 'goto', 'target': target})
    return Body(j, body.crate)


BOOL_THEN = ('core::bool::<impl bool>::then', 'std::bool::<impl bool>::then')


def desugar_then(body, bi, cb):
    """c.then(|| F())  ==  if c { Some(F()) } else { None }"""
    j = copy.deepcopy(body.j)
    t = j['blocks'][bi]['term']
    span = j['blocks'][bi]['tspan']
    target, dest = t['target'], t['dest']
    a_c, a_clo = t['args'][0], t['args'][1]
    clo_local = (a_clo.get('move') or a_clo.get('copy'))['l']
    env_ty = cb.locals[1]['ty']

    def new_local(ty):
        j['locals'].append({'ty': ty, 'name': None, 'mut': True})
        return len(j['locals']) - 1

    def blk(stmts, term):
        j['blocks'].append({'stmts': stmts, 'term': term, 'tspan': span, 'cleanup': False})
        return len(j['blocks']) - 1
    cp = a_c.get('move') or a_c.get('copy')
    if cp is not None and not cp['p']:
        c = cp['l']
    else:
        c = new_local('bool')
        j['blocks'][bi]['stmts'].append({'k': 'assign', 'place': {'l': c, 'p': []}, 'rv': {'k': 'use', 'op': a_c}, 'span': span})
    env = new_local(env_ty)
    r = new_local(cb.j.get('ret_ty') or 'unknown')
    n0 = len(j['blocks'])
    n_call, n_wrap, n_none = n0, n0 + 1, n0 + 2
    j['blocks'][bi]['term'] = {'k': 'switch', 'discr': {'move': {'l': c, 'p': []}}, 'targets': [['0', n_none]], 'otherwise': n_call}
    if env_ty.startswith('&'):
        env_rv = {'k': 'ref', 'mut': env_ty.startswith('&mut'), 'place': {'l': clo_local, 'p': []}}
    else:
        env_rv = {'k': 'use', 'op': {'move': {'l': clo_local, 'p': []}}}
    blk([{'k': 'assign', 'place': {'l': env, 'p': []}, 'rv': env_rv, 'span': span}],
        {'k': 'call', 'func': {'path': cb.path, 'full': cb.path, 'name': 'call', 'gargs': []},
         'args': [{'move': {'l': env, 'p': []}}], 'dest': {'l': r, 'p': []}, 'target': n_wrap, 'unwind': None})
    OPT = 'std::option::Option'
    blk([{'k': 'assign', 'place': dest, 'rv': {'k': 'agg', 'agg': 'adt', 'adt': OPT, 'variant': 1, 'variant_name': 'Some', 'field_names': ['0'],
                                              'fields': [{'move': {'l': r, 'p': []}}]}, 'span': span}], {'k': 'goto', 'target': target})
    blk([{'k': 'assign', 'place': dest, 'rv': {'k': 'agg', 'agg': 'adt', 'adt': OPT, 'variant': 0, 'variant_name': 'None', 'field_names': [], 'fields': []},
          'span': span}], {'k': 'goto', 'target': target})
    nb = Body(j, body.crate)
    return inline_once(nb, n_call, cb, closure_local=clo_local)


BOOL_THEN_SOME = ('core::bool::<impl bool>::then_some', 'std::bool::<impl bool>::then_some')


def desugar_then_some(body, bi):
    """c.then_some(v)  ==  if c { Some(v) } else { None }   (v is already evaluated)"""
    j = copy.deepcopy(body.j)
    t = j['blocks'][bi]['term']
    span = j['blocks'][bi]['tspan']
    target, dest = t['target'], t['dest']
    a_c, a_v = t['args'][0], t['args'][1]
    cp = a_c.get('move') or a_c.get('copy')
    if cp is not None and not cp['p']:
        c = cp['l']
    else:
        j['locals'].append({'ty': 'bool', 'name': None, 'mut': True})
        c = len(j['locals']) - 1
        j['blocks'][bi]['stmts'].append({'k': 'assign', 'place': {'l': c, 'p': []}, 'rv': {'k': 'use', 'op': a_c}, 'span': span})
    n0 = len(j['blocks'])
    OPT = 'std::option::Option'
    j['blocks'][bi]['term'] = {'k': 'switch', 'discr': {'move': {'l': c, 'p': []}}, 'targets': [['0', n0 + 1]], 'otherwise': n0}
    j['blocks'].append({'stmts': [{'k': 'assign', 'place': dest, 'rv': {'k': 'agg', 'agg': 'adt', 'adt': OPT, 'variant': 1, 'variant_name': 'Some',
                                                                         'field_names': ['0'], 'fields': [a_v]}, 'span': span}],
                        'term': {'k': 'goto', 'target': target}, 'tspan': span, 'cleanup': False})
    j['blocks'].append({'stmts': [{'k': 'assign', 'place': dest, 'rv': {'k': 'agg', 'agg': 'adt', 'adt': OPT, 'variant': 0, 'variant_name': 'None',
                                                                         'field_names': [], 'fields': []}, 'span': span}],
                        'term': {'k': 'goto', 'target': target}, 'tspan': span, 'cleanup': False})
    return Body(j, body.crate)


MAP_ORS = {'std::result::Result::<T, E>::map_or': ('std::result::Result', 'Ok', 0, 'Err', 1),
           'std::option::Option::<T>::map_or': ('std::option::Option', 'Some', 1, 'None', 0)}


def desugar_map(body, bi, cb, spec, default=False):
    """x.map(|v| F(v))  ==  match x { Ok(v) => Ok(F(v)), Err(e) => Err(e) }   (Option alike);
    with default=True:  x.map_or(d, |v| F(v))  ==  match x { Ok(v) => F(v), _ => d }  (d is already evaluated)"""
    adt, keep, keep_idx, other, other_idx = spec
    j = copy.deepcopy(body.j)
    t = j['blocks'][bi]['term']
    span = j['blocks'][bi]['tspan']
    target, dest = t['target'], t['dest']
    a_x, a_clo = t['args'][0], t['args'][2 if default else 1]
    a_def = t['args'][1] if default else None
    clo_local = (a_clo.get('move') or a_clo.get('copy'))['l']
    env_ty, v_ty = cb.locals[1]['ty'], cb.locals[2]['ty']

    def new_local(ty):
        j['locals'].append({'ty': ty, 'name': None, 'mut': True})
        return len(j['locals']) - 1

    def assign(l, rv):
        return {'k': 'assign', 'place': {'l': l, 'p': []}, 'rv': rv, 'span': span}

    def blk(stmts, term):
        j['blocks'].append({'stmts': stmts, 'term': term, 'tspan': span, 'cleanup': False})
        return len(j['blocks']) - 1
    xp = a_x.get('move') or a_x.get('copy')
    if xp is not None and not xp['p']:
        x = xp['l']
    else:
        x = new_local(adt)
        j['blocks'][bi]['stmts'].append(assign(x, {'k': 'use', 'op': a_x}))
    d = new_local('isize')
    v = new_local(v_ty)
    env = new_local(env_ty)
    r = new_local(cb.j.get('ret_ty') or 'unknown')
    j['blocks'][bi]['stmts'].append(assign(d, {'k': 'discr', 'place': {'l': x, 'p': []}}))
    n0 = len(j['blocks'])
    n_keep, n_wrap, n_other = n0, n0 + 1, n0 + 2
    j['blocks'][bi]['term'] = {'k': 'switch', 'discr': {'move': {'l': d, 'p': []}}, 'targets': [[str(keep_idx), n_keep], [str(other_idx), n_other]], 'otherwise': n_other}
    payload = {'l': x, 'p': [{'down': keep_idx, 'name': keep}, {'f': 0, 'name': '0', 'ty': v_ty}]}
    if env_ty.startswith('&'):
        env_rv = {'k': 'ref', 'mut': env_ty.startswith('&mut'), 'place': {'l': clo_local, 'p': []}}
    else:
        env_rv = {'k': 'use', 'op': {'move': {'l': clo_local, 'p': []}}}
    blk([assign(v, {'k': 'use', 'op': {'move': payload}}), assign(env, env_rv)],
        {'k': 'call', 'func': {'path': cb.path, 'full': cb.path, 'name': 'call', 'gargs': []},
         'args': [{'move': {'l': env, 'p': []}}, {'move': {'l': v, 'p': []}}], 'dest': {'l': r, 'p': []}, 'target': n_wrap, 'unwind': None})
    if default:
        blk([{'k': 'assign', 'place': dest, 'rv': {'k': 'use', 'op': {'move': {'l': r, 'p': []}}}, 'span': span}], {'k': 'goto', 'target': target})
        blk([{'k': 'assign', 'place': dest, 'rv': {'k': 'use', 'op': a_def}, 'span': span}], {'k': 'goto', 'target': target})
        nb = Body(j, body.crate)
        return inline_once(nb, n_keep, cb, closure_local=clo_local if env_ty.startswith('&') else None)
    blk([{'k': 'assign', 'place': dest, 'rv': {'k': 'agg', 'agg': 'adt', 'adt': adt, 'variant': keep_idx, 'variant_name': keep,
                                              'field_names': ['0'], 'fields': [{'move': {'l': r, 'p': []}}]}, 'span': span}],
        {'k': 'goto', 'target': target})
    if other == 'None':
        other_rv = {'k': 'agg', 'agg': 'adt', 'adt': adt, 'variant': other_idx, 'variant_name': other, 'field_names': [], 'fields': []}
        blk([{'k': 'assign', 'place': dest, 'rv': other_rv, 'span': span}], {'k': 'goto', 'target': target})
    else:
        e = new_local('unknown')
        ep = {'l': x, 'p': [{'down': other_idx, 'name': other}, {'f': 0, 'name': '0', 'ty': 'unknown'}]}
        other_rv = {'k': 'agg', 'agg': 'adt', 'adt': adt, 'variant': other_idx, 'variant_name': other, 'field_names': ['0'],
                    'fields': [{'move': {'l': e, 'p': []}}]}
        blk([assign(e, {'k': 'use', 'op': {'move': ep}}), {'k': 'assign', 'place': dest, 'rv': other_rv, 'span': span}],
            {'k': 'goto', 'target': target})
    nb = Body(j, body.crate)
    return inline_once(nb, n_keep, cb, closure_local=clo_local if env_ty.startswith('&') else None)


def desugar_adaptors(body, crate, max_rounds=16):
    cur = body
    used = set()
    for _ in range(max_rounds):
        did = False
        for bi, t in list(cur.calls()):
            if t['func'].get('path') == 'std::iter::Iterator::fold' and len(t['args']) == 3 and t['target'] is not None:
                cp = t['args'][2].get('move') or t['args'][2].get('copy')
                path = _closure_of(cur, cp['l']) if cp is not None and not cp['p'] else None
                cb = crate.body(path) if path else None
                if cb is not None and cb.arg_count == 3:
                    cur = desugar_fold(cur, bi, cb)
                    used.add(path)
                    did = True
                    break
                continue
            if t['func'].get('path') in FN_CALLS and t['target'] is not None and len(t['args']) == 2:
                res = inline_closure_call(cur, bi, crate)
                if res is not None:
                    cur, cpath = res
                    used.add(cpath)
                    did = True
                    break
                continue
            if t['func'].get('path') in MAPS and len(t['args']) == 2 and t['target'] is not None:
                cp = t['args'][1].get('move') or t['args'][1].get('copy')
                path = _closure_of(cur, cp['l']) if cp is not None and not cp['p'] else None
                cb = crate.body(path) if path else None
                if cb is not None and cb.arg_count == 2:
                    cur = desugar_map(cur, bi, cb, MAPS[t['func']['path']])
                    used.add(path)
                    did = True
                    break
                continue
            if t['func'].get('path') in BOOL_THEN_SOME and len(t['args']) == 2 and t['target'] is not None:
                cur = desugar_then_some(cur, bi)
                used.add('then_some@%s' % body.path)
                did = True
                break
            if t['func'].get('path') in BOOL_THEN and len(t['args']) == 2 and t['target'] is not None:
                cp = t['args'][1].get('move') or t['args'][1].get('copy')
                path = _closure_of(cur, cp['l']) if cp is not None and not cp['p'] else None
                cb = crate.body(path) if path else None
                if cb is not None and cb.arg_count == 1:
                    cur = desugar_then(cur, bi, cb)
                    used.add(path)
                    did = True
                    break
                continue
            if t['func'].get('path') in MAP_ORS and len(t['args']) == 3 and t['target'] is not None:
                cp = t['args'][2].get('move') or t['args'][2].get('copy')
                path = _closure_of(cur, cp['l']) if cp is not None and not cp['p'] else None
                cb = crate.body(path) if path else None
                if cb is not None and cb.arg_count == 2:
                    cur = desugar_map(cur, bi, cb, MAP_ORS[t['func']['path']], default=True)
                    used.add(path)
                    did = True
                    break
                continue
            kind = ADAPTORS.get(t['func'].get('path'))
            if kind is None or len(t['args']) != 2 or t['target'] is None:
                continue
            cp = t['args'][1].get('move') or t['args'][1].get('copy')
            if cp is None or cp['p']:
                continue
            path = _closure_of(cur, cp['l']) or _closure_root(cur, cp['l'])[0]      # `let p = |x| ..; it.any(p)`: a named predicate
            cb = crate.body(path) if path else None
            if cb is None or cb.arg_count != 2 or cb.j.get('ret_ty', 'bool') not in ('bool',):
                continue
            cur = desugar_once(cur, bi, cb, kind)
            used.add(path)
            did = True
            break
        if not did:
            break
    if used:
        cur.inlined_from = set(getattr(body, 'inlined_from', set())) | used
    return cur


# ---------------------------------------------------------------------------------------------------------------------
# Decision splitting (tail duplication): when the arms of a two-way (or n-way) selection inside a loop only assign
# values (no calls) and re-join, the rest of the iteration is duplicated per arm so that correlated selections (which
# tree grows, which one connects, the flag that says so) stay correlated; switches on values that are constant in a
# copy are folded and dead blocks emptied.  Pure CFG duplication + folding of constant switches: semantics preserving.
def _retarget(term, old, new):
    t = dict(term)
    k = t['k']
    if k == 'goto' and t['target'] == old:
        t['target'] = new
    elif k == 'switch':
        t['targets'] = [[v, (new if b == old else b)] for v, b in t['targets']]
        if t['otherwise'] == old:
            t['otherwise'] = new
    elif k in ('drop', 'assert', 'call'):
        if t.get('target') == old:
            t['target'] = new
    elif k == 'other':
        t['succ'] = [(new if s == old else s) for s in t.get('succ', [])]
    return t


def _remap_term(term, m):
    t = dict(term)
    k = t['k']
    if k == 'goto':
        t['target'] = m.get(t['target'], t['target'])
    elif k == 'switch':
        t['targets'] = [[v, m.get(b, b)] for v, b in t['targets']]
        t['otherwise'] = m.get(t['otherwise'], t['otherwise'])
    elif k in ('drop', 'assert', 'call'):
        if t.get('target') is not None:
            t['target'] = m.get(t['target'], t['target'])
    elif k == 'other':
        t['succ'] = [m.get(s, s) for s in t.get('succ', [])]
    return t


def find_decision_join(fn, skip=frozenset()):
    """(join block, [pred blocks], innermost loop) of the first value-selection join inside a loop, or None"""
    from .engine import Fn  # noqa
    loops = fn.loops()
    if not loops:
        return None
    pred = fn.b.preds()
    reach = fn.reachable(0)
    dom = fn.dominators()
    for J in sorted(reach):
        if J in skip or fn.blocks[J]['cleanup']:
            continue
        inl = [L for L in loops if J in L['body'] and J != L['header']]
        if not inl:
            continue
        L = min(inl, key=lambda l: len(l['body']))
        ps = [p for p in pred[J] if p in reach and p in L['body']]
        if len(ps) < 2 or len(ps) > 4:
            continue
        # every pred arm is a straight line of assignment-only blocks hanging off one switch
        heads = set()
        assigned = []
        ok = True
        for p in ps:
            cur = p
            locs = set()
            n = 0
            while True:
                blk = fn.blocks[cur]
                t = blk['term']
                if t['k'] == 'switch':
                    heads.add(cur)
                    break
                if t['k'] != 'goto' or n > 4:
                    ok = False
                    break
                for st in blk['stmts']:
                    if st['k'] == 'assign':
                        locs.add(st['place']['l'])
                pp = [q for q in pred[cur] if q in reach]
                if len(pp) != 1:
                    ok = False
                    break
                cur = pp[0]
                n += 1
            if not ok:
                break
            assigned.append(locs)
        if not ok or len(heads) != 1:
            continue
        common = set.intersection(*assigned) if assigned else set()
        # something other than unit temporaries is selected
        common = {l for l in common if fn.b.local_ty(l) != '()'}
        if not common:
            continue
        return J, ps, L
    return None


def find_literal_merge(fn, skip=frozenset()):
    """(join block, [pred blocks]) where one variable arrives with a different literal enum variant (Ok(..), Err(..), Some(..),
    None, a field-less variant) from different predecessors and its discriminant is tested further on:
    `let outcome = loop { .. break Err(Timeout) .. break Ok(i) }; ..; outcome.map(..)` """
    pred = fn.b.preds()
    reach = fn.reachable(0)
    # candidate variables: assigned literal variants at two or more places
    lit_defs = {}
    for b in reach:
        if fn.blocks[b]['cleanup']:
            continue
        for si, st in enumerate(fn.blocks[b]['stmts']):
            if st['k'] == 'assign' and not st['place']['p'] and st['rv']['k'] == 'agg' and st['rv'].get('agg') == 'adt' and 'variant' in st['rv']:
                lit_defs.setdefault(st['place']['l'], []).append((b, si))
    cands = [x for x, ds in lit_defs.items() if len(ds) >= 2]
    for X in sorted(cands):
        # its discriminant (or that of a plain copy) is read somewhere
        alias = {X}
        for _ in range(6):
            for b in reach:
                for st in fn.blocks[b]['stmts']:
                    if st['k'] == 'assign' and not st['place']['p'] and st['rv']['k'] == 'use':
                        src = st['rv']['op'].get('move') or st['rv']['op'].get('copy')
                        if src is not None and not src['p'] and src['l'] in alias:
                            alias.add(st['place']['l'])
        used = any(st['k'] == 'assign' and st['rv']['k'] == 'discr' and st['rv']['place']['l'] in alias and not st['rv']['place']['p']
                   for b in reach for st in fn.blocks[b]['stmts'])
        if not used:
            continue
        for J in sorted(reach):
            if J in skip or fn.blocks[J]['cleanup']:
                continue
            ps = [p for p in pred[J] if p in reach and not fn.blocks[p]['cleanup']]
            if len(ps) < 2 or len(ps) > 6:
                continue
            per = []
            ok = True
            for p in ps:
                evs, entry = fn.reaching(X, (p, fn.nstmts(p)), (), True, whole_only=True)
                if entry or len(evs) != 1 or (evs[0].block, evs[0].idx) not in lit_defs[X]:
                    ok = False
                    break
                per.append((evs[0].block, evs[0].idx))
            if ok and len(set(per)) >= 2:
                return J, ps
    return None


def desugar_from_residual(body, bi):
    """`return FromResidual::from_residual(r)` with r: Result<Infallible, E> is `return Err(From::from(e))` (None for Option): written
    as the literal it is, so that the `?` of a caller (after inlining) sees an Err literal and not an opaque call"""
    t = body.blocks[bi]['term']
    if len(t['args']) != 1 or t['target'] is None:
        return None
    ap = t['args'][0].get('move') or t['args'][0].get('copy')
    if ap is None or ap['p']:
        return None
    aty = body.local_ty(ap['l'])
    dty = body.local_ty(t['dest']['l']) if not t['dest']['p'] else ''
    j = copy.deepcopy(body.j)
    span = j['blocks'][bi]['tspan']
    if aty.startswith('std::result::Result<std::convert::Infallible') and dty.startswith('std::result::Result<'):
        j['locals'].append({'ty': 'unknown', 'name': None, 'mut': True})
        e = len(j['locals']) - 1
        j['locals'].append({'ty': 'unknown', 'name': None, 'mut': True})
        e2 = len(j['locals']) - 1
        j['blocks'][bi]['stmts'].append({'k': 'assign', 'place': {'l': e, 'p': []}, 'rv': {'k': 'use', 'op': {'move': {
            'l': ap['l'], 'p': [{'down': 1, 'name': 'Err'}, {'f': 0, 'name': '0', 'ty': 'unknown'}]}}}, 'span': span})
        nblk = {'stmts': [{'k': 'assign', 'place': t['dest'], 'rv': {'k': 'agg', 'agg': 'adt', 'adt': 'std::result::Result', 'variant': 1, 'variant_name': 'Err',
                                                                    'field_names': ['0'], 'fields': [{'move': {'l': e2, 'p': []}}]}, 'span': span}],
                'term': {'k': 'goto', 'target': t['target']}, 'tspan': span, 'cleanup': False}
        j['blocks'].append(nblk)
        j['blocks'][bi]['term'] = {'k': 'call', 'func': {'path': 'std::convert::From::from', 'full': 'std::convert::From::from', 'name': 'from', 'gargs': []},
                                   'args': [{'move': {'l': e, 'p': []}}], 'dest': {'l': e2, 'p': []}, 'target': len(j['blocks']) - 1, 'unwind': None}
        return Body(j, body.crate)
    if aty.startswith('std::option::Option<std::convert::Infallible') and dty.startswith('std::option::Option<'):
        j['blocks'][bi]['stmts'].append({'k': 'assign', 'place': t['dest'], 'rv': {'k': 'agg', 'agg': 'adt', 'adt': 'std::option::Option', 'variant': 0,
                                                                                 'variant_name': 'None', 'field_names': [], 'fields': []}, 'span': span})
        j['blocks'][bi]['term'] = {'k': 'goto', 'target': t['target']}
        return Body(j, body.crate)
    return None


def desugar_try_branches(body):
    """every `Try::branch(x)` on a Result / Option written out as a match (see desugar_try_branch), every from_residual as
    the Err / None literal it returns"""
    cur = body
    for _ in range(64):
        did = False
        for bi, t in list(cur.calls()):
            if t['func'].get('path') == TRY_BRANCH and len(t['args']) == 1:
                nb = desugar_try_branch(cur, bi)
                if nb is not None:
                    cur = nb
                    did = True
                    break
            if t['func'].get('path') == 'std::ops::FromResidual::from_residual':
                nb = desugar_from_residual(cur, bi)
                if nb is not None:
                    cur = nb
                    did = True
                    break
        if not did:
            break
    return cur


def split_literal_results(body, max_splits=3):
    """for functions that are not planner entry points: when a Result / Option literal (the `return Err(X)` of an inlined
    helper, a `break Err(..)`) flows into a `?`, write the `?` out and duplicate the tail per literal so that each copy
    takes the arm its literal decides; None when the function has no such merge"""
    from .engine import Fn
    nb = desugar_try_branches(body)
    if find_literal_merge(Fn(nb)) is None:
        return None
    out = split_decisions(nb, max_splits=max_splits, literal_only=True)
    return out if out is not nb else None


def split_decisions(body, max_splits=2, max_blocks=2500, literal_only=False):
    from .engine import Fn
    cur = body
    nsplit = 0
    skip = set()
    for _ in range(max_splits):
        fn = Fn(cur)
        hit = find_decision_join(fn, frozenset(skip)) if not literal_only else None
        if hit is None:
            lm = find_literal_merge(fn, frozenset(skip))
            if lm is None:
                break
            J, ps = lm
            heads = frozenset(l['header'] for l in fn.loops() if J in l['body'])
            region = {x for x in fn.reachable(J, stop=heads) if x not in heads and not fn.blocks[x]['cleanup']}
            if len(cur.blocks) + len(region) * (len(ps) - 1) > max_blocks:
                break
            j = copy.deepcopy(cur.j)
            for p in ps[1:]:
                base = len(j['blocks'])
                order = sorted(region)
                m = {x: base + k for k, x in enumerate(order)}
                for x in order:
                    nb = copy.deepcopy(j['blocks'][x])
                    nb['term'] = _remap_term(nb['term'], m)
                    j['blocks'].append(nb)
                j['blocks'][p]['term'] = _retarget(j['blocks'][p]['term'], J, m[J])
            cur = fold_constant_switches(Body(j, body.crate))
            nsplit += 1
            skip.add(J)
            continue
        J, ps, L = hit
        H = L['header']
        # the rest of the iteration and the exit tails that leave the loop from it (e.g. `return Ok(..)` paths), up to the
        # headers of this and of the enclosing loops
        heads = frozenset(l['header'] for l in fn.loops() if J in l['body'])
        region = fn.reachable(J, stop=heads)
        region = {x for x in region if x not in heads and not fn.blocks[x]['cleanup']}
        if len(cur.blocks) + len(region) * (len(ps) - 1) > max_blocks:
            break
        j = copy.deepcopy(cur.j)
        copies = []
        for p in ps[1:]:
            base = len(j['blocks'])
            order = sorted(region)
            m = {x: base + k for k, x in enumerate(order)}
            copies.append(m)
            for x in order:
                nb = copy.deepcopy(j['blocks'][x])
                nb['term'] = _remap_term(nb['term'], m)
                j['blocks'].append(nb)
            # the arm ending in p now continues in its own copy
            j['blocks'][p]['term'] = _retarget(j['blocks'][p]['term'], J, m[J])
        # what the head switch tested, and the value it had on each arm: inside the copy of an arm a later switch on the
        # same (not reassigned) variable takes the same edge
        head = None
        for p0 in ps:
            c0 = p0
            while fn.blocks[c0]['term']['k'] != 'switch':
                c0 = [q for q in fn.b.preds()[c0] if q in fn.reachable(0)][0]
            head = c0
        src = _switch_source(fn, head)
        arm_entry = {}
        if src is not None:
            tm = fn.blocks[head]['term']
            for p0 in ps:
                c0, prev = p0, J
                while c0 != head:
                    prev = c0
                    c0 = [q for q in fn.b.preds()[c0] if q in fn.reachable(0)][0]
                vals = [v for v, tg in tm['targets'] if tg == prev]
                arm_entry[p0] = vals[0] if len(vals) == 1 else ('otherwise' if tm['otherwise'] == prev else None)
        cur = Body(j, body.crate)
        nsplit += 1
        known = []
        if src is not None:
            all_vals = [v for v, _tg in fn.blocks[head]['term']['targets']]
            for k, p0 in enumerate(ps):
                blocks_k = set(region) if k == 0 else {copies[k - 1][x] for x in region}
                known.append((blocks_k, src, arm_entry.get(p0), all_vals))
        cur = fold_constant_switches(cur, known)
        skip.add(J)
    if nsplit:
        cur.inlined_from = set(getattr(body, 'inlined_from', set())) | {'decision-split:%s x%d' % (body.path, nsplit)}
    return cur


def _switch_source(fn, b):
    """(root local, id of its single reaching definition) of the value a switch block tests, following plain copies; None
    when the tested value is not a once-assigned variable"""
    t = fn.blocks[b]['term']
    pl = t['discr'].get('move') or t['discr'].get('copy')
    if pl is None or pl['p']:
        return None
    point = (b, fn.nstmts(b))
    local = pl['l']
    last = None
    for _ in range(6):
        evs, entry = fn.reaching(local, point, (), True, whole_only=True)
        if entry or len(evs) != 1:
            return last
        e = evs[0]
        last = (local, (e.block, e.idx))
        if e.kind == 'assign' and e.data['k'] == 'assign' and e.data['rv']['k'] == 'use' and not e.path:
            src = e.data['rv']['op'].get('move') or e.data['rv']['op'].get('copy')
            if src is None or src['p']:
                return last
            local, point = src['l'], (e.block, e.idx)
            continue
        return last
    return last


def _same_source(fn, b, src):
    """does switch block b test the same variable with the same reaching definition as `src`?"""
    t = fn.blocks[b]['term']
    pl = t['discr'].get('move') or t['discr'].get('copy')
    if pl is None or pl['p']:
        return False
    point = (b, fn.nstmts(b))
    local = pl['l']
    for _ in range(6):
        evs, entry = fn.reaching(local, point, (), True, whole_only=True)
        if entry or len(evs) != 1:
            return False
        e = evs[0]
        if (local, (e.block, e.idx)) == src:
            return True
        if e.kind == 'assign' and e.data['k'] == 'assign' and e.data['rv']['k'] == 'use' and not e.path:
            s2 = e.data['rv']['op'].get('move') or e.data['rv']['op'].get('copy')
            if s2 is None or s2['p']:
                return False
            local, point = s2['l'], (e.block, e.idx)
            continue
        return False
    return False


def fold_constant_switches(body, known=(), rounds=6):
    """fold switches whose tested value is a constant, and (known = [(blocks, source, value, all values)]) switches inside
    the copy of a decision arm that test the variable the decision itself tested"""
    from .engine import Fn
    cur = body
    for _ in range(rounds):
        fn = Fn(cur)
        reach = fn.reachable(0)
        j = None
        for b in sorted(reach):
            blk = cur.blocks[b]
            if blk['cleanup'] or blk['term']['k'] != 'switch':
                continue
            hit = None
            for (blocks_k, src, val, all_vals) in known:
                if b in blocks_k and val is not None and _same_source(fn, b, src):
                    tm = {str(v): tg for v, tg in blk['term']['targets']}
                    if val == 'otherwise':
                        # the decision took its default edge: the value is none of the listed ones
                        if set(tm.keys()) <= set(str(v) for v in all_vals):
                            hit = blk['term']['otherwise']
                    else:
                        hit = tm.get(str(val), blk['term']['otherwise'])
            if hit is not None:
                if j is None:
                    j = copy.deepcopy(cur.j)
                j['blocks'][b]['term'] = {'k': 'goto', 'target': hit}
                continue
            si = fn.switch_info(b)
            if si is None:
                continue
            terms, tmap, other = si
            if len(terms) != 1:
                continue
            n = next(iter(terms))
            val = None
            if n[0] == 'const' and n[1] in ('true', 'false'):
                val = '1' if n[1] == 'true' else '0'
            elif n[0] == 'const' and n[1].lstrip('-').isdigit():
                val = n[1]
            elif n[0] == 'discr' and len(n[1]) == 1:
                a = next(iter(n[1]))
                # the literal must be of the type whose discriminant is read (terms look through ok_or / map_err, which turn an
                # Option literal into a Result: None = 0 is not Ok = 0)
                dty = None
                for st_ in blk['stmts']:
                    if st_['k'] == 'assign' and st_['rv']['k'] == 'discr':
                        dpl = st_['rv']['place']
                        dty = cur.local_ty(dpl['l']) if not dpl['p'] else None
                if a[0] == 'agg' and (dty is None or not dty.startswith(a[1].replace('core::', 'std::'))):
                    a = ('none',)
                if a[0] == 'agg' and a[1] in ('std::result::Result', 'std::option::Option', 'core::result::Result', 'core::option::Option',
                                              'std::ops::ControlFlow', 'core::ops::ControlFlow') and \
                        a[2] in ('Ok', 'Err', 'None', 'Some', 'Continue', 'Break'):
                    val = {'Ok': '0', 'Err': '1', 'None': '0', 'Some': '1', 'Continue': '0', 'Break': '1'}[a[2]]
                elif a[0] == 'agg':
                    adt = cur.crate.adts.get(a[1])
                    if adt is not None and adt.get('is_enum'):
                        names = [v['name'] for v in adt['variants']]
                        if a[2] in names:
                            val = str(names.index(a[2]))       # fieldless / default discriminants only
                            if any(v.get('discr') is not None for v in adt['variants']):
                                val = None
            elif n[0] == 'call' and n[1] in ('std::cmp::PartialEq::eq', 'std::cmp::PartialEq::ne') and len(n[2]) == 2 and \
                    all(len(a) == 1 for a in n[2]):
                # derived equality of two known field-less enum values
                x, y = next(iter(n[2][0])), next(iter(n[2][1]))
                if x[0] == 'agg' and y[0] == 'agg' and x[1] == y[1] and not x[3] and not y[3]:
                    adt = cur.crate.adts.get(x[1])
                    t_call = fn.blocks[n[3][1]]['term'] if n[3][0] == fn.path else None
                    res = (t_call or {}).get('func', {}).get('resolved', {})
                    rb = cur.crate.body(res.get('path', '')) if res else None
                    if adt is not None and adt.get('is_enum') and rb is not None and rb.j.get('impl_derived'):
                        eq = x[2] == y[2]
                        val = '1' if (eq if n[1].endswith('::eq') else not eq) else '0'
            if val is None:
                continue
            tgt = tmap.get(val, other)
            if j is None:
                j = copy.deepcopy(cur.j)
            j['blocks'][b]['term'] = {'k': 'goto', 'target': tgt}
        if j is None:
            break
        cur = _empty_dead(Body(j, body.crate))
    return _empty_dead(cur)


def _empty_dead(cur):
    """empty the blocks that became unreachable (a dead block must not stay a predecessor: its definitions would still
    reach the join it used to enter)"""
    from .engine import Fn
    fn = Fn(cur)
    reach = fn.reachable(0)
    dead = [b for b in range(len(cur.blocks)) if b not in reach and not cur.blocks[b]['cleanup'] and
            (cur.blocks[b]['stmts'] or cur.blocks[b]['term']['k'] != 'unreachable')]
    if dead:
        j = copy.deepcopy(cur.j)
        for b in dead:
            j['blocks'][b]['stmts'] = []
            j['blocks'][b]['term'] = {'k': 'unreachable'}
        cur = Body(j, cur.crate)
    return cur


# ---------------------------------------------------------------------------------------------------------------------
# Jump threading: a block that does nothing but switch on the discriminant of X, entered from a predecessor that has just
# assigned a known variant to X, is bypassed from that predecessor (the decided edge is taken directly).  Removes the
# infeasible paths a materialised Option/Result introduces (`let r = it.find(..); if let Some(x) = r {..}` after find has
# been written as a loop; `let v = if c {Some(a)} else {None}; match v {..}`).
def thread_jumps(body, rounds=4):
    cur = body
    did_any = False
    for _ in range(rounds):
        j = None
        blocks = cur.blocks
        preds = cur.preds()
        for J, blk in enumerate(blocks):
            if blk['cleanup'] or blk['term']['k'] != 'switch':
                continue
            stmts = [s for s in blk['stmts'] if s['k'] == 'assign']
            if len(stmts) != 1 or stmts[0]['rv']['k'] != 'discr' or stmts[0]['place']['p']:
                continue
            d = blk['term']['discr'].get('move') or blk['term']['discr'].get('copy')
            if d is None or d['p'] or d['l'] != stmts[0]['place']['l']:
                continue
            xp = stmts[0]['rv']['place']
            if xp['p']:
                continue
            X = xp['l']
            tm = {str(v): tg for v, tg in blk['term']['targets']}
            for P in preds.get(J, []):
                pb = blocks[P]
                if pb['cleanup'] or pb['term']['k'] != 'goto' or pb['term']['target'] != J:
                    continue
                last = None
                for s in pb['stmts']:
                    if s['k'] == 'assign' and s['place']['l'] == X:
                        last = s if not s['place']['p'] else None
                if last is None or last['rv']['k'] != 'agg' or last['rv'].get('agg') != 'adt' or 'variant' not in last['rv']:
                    continue
                v = str(last['rv']['variant'])
                tgt = tm.get(v, blk['term']['otherwise'])
                if j is None:
                    j = copy.deepcopy(cur.j)
                j['blocks'][P]['stmts'] = j['blocks'][P]['stmts'] + [copy.deepcopy(stmts[0])]
                j['blocks'][P]['term'] = {'k': 'goto', 'target': tgt}
        if j is None:
            break
        cur = Body(j, body.crate)
        did_any = True
    if did_any:
        cur.inlined_from = set(getattr(body, 'inlined_from', set())) | {'jump-threading:%s' % body.path}
    return cur


# ------------------------------------------------------------------------------------------------------------------
# full unrolling of `for slot in fixed_array.iter_mut() { *slot = e }` over a small constant-length array
import re as _re

_ARR = _re.compile(r'^\[(f64|f32); (\d+)\]$')


def _mentions(x, local):
    """number of places with base local `local` (and index operands equal to it) inside a JSON fragment"""
    n = 0
    if isinstance(x, dict):
        if 'l' in x and 'p' in x and isinstance(x['p'], list):
            if x['l'] == local:
                n += 1
            for e in x['p']:
                if isinstance(e, dict) and e.get('idx') == local:
                    n += 1
            return n
        for k, v in x.items():
            if k in ('span', 'tspan', 'fn_span', 'func'):
                continue
            n += _mentions(v, local)
    elif isinstance(x, list):
        for v in x:
            n += _mentions(v, local)
    return n


def _plain_local(op):
    pl = op.get('move') or op.get('copy') if isinstance(op, dict) else None
    if pl is None or pl['p']:
        return None
    return pl['l']


def _find_array_fill(body):
    blocks = body.blocks
    for A, loc in enumerate(body.locals):
        m = _ARR.match(loc.get('ty') or '')
        if not m or int(m.group(2)) > 8 or int(m.group(2)) < 1:
            continue
        N = int(m.group(2))
        inits, refs, reads, other = [], [], 0, 0
        for bi, blk in enumerate(blocks):
            for si, st in enumerate(blk['stmts']):
                c = _mentions(st, A)
                if not c:
                    continue
                if st['k'] != 'assign':
                    continue            # storage markers
                if st['place'] == {'l': A, 'p': []} and st['rv']['k'] == 'repeat' and _mentions(st['rv'], A) == 0:
                    inits.append((bi, si))
                elif st['rv']['k'] == 'ref' and st['rv'].get('mut') and st['rv']['place'] == {'l': A, 'p': []} and c == 1:
                    refs.append((bi, si))
                elif st['rv']['k'] == 'use' and c == 1 and _cidx_read(st['rv']['op'], A) is not None and _mentions(st['place'], A) == 0:
                    reads += 1
                else:
                    other += 1
            other += _mentions(blk['term'], A)
        if len(inits) != 1 or len(refs) != 1 or other or not reads:
            continue
        b0, s0 = refs[0]
        blk0 = blocks[b0]
        if blk0['cleanup'] or s0 + 1 >= len(blk0['stmts']):
            continue
        r1 = blk0['stmts'][s0]['place']
        cast = blk0['stmts'][s0 + 1]
        t0 = blk0['term']
        if r1['p'] or cast['k'] != 'assign' or cast['rv']['k'] != 'cast' or 'Unsize' not in cast['rv'].get('cast', '') or \
                _plain_local(cast['rv']['op']) != r1['l'] or cast['place']['p'] or s0 + 2 != len(blk0['stmts']):
            continue
        if t0['k'] != 'call' or not t0['func'].get('path', '').endswith('::iter_mut') or len(t0['args']) != 1 or \
                _plain_local(t0['args'][0]) != cast['place']['l'] or t0['dest']['p'] or t0['target'] is None:
            continue
        b1 = t0['target']
        t1 = blocks[b1]['term']
        if blocks[b1]['stmts'] or t1['k'] != 'call' or t1['func'].get('path') != 'std::iter::IntoIterator::into_iter' or \
                _plain_local(t1['args'][0]) != t0['dest']['l'] or t1['dest']['p'] or t1['target'] is None:
            continue
        b2 = t1['target']
        st2 = [s for s in blocks[b2]['stmts'] if s['k'] == 'assign']
        if len(st2) != 1 or st2[0]['rv']['k'] != 'use' or _plain_local(st2[0]['rv']['op']) != t1['dest']['l'] or st2[0]['place']['p'] or \
                blocks[b2]['term']['k'] != 'goto':
            continue
        it = st2[0]['place']['l']
        H = blocks[b2]['term']['target']
        th = blocks[H]['term']
        if th['k'] != 'call' or th['func'].get('path') != 'std::iter::Iterator::next' or th['dest']['p'] or th['target'] is None:
            continue
        # the iterator is used by the head block only
        uses_it = sum(_mentions(blk, it) for i, blk in enumerate(blocks) if i not in (b2, H) and not blk['cleanup'])
        if uses_it:
            continue
        S = th['target']
        ts = blocks[S]['term']
        if ts['k'] != 'switch' or len(blocks[S]['stmts']) != 1 or blocks[S]['stmts'][0]['rv'].get('k') != 'discr' or \
                blocks[S]['stmts'][0]['rv']['place'] != {'l': th['dest']['l'], 'p': []}:
            continue
        tm = {str(v): tg for v, tg in ts['targets']}
        if '0' not in tm or '1' not in tm:
            continue
        E, Bd = tm['0'], tm['1']
        first = blocks[Bd]['stmts'][0] if blocks[Bd]['stmts'] else None
        if first is None or first['k'] != 'assign' or first['place']['p'] or first['rv']['k'] != 'use':
            continue
        src = first['rv']['op'].get('move')
        if src is None or src['l'] != th['dest']['l'] or len(src['p']) != 2 or 'down' not in src['p'][0]:
            continue
        p = first['place']['l']
        # the loop body: blocks reachable from Bd without passing the head; every edge stays inside or returns to the head
        bodyset, todo, ok = set(), [Bd], True
        while todo and ok:
            x = todo.pop()
            if x in bodyset:
                continue
            bodyset.add(x)
            if blocks[x]['term']['k'] in ('return', 'other'):
                ok = False
            for s in body.succs(x):
                if s == H:
                    continue
                if s in (S, b0, b1, b2, E):
                    ok = False
                todo.append(s)
        if not ok or len(bodyset) > 40:
            continue
        # head and switch are entered from the set-up and the loop body only
        preds = body.preds()
        if any(q not in bodyset and q != b2 for q in preds.get(H, [])) or preds.get(S, []) != [H] or \
                any(q != S and q not in bodyset for q in preds.get(Bd, [])) or any(q in bodyset for q in preds.get(Bd, [])):
            continue
        stores, uses_p = [], 0
        for x in bodyset:
            for si, st in enumerate(blocks[x]['stmts']):
                c = _mentions(st, p)
                if not c or (x == Bd and si == 0):
                    continue
                if st['k'] == 'assign' and st['place'] == {'l': p, 'p': ['deref']} and _mentions(st['rv'], p) == 0:
                    stores.append((x, si))
                elif st['k'] == 'assign':
                    uses_p += 1
            uses_p += _mentions(blocks[x]['term'], p)
        outside_p = sum(_mentions(blk, p) for i, blk in enumerate(blocks) if i not in bodyset and not blk['cleanup'])
        if len(stores) != 1 or uses_p or outside_p:
            continue
        return {'A': A, 'N': N, 'ety': m.group(1), 'init': inits[0], 'b0': b0, 's0': s0, 'E': E, 'Bd': Bd, 'H': H, 'body': sorted(bodyset),
                'p': p, 'store': stores[0]}
    return None


def blocks_switch(body, H):
    return body.blocks[H]['term']['target']


def _cidx_read(op, A):
    pl = op.get('copy') or op.get('move') if isinstance(op, dict) else None
    if pl is None or pl['l'] != A or len(pl['p']) != 1 or not isinstance(pl['p'][0], dict) or 'cidx' not in pl['p'][0] or \
            pl['p'][0].get('from_end'):
        return None
    return pl['p'][0]['cidx']


def unroll_array_fills(body, max_rounds=4):
    """`let mut a = [c; N]; for slot in a.iter_mut() { *slot = e; }` with N <= 8 and `a` otherwise only read at constant
    indices: the array becomes N scalars and the loop N copies of its body (the k-th evaluation of `e` is the value of
    a[k]); rules then see N separate evaluation sites, as if the elements had been written out one by one"""
    cur = body
    did = False
    for _ in range(max_rounds):
        f = _find_array_fill(cur)
        if f is None:
            break
        j = copy.deepcopy(cur.j)
        A, N = f['A'], f['N']
        scal = []
        for k in range(N):
            j['locals'].append({'ty': f['ety'], 'name': '%s_%d' % (cur.locals[A].get('name') or 'elem', k), 'mut': True})
            scal.append(len(j['locals']) - 1)
        # reads a[k] -> a_k
        def rewrite(x):
            if isinstance(x, dict):
                for key in ('copy', 'move'):
                    if key in x and isinstance(x[key], dict) and _cidx_read({key: x[key]}, A) is not None:
                        x[key] = {'l': scal[_cidx_read({key: x[key]}, A)], 'p': []}
                        return
                for v in x.values():
                    rewrite(v)
            elif isinstance(x, list):
                for v in x:
                    rewrite(v)
        for blk in j['blocks']:
            for st in blk['stmts']:
                if st['k'] == 'assign':
                    rewrite(st['rv'])
            rewrite(blk['term'].get('args', []))
            if blk['term']['k'] == 'switch':
                rewrite(blk['term'])
        # initialisation
        bi, si = f['init']
        init = j['blocks'][bi]['stmts'][si]
        extra = [{'k': 'assign', 'place': {'l': s, 'p': []}, 'rv': {'k': 'use', 'op': copy.deepcopy(init['rv']['op'])}, 'span': init['span']}
                 for s in scal]
        j['blocks'][bi]['stmts'][si + 1:si + 1] = extra
        shift = len(extra) if bi == f['b0'] and si < f['s0'] else 0
        # N copies of the loop body
        nb0 = len(j['blocks'])
        nbody = len(f['body'])
        pos = {b: i for i, b in enumerate(f['body'])}
        for k in range(N):
            base = nb0 + k * nbody
            nxt = (nb0 + (k + 1) * nbody + pos[f['Bd']]) if k + 1 < N else f['E']
            m = {b: base + pos[b] for b in f['body']}
            m[f['H']] = nxt
            for b in f['body']:
                nblk = copy.deepcopy(cur.j['blocks'][b])
                for st in nblk['stmts']:
                    if st['k'] == 'assign':
                        rewrite(st['rv'])
                rewrite(nblk['term'].get('args', []))
                if b == f['store'][0]:
                    nblk['stmts'][f['store'][1]]['place'] = {'l': scal[k], 'p': []}
                if b == f['Bd']:
                    nblk['stmts'] = nblk['stmts'][1:] if f['store'] != (b, 0) else nblk['stmts']
                nblk['term'] = _remap_term(nblk['term'], m)
                j['blocks'].append(nblk)
        # the set-up block jumps straight into the first copy
        blk0 = j['blocks'][f['b0']]
        blk0['stmts'] = blk0['stmts'][:f['s0'] + shift]
        blk0['term'] = {'k': 'goto', 'target': nb0 + pos[f['Bd']]}
        # the rolled loop is dead now
        dead = set(f['body']) | {f['H'], blocks_switch(cur, f['H'])}
        for b in dead:
            j['blocks'][b]['stmts'] = []
            j['blocks'][b]['term'] = {'k': 'unreachable'}
        cur = Body(j, body.crate)
        did = True
    if did:
        cur.inlined_from = set(getattr(body, 'inlined_from', set())) | {'unroll@%s' % body.path}
    return cur
