"""Thorough tier additions (controls, witnesses) - filled in later."""


def run(ctx, prop, mod):
    return []
