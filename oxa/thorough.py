"""Thorough tier additions (all static: nothing of /repo is executed).

1. type-level witnesses: compile_fail doctests (with compiling twins) showing that an external crate cannot write the
   private state the rules rely on (rng, trees, roadmap, resolution fraction) — run with cargo +nightly test --doc;
2. mutation adequacy of the checker on the *current* tree: every applicable mutant of selftest/cases.py for this
   property is applied to a scratch copy of /repo (outside /repo and /verif, removed afterwards), re-extracted and
   re-checked; a rule that matches nothing cannot pass vacuously.  A missed mutant is reported in the evidence and on
   stdout as a weakness of the checker; it is not a violation of the property by /repo;
3. sibling cross-check of the JS bindings for C19 (argument order / lossless conversions).
"""
import importlib
import os
import re
import shutil
import subprocess
import sys
import tempfile
import time

from . import extract
from .core import RuleResult, Violation

VERIF = extract.VERIF
WITNESS_PROPS = {
    'C07': ['rng'],
    'C15': ['tree'],
    'C18': ['roadmap', 'node', 'clone'],
    'C02': ['tree'],
    'C06': ['fraction'],
    'C03': ['fraction'],
}

WITNESS_LIB = r'''//! Type-level witnesses for the OxMPL verification (generated; see /verif/oxa/thorough.py).
//! Every `compile_fail,E0xxx` block has a compiling twin that differs only by the offending line.

/// rng: an external crate cannot replace or read a planner's generator.
/// ```compile_fail,E0616
/// use oxmpl::base::{planner::PlannerConfig, space::RealVectorStateSpace, state::RealVectorState};
/// use oxmpl_witness::G;
/// let mut p: oxmpl::geometric::RRT<RealVectorState, RealVectorStateSpace, G> =
///     oxmpl::geometric::RRT::new(0.5, 0.0, &PlannerConfig { seed: Some(1) });
/// p.rng = None; // private field
/// ```
/// ```
/// use oxmpl::base::{planner::PlannerConfig, space::RealVectorStateSpace, state::RealVectorState};
/// use oxmpl_witness::G;
/// let mut p: oxmpl::geometric::RRT<RealVectorState, RealVectorStateSpace, G> =
///     oxmpl::geometric::RRT::new(0.5, 0.0, &PlannerConfig { seed: Some(1) });
/// p.goal_bias = 0.1; // public field
/// ```
pub struct WitnessRng;

/// tree: an external crate cannot touch a planner's tree or problem definition.
/// ```compile_fail,E0616
/// use oxmpl::base::{planner::PlannerConfig, space::RealVectorStateSpace, state::RealVectorState};
/// use oxmpl_witness::G;
/// let mut p: oxmpl::geometric::RRTStar<RealVectorState, RealVectorStateSpace, G> =
///     oxmpl::geometric::RRTStar::new(0.5, 0.0, 1.0, &PlannerConfig { seed: Some(1) });
/// p.tree.clear(); // private field
/// ```
/// ```compile_fail,E0616
/// use oxmpl::base::{planner::PlannerConfig, space::RealVectorStateSpace, state::RealVectorState};
/// use oxmpl_witness::G;
/// let mut p: oxmpl::geometric::RRTConnect<RealVectorState, RealVectorStateSpace, G> =
///     oxmpl::geometric::RRTConnect::new(0.5, 0.0, &PlannerConfig { seed: Some(1) });
/// p.problem_def = None; // private field
/// ```
/// ```
/// use oxmpl::base::{planner::PlannerConfig, space::RealVectorStateSpace, state::RealVectorState};
/// use oxmpl_witness::G;
/// let mut p: oxmpl::geometric::RRTStar<RealVectorState, RealVectorStateSpace, G> =
///     oxmpl::geometric::RRTStar::new(0.5, 0.0, 1.0, &PlannerConfig { seed: Some(1) });
/// p.search_radius = 2.0; // public field
/// ```
pub struct WitnessTree;

/// roadmap: private, and get_roadmap hands out an owned clone.
/// ```compile_fail,E0616
/// use oxmpl::base::{planner::PlannerConfig, space::RealVectorStateSpace, state::RealVectorState};
/// use oxmpl_witness::G;
/// let mut p: oxmpl::geometric::PRM<RealVectorState, RealVectorStateSpace, G> =
///     oxmpl::geometric::PRM::new(0.1, 1.0, &PlannerConfig { seed: Some(1) });
/// p.roadmap.clear(); // private field
/// ```
/// ```
/// use oxmpl::base::{planner::PlannerConfig, space::RealVectorStateSpace, state::RealVectorState};
/// use oxmpl_witness::G;
/// let p: oxmpl::geometric::PRM<RealVectorState, RealVectorStateSpace, G> =
///     oxmpl::geometric::PRM::new(0.1, 1.0, &PlannerConfig { seed: Some(1) });
/// let mut copy = p.get_roadmap(); // an owned Vec: mutating it cannot reach the planner (p is not even `mut`)
/// copy.clear();
/// assert!(p.get_roadmap().is_empty());
/// ```
pub struct WitnessRoadmap;

/// node: the fields of a roadmap node are private to the planner module.
/// ```compile_fail,E0616
/// use oxmpl::base::{planner::PlannerConfig, space::RealVectorStateSpace, state::RealVectorState};
/// use oxmpl_witness::G;
/// let p: oxmpl::geometric::PRM<RealVectorState, RealVectorStateSpace, G> =
///     oxmpl::geometric::PRM::new(0.1, 1.0, &PlannerConfig { seed: Some(1) });
/// let mut copy = p.get_roadmap();
/// if let Some(n) = copy.first_mut() { n.edges.clear(); } // private field
/// ```
/// ```
/// use oxmpl::base::{planner::PlannerConfig, space::RealVectorStateSpace, state::RealVectorState};
/// use oxmpl_witness::G;
/// let p: oxmpl::geometric::PRM<RealVectorState, RealVectorStateSpace, G> =
///     oxmpl::geometric::PRM::new(0.1, 1.0, &PlannerConfig { seed: Some(1) });
/// let mut copy = p.get_roadmap();
/// if let Some(_n) = copy.first_mut() { }
/// ```
pub struct WitnessNode;

/// fraction: the resolution fraction can only be changed through its (validating) setter.
/// ```compile_fail,E0616
/// let mut s = oxmpl::base::space::RealVectorStateSpace::new(1, Some(vec![(0.0, 1.0)])).unwrap();
/// s.longest_valid_segment_fraction = 0.0; // private field
/// ```
/// ```
/// let mut s = oxmpl::base::space::RealVectorStateSpace::new(1, Some(vec![(0.0, 1.0)])).unwrap();
/// s.set_longest_valid_segment_fraction(0.5);
/// ```
pub struct WitnessFraction;

use oxmpl::base::{error::StateSamplingError, goal::{Goal, GoalRegion, GoalSampleableRegion}, state::RealVectorState};
/// A trivial goal type so that the planner types can be named.
pub struct G;
impl Goal<RealVectorState> for G { fn is_satisfied(&self, _s: &RealVectorState) -> bool { false } }
impl GoalRegion<RealVectorState> for G { fn distance_goal(&self, _s: &RealVectorState) -> f64 { 0.0 } }
impl GoalSampleableRegion<RealVectorState> for G {
    fn sample_goal(&self, _r: &mut impl rand::Rng) -> Result<RealVectorState, StateSamplingError> {
        Err(StateSamplingError::GoalRegionUnsatisfiable)
    }
}
'''


def run_witness(prop):
    """build the witness crate against the repository under analysis and run its doctests (compile checks)"""
    r = RuleResult(prop + '.witness', 'an external crate cannot write the private state the rules rely on (compile_fail doctests with compiling twins)')
    repo = extract.REPO
    wdir = os.path.join(extract.CACHE, 'witness')
    os.makedirs(os.path.join(wdir, 'src'), exist_ok=True)
    with open(os.path.join(wdir, 'Cargo.toml'), 'w') as fh:
        fh.write('[package]\nname = "oxmpl_witness"\nversion = "0.0.0"\nedition = "2021"\n\n[workspace]\n\n'
                 '[dependencies]\noxmpl = { path = "%s/oxmpl" }\nrand = "0.9"\n' % repo)
    shutil.copy(os.path.join(repo, 'Cargo.lock'), os.path.join(wdir, 'Cargo.lock'))
    with open(os.path.join(wdir, 'src', 'lib.rs'), 'w') as fh:
        fh.write(WITNESS_LIB)
    env = dict(os.environ, CARGO_NET_OFFLINE='true', CARGO_TARGET_DIR=os.path.join(extract.CACHE, 'witness-target'))
    t0 = time.time()
    p = subprocess.run(['cargo', '+nightly', 'test', '--doc', '--offline'], cwd=wdir, env=env,
                       stdout=subprocess.PIPE, stderr=subprocess.STDOUT, text=True)
    out = p.stdout
    tests = re.findall(r'^test (src/lib.rs - (\w+) \(line \d+\)[^\n]*?) \.\.\. (\w+)', out, re.M)
    want = WITNESS_PROPS.get(prop, [])
    seen = 0
    for (name, item, verdict) in tests:
        key = item.replace('Witness', '').lower()
        if want and key not in want:
            continue
        seen += 1
        ok = verdict == 'ok'
        r.inst('%s: %s' % (name, verdict), ok=ok, nontrivial='compile fail' in name)
        if not ok:
            r.violations.append(Violation(prop, prop + '.witness', 'witness', key,
                                          'type-level witness %s no longer holds: private planner/space state became writable from outside '
                                          '(or its compiling twin broke)' % name))
    if seen == 0:
        r.violations.append(Violation(prop, prop + '.witness', 'witness', 'none-ran',
                                      'no witness doctest ran (build failure?):\n' + out[-1500:]))
    r.notes.append('cargo +nightly test --doc: %d doctests in %.1fs' % (len(tests), time.time() - t0))
    return r


def run_mutants(prop, limit=None):
    """mutation adequacy of the checker on the current tree (see module docstring)"""
    r = RuleResult(prop + '.adequacy', 'each applicable seeded mutant of this property is caught by the quick check (checker non-vacuity on the current tree)')
    sys.path.insert(0, os.path.join(VERIF, 'selftest'))
    try:
        cases = importlib.import_module('cases').CASES
    except Exception as e:  # pragma: no cover
        r.notes.append('cannot load selftest cases: %s' % e)
        return r
    mine = [c for c in cases if c['expect'] and any(x.startswith(prop + '.') for x in c['expect'])]
    limit = int(os.environ.get('OXA_MUTANTS', limit or 6))
    mine = mine[:limit]
    if not mine:
        return r
    scratch = tempfile.mkdtemp(prefix='oxa-adequacy-', dir='/tmp')
    repo = os.path.join(scratch, 'repo')
    evid = os.path.join(scratch, 'evidence')
    caught = missed = skipped = 0
    try:
        for c in mine:
            if os.path.exists(repo):
                shutil.rmtree(repo)
            subprocess.run(['rsync', '-a', '--exclude', 'target', '--exclude', '.git', extract.REPO + '/', repo + '/'])
            subprocess.run(['git', 'init', '-q'], cwd=repo)
            ok_apply = True
            if c.get('patch'):
                if subprocess.run(['git', 'apply', c['patch']], cwd=repo, stdout=subprocess.PIPE, stderr=subprocess.STDOUT).returncode != 0:
                    ok_apply = False
            for (f, old, new) in c['edits']:
                pth = os.path.join(repo, f)
                s = open(pth).read()
                if s.count(old) != 1:
                    ok_apply = False
                    break
                open(pth, 'w').write(s.replace(old, new))
            if not ok_apply:
                skipped += 1
                r.notes.append('mutant %s does not apply to the current tree (skipped)' % c['name'])
                continue
            env = dict(os.environ, OXA_REPO=repo, OXA_EVIDENCE_DIR=evid, CARGO_NET_OFFLINE='true', VERIF_TIER='quick')
            p = subprocess.run([os.path.join(VERIF, 'check'), prop, '--tier', 'quick'], env=env, cwd=VERIF,
                               stdout=subprocess.PIPE, stderr=subprocess.STDOUT, text=True)
            if 'cargo check under mirfacts failed' in p.stdout:
                skipped += 1
                r.notes.append('mutant %s does not compile on the current tree (skipped)' % c['name'])
                continue
            fired = set(re.findall(r'^  (C\d\d\.[\w-]+): ', p.stdout, re.M))
            exp = {x for x in c['expect'] if x.startswith(prop + '.')}
            ok = exp <= fired
            caught += ok
            missed += (not ok)
            r.inst('mutant %s: expected %s, fired %s' % (c['name'], sorted(exp), sorted(fired)), ok=ok)
            if not ok:
                print('  WARNING: checker weakness: mutant %s not caught by %s' % (c['name'], prop))
    finally:
        shutil.rmtree(scratch, ignore_errors=True)
    r.notes.append('mutants caught %d, missed %d, skipped %d' % (caught, missed, skipped))
    return r


def run(ctx, prop, mod):
    out = []
    if prop in WITNESS_PROPS:
        out.append(run_witness(prop))
    if os.environ.get('OXA_REPO') is None and os.environ.get('OXA_NO_MUTANTS') is None:
        out.append(run_mutants(prop))
    if hasattr(mod, 'run_thorough'):
        out += mod.run_thorough(ctx)
    return out
