"""Rule infrastructure: context (facts + vocabulary discovered from the facts), violations, results."""
import re

from .engine import Fn, walk, fmt_terms, strip_clone, short
from .facts import Facts

PLANNER_TRAIT = 'base::planner::Planner'
IS_VALID = 'base::validity::StateValidityChecker::is_valid'
IS_SATISFIED = 'base::goal::Goal::is_satisfied'
SAMPLE_GOAL = 'base::goal::GoalSampleableRegion::sample_goal'
DISTANCE_GOAL = 'base::goal::GoalRegion::distance_goal'
SS = 'base::space::StateSpace::'
SAMPLE_UNIFORM = SS + 'sample_uniform'
DISTANCE = SS + 'distance'
INTERPOLATE = SS + 'interpolate'
LVS = SS + 'get_longest_valid_segment_length'
VEC_PUSH = 'std::vec::Vec::<T, A>::push'
VEC_CLEAR = 'std::vec::Vec::<T, A>::clear'
VEC_LEN = 'std::vec::Vec::<T, A>::len'


class Violation:
    def __init__(self, prop, rule, fn, what, msg, loc=None, ordinal=0, detail=None):
        self.prop = prop
        self.rule = rule
        self.fn = fn
        self.what = what
        self.msg = msg
        self.loc = loc
        self.ordinal = ordinal
        self.detail = detail or {}

    @property
    def key(self):
        return '%s|%s|%s|%d' % (self.rule, self.fn, self.what, self.ordinal)

    def to_json(self):
        return {'property': self.prop, 'rule': self.rule, 'function': self.fn, 'what': self.what,
                'ordinal': self.ordinal, 'key': self.key, 'message': self.msg, 'location': self.loc,
                'detail': self.detail}


class RuleResult:
    """one rule's outcome: instances (obligations), violations, samples"""

    def __init__(self, rule, clause):
        self.rule = rule
        self.clause = clause
        self.instances = []      # list of dict(desc=..., ok=bool, nontrivial=bool)
        self.violations = []
        self.notes = []
        self.floor = None        # (what, minimum, actual)

    def inst(self, desc, ok=True, nontrivial=True, **extra):
        d = {'rule': self.rule, 'desc': desc, 'ok': ok, 'nontrivial': nontrivial}
        if ': undecided' in desc:
            d['undecided'] = True       # neither discharged nor violated (normal-form rules only); never an alarm
        d.update(extra)
        self.instances.append(d)
        return d


class Ctx:
    def __init__(self, facts_dir, _derived=None):
        self._fn = {}
        self._callgraph = {}
        self.inlined_helpers = []        # paths of helpers inlined into their callers in this view
        self._removed = {}               # path -> impl_adt of the removed helper bodies (their closures stay)
        if _derived is None:
            self.facts = Facts(facts_dir)
            self.core = self.facts.crate('oxmpl')
            self.py = self.facts.crate('oxmpl_py')
            self.js = self.facts.crate('oxmpl_js')
        else:
            base, core2, removed = _derived
            self.facts = base.facts
            self.core = core2
            self.py = base.py
            self.js = base.js
            self._removed = removed
            self.inlined_helpers = sorted(removed)
            if hasattr(base, 'tier'):
                self.tier = base.tier
        from . import planner as _planner
        _planner.set_ctx(self)

    # ------------------------------------------------------------------ second view: private helpers inlined
    def inline_policy(self):
        """paths of the private helper functions of the core crate that the second view analyses in the context of
        their callers (inlined) instead of on their own.  Kept as functions (the vocabulary the rules summarise):
        motion checkers, path extractors, cost functions, pure neighbour providers, index-returning push helpers."""
        from . import planner as P
        mcs = {m.path for m in self.motion_checkers()}
        planners = self.planners()
        node_tys = {c['node'] for p in planners for c in p['containers'].values()}
        owner = {}
        for p in planners:
            for m in p['methods']:
                owner[m.path] = p
        # functions used as values (fn items) are not inlined: not every use is a direct call
        as_value = set()
        for b in self.lib_bodies():
            for blk in b.blocks:
                for st in blk['stmts']:
                    if st['k'] != 'assign':
                        continue
                    for o in _operands(st['rv']):
                        if 'const' in o and 'fn' in o['const']:
                            as_value.add(o['const']['fn']['path'])
                t = blk['term']
                if t['k'] == 'call':
                    for o in t['args']:
                        if 'const' in o and 'fn' in o['const']:
                            as_value.add(o['const']['fn']['path'])
        out = []
        self._inline_keep = set()
        for b in self.lib_bodies():
            if b.kind in ('Fn', 'AssocFn') and b.is_pub and not b.impl_trait and b.name != 'new' and b.path not in as_value and \
                    b.path not in owner and len(b.blocks) <= 40 and \
                    (b.path.startswith(('base::states::', 'base::spaces::')) or b.j.get('impl_adt') in node_tys) and \
                    not any(b.local_ty(i).startswith('&mut ') for i in range(1, b.arg_count + 1)) and \
                    b.path not in self.local_callees(b):
                # a small public helper of a state / space type (`normalised_value`, `dot`, `norm`, `center`): its callers are
                # analysed with its body in place; the function itself stays (it is public API with obligations of its own)
                out.append(b.path)
                self._inline_keep.add(b.path)
                continue
            if b.kind == 'AssocFn' and b.is_pub and not b.impl_trait and b.path in owner and b.arg_count == 1 and len(b.blocks) <= 4 and \
                    b.local_ty(1).startswith('&') and not b.local_ty(1).startswith('&mut ') and b.path not in as_value and \
                    all((t['func'].get('path') or '').rsplit('::', 1)[-1] in ('len', 'is_empty', 'deref', 'clone', 'as_ref', 'as_slice', 'capacity')
                        for _bi, t in b.calls()):
                # a read-only public accessor of a planner (`tree_size()`, `milestone_count()`): reading it is reading the field
                out.append(b.path)
                self._inline_keep.add(b.path)
                continue
            if b.kind not in ('Fn', 'AssocFn') or b.is_pub or b.impl_trait or b.name == 'new' or b.path in mcs or \
                    b.path in as_value or len(b.blocks) > 400:
                continue
            ret = b.j.get('ret_ty', '')
            if ret.startswith('base::planner::Path<') and self._walks(b) and b.path in owner:
                continue                                            # path extractor of a planner (walks the links itself or through a helper);
                                                                    # a free helper that returns the path is analysed inside the planner
                                                                    # method that hands it the tree (it is inlined there)
            ptys = [b.local_ty(i) for i in range(1, b.arg_count + 1)]
            if ret == 'f64' and any(nt in t for nt in node_tys for t in ptys):
                continue                                            # cost function
            if b.path in self.local_callees(b):
                continue                                            # recursive
            p = owner.get(b.path)
            if p is not None:
                pushing = any(pu['body'] is b or pu['body'].path.startswith(b.path + '::{closure') for pu in P.pushes(self, p))
                if pushing and 'usize' in ret and (any(self.reaches_call(b, m) for m in mcs) or
                                                   self.reaches_call(b, 'base::validity::StateValidityChecker::is_valid')):
                    continue                                        # an extension step: checks the motion, pushes, returns the index
                                                                    # (a helper that only appends what its caller checked is inlined)
                if ret == 'std::vec::Vec<usize>' and not any(self.reaches_call(b, m) for m in mcs):
                    from .rules.c05 import neighbour_summary
                    try:
                        if neighbour_summary(self, p, self.fn(b)) is not None:
                            continue                                # pure neighbour provider (summarised by the rules)
                    except Exception:
                        pass
            out.append(b.path)
        return sorted(out)

    def _walks(self, b, depth=0):
        """the body (or a function of the crate it calls, transitively) contains a loop or a lazy walk (successors / from_fn / collect)"""
        if self.fn(b).loops() or any((t['func'].get('path') or '') in ('std::iter::successors', 'std::iter::from_fn', 'std::iter::Iterator::collect')
                                     for _bi, t in b.calls()):
            return True
        if depth >= 3:
            return False
        for pth in self.local_callees(b):
            cb = b.crate.body(pth)
            if cb is not None and cb is not b and cb.kind in ('Fn', 'AssocFn') and \
                    (not cb.j.get('ret_ty', '').startswith('base::planner::Path<') or cb.j.get('impl_adt') is None) and \
                    self._walks(cb, depth + 1):
                return True
        return False

    def binding_inline_policy(self, crate):
        """private free functions of a binding crate (helpers such as a shared result converter); methods of the exported
        classes are never inlined: the rules address them by name"""
        out = []
        if crate is None:
            return out
        # the adapter types (they implement the core's callback traits): their private inherent methods are helpers of the
        # adapters (`PyGoal::ask(method, state, fallback)`, `JsGoal::method(name)`), analysed inside the trait methods that call them
        adapters = {imp.get('self_adt') for imp in crate.impls
                    if any(w in (imp.get('trait') or '') for w in ('::goal::Goal', '::goal::GoalRegion', '::goal::GoalSampleableRegion',
                                                                     '::validity::StateValidityChecker'))}
        adapters.discard(None)
        for b in crate.bodies:
            helper_method = b.kind == 'AssocFn' and b.impl_trait is None and b.j.get('impl_adt') in adapters and b.name not in ('new',)
            if (b.kind != 'Fn' and not helper_method) or b.is_pub or b.in_test_mod() or len(b.blocks) > 200 or (b.name or '').startswith('__'):
                continue
            if b.path in self.local_callees(b):
                continue
            if b.span.get('mac'):
                continue            # macro generated (pyo3 / wasm-bindgen glue)
            out.append(b.path)
        return sorted(out)

    def _transform_crate(self, crate, paths, split_targets, used, desugar=True):
        """(new Crate | None if nothing changed | False if the inlining bound was hit)"""
        from .inline import inline_calls, desugar_adaptors
        from .facts import Crate
        done = {}

        def pick(cb):
            return cb.path in paths

        def resolved(b, depth=0):
            if b.path in done:
                return done[b.path]
            done[b.path] = b            # cycle guard
            nb = inline_calls(b, pick, crate, max_rounds=24, sub=lambda cb: resolved(cb, depth + 1) if depth < 4 else cb) if paths else b
            if desugar:
                nb2 = desugar_adaptors(nb, crate)
                if nb2 is not nb:
                    nb2.inlined_from = set(getattr(nb, 'inlined_from', set())) | set(getattr(nb2, 'inlined_from', set()))
                    nb = nb2
            if desugar:
                from .inline import unroll_array_fills
                nb6 = unroll_array_fills(nb)
                if nb6 is not nb:
                    nb = nb6
                from .iterx import expand_lazy_iterators
                nb5 = expand_lazy_iterators(nb, crate)
                if nb5 is not nb:
                    nb = nb5
                    # closure bodies brought in by the expansion may use adaptors themselves (`cond.then_some(i)`)
                    nb9 = desugar_adaptors(nb, crate)
                    if nb9 is not nb:
                        nb9.inlined_from = set(getattr(nb, 'inlined_from', set())) | set(getattr(nb9, 'inlined_from', set()))
                        nb = nb9
                # closure bodies brought in by the desugarings may call helpers of the policy themselves
                # (`(0..n).all(|i| within_tolerance(self.bounds[i], v[i]))`): one more inlining pass
                if paths and any(t['func'].get('path') in paths for _bi, t in nb.calls()):
                    nb10 = inline_calls(nb, pick, crate, max_rounds=24, sub=lambda cb: resolved(cb, depth + 1) if depth < 4 else cb)
                    if nb10 is not nb:
                        nb10.inlined_from = set(getattr(nb, 'inlined_from', set())) | set(getattr(nb10, 'inlined_from', set()))
                        nb = nb10
                from .inline import thread_jumps
                nb4 = thread_jumps(nb)
                if nb4 is not nb:
                    nb = nb4
            if b.path in split_targets:
                from .inline import split_decisions, split_literal_results
                # gates written as helpers returning Ok(()) / Err(X) and used with `?` (require_valid(..)?): each literal takes its arm
                nb8 = split_literal_results(nb, max_splits=6)
                if nb8 is not None:
                    nb8.inlined_from = set(getattr(nb, 'inlined_from', set())) | set(getattr(nb8, 'inlined_from', set()))
                    nb = nb8
                nb3 = split_decisions(nb)
                if nb3 is not nb:
                    nb = nb3
            elif split_targets and b.kind in ('Fn', 'AssocFn'):
                from .inline import split_literal_results
                nb7 = split_literal_results(nb)
                if nb7 is not None:
                    nb7.inlined_from = set(getattr(nb, 'inlined_from', set())) | set(getattr(nb7, 'inlined_from', set()))
                    nb = nb7
            done[b.path] = nb
            return nb
        bodies = []
        mine = set()
        keep = getattr(self, '_inline_keep', set()) if crate is self.core else set()
        for b in crate.bodies:
            if b.path in paths and not b.in_test_mod() and b.path not in keep:
                continue
            if b.in_test_mod():
                bodies.append(b.j)
                continue
            nb = resolved(b)
            if nb is not b:
                mine |= getattr(nb, 'inlined_from', set())
            bodies.append(nb.j)
        if not mine:
            return None
        used |= mine
        # closures consumed by a desugared adaptor are analysed in place only
        gone = {u for u in mine if not u.startswith(('decision-split:', 'jump-threading:', 'collect@', 'unroll@', 'then_some@')) and crate.body(u) is not None and crate.body(u).kind == 'Closure'}
        bodies = [bj for bj in bodies if bj['path'] not in gone]
        for bj in bodies:
            for blk in bj['blocks']:
                t = blk['term']
                if not blk['cleanup'] and t['k'] == 'call' and t['func'].get('path') in paths and t['func'].get('path') not in keep:
                    import os
                    if os.environ.get('OXA_DEBUG_VIEW'):
                        print('   [view dropped] %s still calls %s' % (bj['path'], t['func'].get('path')), file=__import__('sys').stderr)
                    return False        # inlining bound reached: the view would be incomplete, do not use it
        j2 = dict(crate.j)
        j2['bodies'] = bodies
        return Crate(j2)

    def inlined_view(self, split=False):
        """a derived context in which every helper of inline_policy() (core crate) and every private free function of the
        binding crates is inlined into its callers (bounded depth) and removed as a stand-alone body, the short-circuit
        iterator adaptors all/any are written as loops and (split=True) value selections at the top of a planner
        iteration are split into one copy of the iteration per arm.  None when nothing changes."""
        paths = set(self.inline_policy())
        used = set()
        # decision splitting applies to the planners' entry points (the iteration-level selections live there)
        split_targets = {m.path for p in self.planners() for m in p['entry']} if split else set()
        core2 = self._transform_crate(self.core, paths, split_targets, used)
        if core2 is False:
            return None
        py2 = js2 = None
        if self.py is not None:
            py2 = self._transform_crate(self.py, set(self.binding_inline_policy(self.py)), set(), used, desugar=False)
        if self.js is not None:
            js2 = self._transform_crate(self.js, set(self.binding_inline_policy(self.js)), set(), used, desugar=False)
        if py2 is False or js2 is False:
            return None
        if not used:
            return None
        removed = {p: self.core.body(p).j.get('impl_adt') for p in paths if p not in getattr(self, '_inline_keep', set())}
        c2 = Ctx(None, _derived=(self, core2 or self.core, removed))
        if py2:
            c2.py = py2
        if js2:
            c2.js = js2
        c2.inlined_used = sorted(used)
        return c2

    def fn(self, body):
        k = (body.crate.name, body.crate.is_test, body.path)
        if k not in self._fn:
            self._fn[k] = Fn(body)
        return self._fn[k]

    def fn_by_path(self, crate, path):
        b = crate.body(path)
        return self.fn(b) if b is not None else None

    # ------------------------------------------------------------------ vocabulary
    def lib_bodies(self, crate=None):
        crate = crate or self.core
        return [b for b in crate.bodies if not b.in_test_mod()]

    def planners(self):
        """list of dict(adt, fields, entry(list of Body), methods(list of Body), module)"""
        if hasattr(self, '_planners'):
            return self._planners
        out = []
        for imp in self.core.impls:
            if imp.get('trait') != PLANNER_TRAIT:
                continue
            adt = imp.get('self_adt')
            if adt is None or adt not in self.core.adts:
                continue
            fields = self.core.adts[adt]['variants'][0]['fields']
            methods = [b for b in self.lib_bodies() if b.j.get('impl_adt') == adt and b.kind == 'AssocFn']
            prefixes = [m.path for m in methods] + [hp for hp, hadt in self._removed.items() if hadt == adt]
            closures = [b for b in self.lib_bodies() if b.kind == 'Closure' and
                        any(b.path.startswith(mp + '::') for mp in prefixes)]
            entry = [b for b in methods if b.impl_trait == PLANNER_TRAIT or (b.impl_trait is None and b.is_pub)]
            module = adt.rsplit('::', 1)[0]
            # node containers: fields of type Vec<N> with N a struct of the same module that has a field of type S
            conts = {}
            for f in fields:
                m = re.match(r'^std::vec::Vec<(.+)>$', f['ty'])
                if not m:
                    continue
                nty = re.sub(r'<.*$', '', m.group(1))
                nadt = self.core.adts.get(nty)
                if nadt is None:
                    continue
                nfields = nadt['variants'][0]['fields']
                sf = [x for x in nfields if x['ty'] == 'S']
                if not sf:
                    continue
                conts[f['name']] = {'node': nty, 'state_field': sf[0]['name'],
                                    'links': [x['name'] for x in nfields if x['ty'] != 'S'],
                                    'link_tys': {x['name']: x['ty'] for x in nfields if x['ty'] != 'S'}}
            out.append({'adt': adt, 'name': adt.rsplit('::', 1)[1], 'fields': fields, 'methods': methods,
                        'closures': closures, 'entry': entry, 'module': module, 'containers': conts})
        out.sort(key=lambda p: p['adt'])
        self._planners = out
        return out

    def local_callees(self, body):
        """set of body paths in the same crate called (directly, or resolved) from `body`"""
        k = (body.crate.name, body.crate.is_test, body.path)
        if k in self._callgraph:
            return self._callgraph[k]
        out = set()
        for _bi, t in body.calls():
            f = t['func']
            if 'path' not in f:
                continue
            for p in (f['path'], f.get('resolved', {}).get('path')):
                if p and body.crate.body(p) is not None:
                    out.add(p)
        # closures created in the body
        for blk in body.blocks:
            if blk['cleanup']:
                continue
            for st in blk['stmts']:
                if st['k'] == 'assign' and st['rv']['k'] == 'agg' and st['rv'].get('agg') == 'closure':
                    if body.crate.body(st['rv']['closure']) is not None:
                        out.add(st['rv']['closure'])
        self._callgraph[k] = out
        return out

    def reaches_call(self, body, callee_path, depth=6, _seen=None):
        """does `body` (transitively, through local callees) contain a call to callee_path?"""
        _seen = _seen if _seen is not None else set()
        if body.path in _seen:
            return False
        _seen.add(body.path)
        for _bi, t in body.calls():
            if t['func'].get('path') == callee_path:
                return True
        if depth <= 0:
            return False
        for p in self.local_callees(body):
            b2 = body.crate.body(p)
            if b2 is not None and self.reaches_call(b2, callee_path, depth - 1, _seen):
                return True
        return False

    def trait_impl_bodies(self, crate, trait_path, name):
        return [b for b in crate.bodies if b.impl_trait == trait_path and b.name == name and not b.in_test_mod()]

    def callees_resolved(self, body):
        """local callee bodies of `body`: direct calls, resolved calls, closures, and for unresolved
        trait-method calls every in-crate impl of that method (A5)."""
        out = []
        seen = set()
        crate = body.crate
        for p in self.local_callees(body):
            b2 = crate.body(p)
            if b2 is not None and b2.path not in seen:
                seen.add(b2.path)
                out.append(b2)
        for _bi, t in body.calls():
            f = t['func']
            tr = f.get('trait')
            if tr and 'resolved' not in f:
                for b2 in self.trait_impl_bodies(crate, tr, f.get('name')):
                    if b2.path not in seen:
                        seen.add(b2.path)
                        out.append(b2)
        return out

    def reach_set(self, entries):
        """bodies reachable from the entry bodies through callees_resolved (entries included)"""
        seen = {}
        st = list(entries)
        while st:
            b = st.pop()
            if b.path in seen:
                continue
            seen[b.path] = b
            for b2 in self.callees_resolved(b):
                if b2.path not in seen:
                    st.append(b2)
        return list(seen.values())

    def motion_checkers(self):
        """bool functions of the core crate (outside trait impls of the checker itself) with at
        least two `&S` parameters that reach a validity query"""
        if hasattr(self, '_mc'):
            return self._mc
        out = []
        for b in self.lib_bodies():
            if b.kind != 'AssocFn' and b.kind != 'Fn':
                continue
            if b.j.get('ret_ty') != 'bool':
                continue
            n_state = sum(1 for i in range(1, b.arg_count + 1) if b.local_ty(i) in ('&S', "&'_ S"))
            if n_state < 2:
                continue
            if self.reaches_call(b, IS_VALID):
                out.append(b)
        self._mc = out
        return out


def _operands(rv):
    k = rv['k']
    if k in ('use', 'cast', 'repeat'):
        return [rv['op']]
    if k == 'binop':
        return [rv['a'], rv['b']]
    if k == 'unop':
        return [rv['a']]
    if k == 'agg':
        return list(rv['fields'])
    return []


def callee_path(t):
    return t['func'].get('path')


def is_call(t, path):
    return t['k'] == 'call' and t['func'].get('path') == path


def user_call(body, bi):
    """a call terminator that is not part of a macro expansion (println!, assert!, format_args!)"""
    sp = body.blocks[bi]['tspan']
    return not [m for m in sp.get('mac', []) if m != '?']
