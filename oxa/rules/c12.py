"""C12 — constructors accept only well-formed bounds and canonicalise states.

Decides: what a constructor *stores* is what it *validated* (C12.stored), the validation rejects the
unordered/NaN case (C12.nan), length checks exist and map to DimensionMismatch (C12.count), component
constructor errors propagate (C12.propagate), SE2State::new delegates canonicalisation (C12.canon).
The ordering facts are evaluated abstractly over {lt, eq, gt, unordered} (A7).
"""
import re

from ..core import RuleResult, Violation
from ..engine import fmt_terms, strip_clone, walk, T

META = {
    'explanation': 'C12: for every fallible state-space constructor, the value stored in the bounds field is traced '
                   'to its origin and compared with the operands of the ordering tests that dominate the Ok return; '
                   'the accept relation is tabulated over {<,=,>,unordered} so a NaN-accepting guard or a '
                   'check-then-transform is reported. Length gates, ?-propagation and SO2 delegation are structural. '
                   'Angle-wrapping / quaternion arithmetic is not decided.',
    'assumptions': ['f64::min/max ignore a NaN operand (documented IEEE minNum/maxNum behaviour)',
                    'bounds fields are written only by the constructors (pub fields mutated by users are out of scope)'],
}

STATE_SPACE = 'base::space::StateSpace'
ALL = frozenset(['lt', 'eq', 'gt', 'un'])
REL = {
    ('Lt', True): {'lt'}, ('Lt', False): {'eq', 'gt', 'un'},
    ('Le', True): {'lt', 'eq'}, ('Le', False): {'gt', 'un'},
    ('Gt', True): {'gt'}, ('Gt', False): {'lt', 'eq', 'un'},
    ('Ge', True): {'gt', 'eq'}, ('Ge', False): {'lt', 'un'},
    ('Eq', True): {'eq'}, ('Eq', False): {'lt', 'gt', 'un'},
    ('Ne', True): {'lt', 'gt', 'un'}, ('Ne', False): {'eq'},
}
FLIP = {'lt': 'gt', 'gt': 'lt', 'eq': 'eq', 'un': 'un'}


def space_adts(ctx):
    return sorted({imp['self_adt'] for imp in ctx.core.impls
                   if imp.get('trait') == STATE_SPACE and imp.get('self_adt')})


def cmp_facts(fn, target_block, _depth=0):
    """ordering facts known on every path to target_block:
    list of (A terms, B terms, relation set) from comparison switches whose one edge dominates target.
    A switch on a flag `let f = a && b` (reaching definitions: the literal false and the comparison b) gives, on its true
    edge, b and whatever was known where b was evaluated (dually for `a || b` on the false edge)."""
    facts = []
    reach = fn.reachable(0)
    for b in range(fn.nb):
        if b not in reach or fn.blocks[b]['cleanup']:
            continue
        si = fn.switch_info(b)
        if si is None:
            continue
        terms, tmap, other = si
        only = None
        if len(terms) > 1:
            lits = [t for t in terms if t[0] == 'const' and t[1] in ('true', 'false')]
            rest = [t for t in terms if t not in lits]
            if len(rest) != 1 or len({t[1] for t in lits}) != 1:
                continue
            only = lits[0][1] == 'false'          # the edge on which the flag cannot be the literal
            terms = frozenset(rest)
            if fn.flag_info(b) is None and not _flag_fresh(fn, b):
                continue
        if len(terms) != 1:
            continue
        n = next(iter(terms))
        neg = False
        while n[0] == 'unop' and n[1] == 'Not' and len(n[2]) == 1:
            n = next(iter(n[2]))
            neg = not neg
        is_cmp = n[0] == 'binop' and n[1] in ('Lt', 'Le', 'Gt', 'Ge', 'Eq', 'Ne')
        if not is_cmp and only is None:
            continue
        if set(tmap.keys()) == {'0'}:
            f_t, t_t = tmap['0'], other
        elif set(tmap.keys()) == {'1'}:
            t_t, f_t = tmap['1'], other
        else:
            continue
        if t_t == f_t:
            continue
        for val, edge_t in ((True, t_t), (False, f_t)):
            if only is not None and val != only:
                continue
            if target_block not in fn.reachable(0, removed=frozenset([(b, edge_t)])):
                if is_cmp:
                    facts.append((n[2], n[3], set(REL[(n[1], val != neg)]), b))
                if only is not None and _depth < 3:
                    fi = fn.flag_info(b)
                    d = fi[1] if fi is not None else _flag_def_block(fn, b)
                    if d is not None:
                        facts += [(x, y, r, b) for (x, y, r, _b) in cmp_facts(fn, d, _depth + 1)]
    return facts


def _flag_root(fn, b):
    """the local holding the flag switched on in block b, plain copies followed (`_9 = _5; switch(move _9)`)"""
    t = fn.blocks[b]['term']
    pl = t['discr'].get('move') or t['discr'].get('copy')
    if pl is None or pl['p']:
        return None
    l, seen = pl['l'], set()
    for _ in range(4):
        defs = [st for blk in fn.blocks if not blk['cleanup'] for st in blk['stmts']
                if st['k'] == 'assign' and st['place']['l'] == l]
        if len(defs) == 1 and not defs[0]['place']['p'] and defs[0]['rv']['k'] == 'use':
            src = defs[0]['rv']['op'].get('move') or defs[0]['rv']['op'].get('copy')
            if src is not None and not src['p'] and src['l'] not in seen:
                seen.add(l)
                l = src['l']
                continue
        return l
    return None


def _flag_fresh(fn, b):
    """the flag switched on in block b is assigned afresh on every way round to b (a flag set in an earlier loop
    iteration would speak about that iteration's values)"""
    l = _flag_root(fn, b)
    if l is None:
        return False
    defs = frozenset(bi for bi, blk in enumerate(fn.blocks) if not blk['cleanup'] for st in blk['stmts']
                     if st['k'] == 'assign' and st['place']['l'] == l)
    if b in defs:
        return False
    for s0 in fn.succs(b):
        if s0 in defs:
            continue
        if b in fn.reachable(s0, stop=defs):
            return False
    return True


def _flag_def_block(fn, b):
    """the block holding the only non-literal definition of the flag switched on in block b"""
    l = _flag_root(fn, b)
    if l is None:
        return None
    defs = [(bi, st) for bi, blk in enumerate(fn.blocks) if not blk['cleanup'] for st in blk['stmts']
            if st['k'] == 'assign' and st['place'] == {'l': l, 'p': []}]
    nonlit = [(bi, st) for bi, st in defs if not (st['rv']['k'] == 'use' and 'const' in st['rv']['op'])]
    if len(nonlit) != 1:
        return None
    bi, st = nonlit[0]
    return bi if st['rv']['k'] == 'binop' else None


def loop_elem_facts(fn, target_block):
    """facts of the form 'for every element E of an iterator-bounded loop over X: rel(E.a, E.b) in R',
    valid at target_block: the loop header dominates target, and inside the loop the accepting edge of the
    comparison dominates every back edge.  Returns list of (A terms, B terms, rel set, loop header)."""
    out = []
    dom = fn.dominators()
    for L in fn.loops():
        h = L['header']
        if target_block in L['body'] or h not in dom.get(target_block, ()):
            continue
        # the target must only be reachable from the loop through its normal exits (iterator exhaustion: the None edge of
        # a switch on the discriminant of next()); an early exit (`break`, `return`) that can still reach the target would
        # mean "some prefix of the elements was tested"
        early_reaches = False
        for (src, dst) in L['exits']:
            si0 = fn.switch_info(src)
            normal = si0 is not None and si0[0] and all(x[0] == 'discr' and any(
                m[0] == 'call' and m[1] == 'std::iter::Iterator::next' for m in x[1]) for x in si0[0])
            if not normal and target_block in fn.reachable(dst):
                early_reaches = True
        if early_reaches:
            continue
        for b in L['body']:
            si = fn.switch_info(b)
            if si is None:
                continue
            terms, tmap, other = si
            if len(terms) != 1:
                continue
            n = next(iter(terms))
            neg = False
            while n[0] == 'unop' and n[1] == 'Not' and len(n[2]) == 1:
                n = next(iter(n[2]))
                neg = not neg
            if n[0] != 'binop' or n[1] not in ('Lt', 'Le', 'Gt', 'Ge', 'Eq', 'Ne'):
                continue
            if set(tmap.keys()) == {'0'}:
                f_t, t_t = tmap['0'], other
            elif set(tmap.keys()) == {'1'}:
                t_t, f_t = tmap['1'], other
            else:
                continue
            if neg:
                t_t, f_t = f_t, t_t
            for val, edge_t in ((True, t_t), (False, f_t)):
                # removing this edge: can we still get from the header around the loop back to the header?
                removed = frozenset([(b, edge_t)])
                ok = True
                for (src, dst) in L['back_edges']:
                    if (src, dst) in removed:
                        continue        # the accepting edge is itself the back edge (`if !ok { break }` as the last test)
                    # is src reachable from header inside the loop without the edge?
                    r = fn.reachable(h, removed=removed, stop=frozenset(x for x in range(fn.nb) if x not in L['body']))
                    if src in r:
                        ok = False
                if ok and b in fn.reachable(h):
                    out.append((n[2], n[3], set(REL[(n[1], val)]), h))
    return out


def same(a, b):
    return strip_clone(a) == strip_clone(b)


def non_nan_facts(fn, target_block):
    """term sets known not to be NaN on every path to target_block: the false edge of is_nan(x) or the true edge of
    is_finite(x) dominates it"""
    out = []
    for pred, want_true in (('is_nan', False), ('is_finite', True)):
        te, fe, sbs = fn.bool_edges(lambda n, pred=pred: n[0] == 'call' and n[1].endswith('<impl f64>::' + pred))
        for sb in sbs:
            si = fn.switch_info(sb)
            if si is None:
                continue
            for n in si[0]:
                m = n
                while m[0] == 'unop':
                    m = next(iter(m[2]))
                if m[0] != 'call' or not m[2]:
                    continue            # the literal of a materialised flag (`a && x.is_finite()`)
                edges = [e for e in (te if want_true else fe) if e[0] == sb]
                if edges and target_block not in fn.reachable(0, removed=frozenset(edges)):
                    out.append(m[2][0])
    return out


def relation_for(facts, lo, hi, non_nan=()):
    """intersect all facts about the ordered pair (lo, hi)"""
    rel = set(ALL)
    used = False
    if any(same(x, lo) for x in non_nan) and any(same(x, hi) for x in non_nan):
        rel.discard('un')
    for (a, b, r, _blk) in facts:
        if same(a, lo) and same(b, hi):
            rel &= r
            used = True
        elif same(a, hi) and same(b, lo):
            rel &= {FLIP[x] for x in r}
            used = True
    return rel, used


def const_float(ts):
    """numeric value if the term set is a single float constant (or Neg of one / named constant)"""
    if len(ts) != 1:
        return None
    n = next(iter(ts))
    if n[0] == 'const':
        s = n[1]
        if s.endswith('f'):
            try:
                return float(s[:-1])
            except ValueError:
                return None
        m = {'path:std::f64::consts::PI': 3.141592653589793, 'path:core::f64::consts::PI': 3.141592653589793,
             'path:std::f64::INFINITY': float('inf'), 'path:core::f64::INFINITY': float('inf'),
             'path:std::f64::NEG_INFINITY': float('-inf'), 'path:core::f64::NEG_INFINITY': float('-inf'),
             'path:core::f64::<impl f64>::INFINITY': float('inf'),
             'path:core::f64::<impl f64>::NEG_INFINITY': float('-inf'),
             'path:std::f64::MIN_POSITIVE': 2.2250738585072014e-308, 'path:core::f64::<impl f64>::MIN_POSITIVE': 2.2250738585072014e-308,
             'path:std::f64::EPSILON': 2.220446049250313e-16, 'path:core::f64::<impl f64>::EPSILON': 2.220446049250313e-16,
             'path:std::f64::MAX': 1.7976931348623157e308, 'path:core::f64::<impl f64>::MAX': 1.7976931348623157e308}
        return m.get(s)
    if n[0] == 'unop' and n[1] == 'Neg':
        v = const_float(n[2])
        return -v if v is not None else None
    return None


def find_ok_aggs(fn):
    """(block, stmt index, self-aggregate node) for every `Ok(Self{..})` the function can return"""
    out = []
    for rb in fn.return_blocks():
        for n in fn.local_terms(0, (rb, fn.nstmts(rb))):
            if n[0] == 'agg' and n[2] == 'Ok':
                for m in n[3][0][1]:
                    out.append(m)
    return out


def ok_blocks(fn):
    """blocks containing an assignment `_0 = Result::Ok{..}`"""
    out = []
    for bi, blk in enumerate(fn.blocks):
        if blk['cleanup']:
            continue
        for si, st in enumerate(blk['stmts']):
            if st['k'] == 'assign' and st['place']['l'] == 0 and not st['place']['p'] and \
                    st['rv']['k'] == 'agg' and st['rv'].get('variant_name') == 'Ok':
                out.append((bi, si, st))
    return out


NN = [[]]


def loop_non_nan(fn, target_block):
    """per-element non-NaN facts: inside a loop whose header dominates target, the continuing edge of is_nan(E.k)
    is the false edge (every element passed `!is_nan`)"""
    out = []
    dom = fn.dominators()
    for L in fn.loops():
        h = L['header']
        if target_block in L['body'] or h not in dom.get(target_block, ()):
            continue
        outside = frozenset(x for x in range(fn.nb) if x not in L['body'])
        for pred, want_true in (('is_nan', False), ('is_finite', True)):
            te, fe, sbs = fn.bool_edges(lambda n, pred=pred: n[0] == 'call' and n[1].endswith('<impl f64>::' + pred))
            for sb in sbs:
                if sb not in L['body']:
                    continue
                bad = [e for e in (fe if want_true else te) if e[0] == sb]     # edges on which x may be NaN
                good = [e for e in (te if want_true else fe) if e[0] == sb]
                # every back edge needs the good edge: removing it disconnects header -> back-edge sources
                r = fn.reachable(h, removed=frozenset(good), stop=outside)
                if any(src in r for (src, _d) in L['back_edges']):
                    continue
                si = fn.switch_info(sb)
                for n in si[0]:
                    m = n
                    while m[0] == 'unop':
                        m = next(iter(m[2]))
                    if m[0] != 'call' or not m[2]:
                        continue
                    out.append(m[2][0])
    return out


def run(ctx, tier):
    r_st = RuleResult('C12.stored', 'the value stored in a bounds field is the value the ordering test was made on')
    r_nan = RuleResult('C12.nan', 'the accept branch is taken only for lo < hi (NaN-rejecting) / radius >= 0')
    r_cnt = RuleResult('C12.count', 'a length test dominates the accept path and maps to DimensionMismatch')
    r_prop = RuleResult('C12.propagate', 'component constructor errors are propagated, never unwrapped')
    r_can = RuleResult('C12.canon', 'SE2State::new canonicalises its angle through SO2State::new')
    r_cen = RuleResult('C12.centre', 'the centre a rotation-cone constructor stores is a unit quaternion by construction (normalised, or a unit literal)')
    n_cen = [0]

    spaces = space_adts(ctx)
    ctors = []
    for adt in spaces:
        for b in ctx.lib_bodies():
            if b.j.get('impl_adt') == adt and b.impl_trait is None and b.kind == 'AssocFn' and \
                    b.j.get('ret_ty', '').startswith('std::result::Result<') and b.is_pub:
                ctors.append((adt, b))
    if len(ctors) < 5:
        r_st.violations.append(Violation('C12', 'C12.stored', 'oxmpl', 'floor',
                                         'only %d fallible space constructors found (floor 5)' % len(ctors)))
    for adt, b in ctors:
        fn = ctx.fn(b)
        fields = {f['name']: f['ty'] for f in ctx.core.adts[adt]['variants'][0]['fields']}
        oks = ok_blocks(fn)
        if not oks:
            # a delegating constructor: the result is, on every path, the unchanged result of another fallible constructor of
            # the same type (which is checked in its own right)
            rt = set()
            for rb in fn.return_blocks():
                rt |= fn.local_terms(0, (rb, fn.nstmts(rb)))
            ctor_paths = {cb.path for (a2, cb) in ctors if a2 == adt and cb is not b}
            if rt and all(n[0] == 'call' and n[1] in ctor_paths for n in rt):
                r_st.inst('%s delegates to %s' % (b.path, sorted({n[1].rsplit('::', 1)[1] for n in rt})), ok=True, nontrivial=False, site=b.loc(0))
                continue
            r_st.violations.append(Violation('C12', 'C12.stored', b.path, 'no-ok', 'constructor has no Ok return (unrecognised shape)', loc=b.loc(0)))
            continue
        for oi, (ob, osi, ost) in enumerate(oks):
            # the Ok payload, with its reaching definitions kept apart (one per match arm / branch)
            for (sb, ssi, sval) in fn.split_defs(ost['rv']['fields'][0], (ob, osi)):
                for sagg in sval:
                    if sagg[0] != 'agg' or sagg[1] != adt:
                        continue
                    # locate the aggregate statement to split each field operand
                    agg_st = None
                    # (the literal may have been built by an inlined private constructor and moved here: follow single moves)
                    for _hop in range(8):
                        if ssi >= fn.nstmts(sb):
                            break
                        st2 = fn.blocks[sb]['stmts'][ssi]
                        if st2['k'] == 'assign' and st2['rv']['k'] == 'agg' and st2['rv'].get('adt') == adt:
                            agg_st = st2
                            break
                        src = (st2['rv']['op'].get('move') or st2['rv']['op'].get('copy')) if st2['k'] == 'assign' and st2['rv']['k'] == 'use' else None
                        if src is None or src['p']:
                            break
                        evs, entry = fn.reaching(src['l'], (sb, ssi), (), True, whole_only=True)
                        if entry or len(evs) != 1 or evs[0].kind != 'assign':
                            break
                        sb, ssi = evs[0].block, evs[0].idx
                    if agg_st is None:
                        r_st.violations.append(Violation('C12', 'C12.stored', b.path, 'agg', 'cannot locate the Self{..} literal (unrecognised shape)', loc=b.loc(0)))
                        continue
                    names = agg_st['rv']['field_names']
                    for fi, fop in enumerate(agg_st['rv']['fields']):
                        fname = names[fi]
                        fty = fields.get(fname, '')
                        for (db, di, fterms) in fn.split_defs(fop, (sb, ssi)):
                            facts = cmp_facts(fn, db) + loop_elem_facts(fn, db)
                            NN[0] = non_nan_facts(fn, db) + loop_non_nan(fn, db)
                            if fty == '(f64, f64)':
                                # facts may also be attached to the blocks where lo / hi were computed
                                lo = fn._field(fterms, '0')
                                hi = fn._field(fterms, '1')
                                _check_interval(b, fn, facts, lo, hi, fname, r_st, r_nan, oi)
                            elif fty == 'std::vec::Vec<(f64, f64)>':
                                _check_interval_vec(b, fn, facts, fterms, fname, r_st, r_nan, oi)
                            elif re.match(r'^\(.*State, f64\)$', fty):
                                rad = fn._field(fterms, '1')
                                _check_radius(b, fn, facts, rad, fname, r_st, r_nan, oi)
                                n_cen[0] += 1
                                _check_centre(ctx, b, fn, fn._field(fterms, '0'), fname, r_cen, oi)

        # ---- C12.count: parameters of type Option<Vec<..>> / Vec<..> need a length gate
        for pi in range(1, b.arg_count + 1):
            pty = b.local_ty(pi)
            if 'std::vec::Vec<(f64, f64)>' not in pty:
                continue
            _check_count(ctx, b, fn, pi, r_cnt)

        # ---- C12.propagate
        for bi, t in b.calls():
            d = t['dest']
            if d['p']:
                continue
            dty = b.local_ty(d['l'])
            if not (dty.startswith('std::result::Result<') and 'StateSpaceError' in dty):
                continue
            callee = t['func'].get('path', '')
            if callee in ('std::ops::Try::branch', 'std::ops::FromResidual::from_residual') or \
                    callee.startswith('std::result::Result::<T, E>::'):
                continue
            # how is the result consumed?
            uses = []
            for bj, t2 in b.calls():
                for a in t2['args']:
                    pl = a.get('move') or a.get('copy')
                    if pl is not None and pl['l'] == d['l']:
                        uses.append((bj, t2['func'].get('path', 'indirect')))
            bad = [u for u in uses if u[1] not in ('std::ops::Try::branch',)]
            ok = not bad
            r_prop.inst('%s: result of %s is propagated (%s)' % (b.path, callee, [u[1] for u in uses] or 'returned/matched'),
                        ok=ok, site=b.loc(bi))
            for o, (bj, u) in enumerate(bad):
                r_prop.violations.append(Violation(
                    'C12', 'C12.propagate', b.path, callee,
                    'error of component constructor %s is consumed by %s instead of being propagated' % (callee, u),
                    loc=b.loc(bj), ordinal=o))

    # ---- C12.canon
    n_can = 0
    for b in ctx.lib_bodies():
        if b.kind != 'AssocFn' or b.impl_trait is not None or b.name != 'new':
            continue
        adt = b.j.get('impl_adt') or ''
        if not adt.startswith('base::states::'):
            continue
        fn = ctx.fn(b)
        # any parameter named like an angle that is f64 and the state embeds an SO2State
        so2_aggs = []
        for bi, blk in enumerate(b.blocks):
            if blk['cleanup']:
                continue
            for si, st in enumerate(blk['stmts']):
                if st['k'] == 'assign' and st['rv']['k'] == 'agg' and st['rv'].get('adt') == 'base::states::so2_state::SO2State':
                    so2_aggs.append((bi, si))
        so2_calls = [(bi, t) for bi, t in b.calls() if t['func'].get('path') == 'base::states::so2_state::SO2State::new']
        if adt == 'base::states::so2_state::SO2State':
            continue
        if so2_aggs or so2_calls:
            n_can += 1
            ok = not so2_aggs and all(
                all(n[0] == 'param' for n in fn.arg_terms(t, 0, bi)) for bi, t in so2_calls)
            r_can.inst('%s builds its SO2 component via SO2State::new(<param>)' % b.path, ok=ok, site=b.loc(0))
            if not ok:
                r_can.violations.append(Violation(
                    'C12', 'C12.canon', b.path, 'SO2State',
                    'state constructor builds its angle component without delegating to SO2State::new on the raw parameter',
                    loc=b.loc(0)))
    if n_can < 1:
        r_can.violations.append(Violation('C12', 'C12.canon', 'oxmpl', 'floor', 'no state constructor embedding an SO2 component found (floor 1)'))
    # ---- C12.range: the SO(2) state constructor stores an angle in [-pi, pi] (interval abstract interpretation)
    import math
    from ..interval import Interp
    r_rng = RuleResult('C12.range', 'SO2State::new stores an angle in [-pi, pi], never NaN, for every finite input')
    it = Interp(ctx, ctx.core)
    nr = 0
    for b in ctx.lib_bodies():
        if b.kind == 'AssocFn' and b.impl_trait is None and b.name == 'new' and (b.j.get('impl_adt') or '').endswith('so2_state::SO2State'):
            nr += 1
            res = {k: v for k, v in it.analyze(b).items() if k[0] == 'ret' and len(k) > 1}
            ok = bool(res) and all(v.within(-math.pi * (1 + 1e-15), math.pi * (1 + 1e-15)) for v in res.values())
            r_rng.inst('%s stores %s' % (b.path, {k[1]: str(v) for k, v in res.items()}), ok=ok, site=b.loc(0))
            if not ok:
                r_rng.violations.append(Violation('C12', 'C12.range', b.path, 'angle-range',
                                                  'the stored angle is not confined to [-pi, pi] / may be NaN: %s' % {k[1]: str(v) for k, v in res.items()}, loc=b.loc(0)))
    if nr < 1:
        r_rng.violations.append(Violation('C12', 'C12.range', 'oxmpl', 'floor', 'SO2State::new not found'))
    if n_cen[0] < 2:
        r_cen.violations.append(Violation('C12', 'C12.centre', 'oxmpl', 'floor', 'only %d stored cone centres found (floor 2: the given centre and the default)' % n_cen[0]))
    return [r_st, r_nan, r_cnt, r_prop, r_can, r_cen, r_rng, _sample_width(ctx), _unit_normalise(ctx), _congruent(ctx)]


def pred_facts(fn, target_block, pred, want_true):
    """term sets x for which `x.<pred>()` is known to be `want_true` on every path to target_block"""
    out = []
    te, fe, sbs = fn.bool_edges(lambda n: n[0] == 'call' and n[1].endswith('<impl f64>::' + pred))
    for sb in sbs:
        si = fn.switch_info(sb)
        if si is None:
            continue
        for n in si[0]:
            m = n
            while m[0] == 'unop':
                m = next(iter(m[2]))
            if m[0] != 'call' or not m[2]:
                continue
            edges = [e for e in (te if want_true else fe) if e[0] == sb]
            if edges and target_block not in fn.reachable(0, removed=frozenset(edges)):
                out.append(m[2][0])
    return out


def _sample_width(ctx):
    """C12.sample - rand's float ranges reject a width `hi - lo` that is not finite (`random_range(-1e308..1e308)` panics), so
    a space the constructor returned can be sampled without panicking only if every range it hands to the generator has a
    finite width: two constants, ends confined to [-pi, pi] by the constructor (interval spaces, C12.stored), or a test
    `(hi - lo).is_finite()` on these very ends dominating the draw."""
    import math
    from .c11 import _range_sites, space_methods
    r = RuleResult('C12.sample', 'every float range handed to random_range in sample_uniform has a finite width (rand panics on hi - lo = inf)')
    n_sites = 0
    for adt in space_adts(ctx):
        fields = {f['name']: f['ty'] for f in ctx.core.adts[adt]['variants'][0]['fields']}
        if 'bounds' not in fields:
            continue
        su = space_methods(ctx, adt).get('sample_uniform')
        if su is None:
            continue
        fn = ctx.fn(su)
        for o, (bi, _t, lo, hi, _inc) in enumerate(_range_sites(ctx, su)):
            n_sites += 1
            if lo is None or hi is None:
                continue        # reported by C11.range (unrecognised shape)
            clo, chi = const_float(lo), const_float(hi)
            if clo is not None and chi is not None:
                ok = math.isfinite(chi - clo)
                r.inst('%s: constant range %s..%s' % (su.path, clo, chi), ok=ok, nontrivial=False)
                why = 'the constant range has no finite width'
            elif fields['bounds'] == '(f64, f64)':
                ok = True
                r.inst('%s: ends are the stored interval, confined to [-pi, pi] by the constructor (C12.stored)' % su.path, ok=True, site=su.loc(bi))
            else:
                fin = pred_facts(fn, bi, 'is_finite', True)
                ok = False
                for x in fin:
                    x = strip_clone(x)
                    if len(x) == 1:
                        n = next(iter(x))
                        if n[0] == 'binop' and n[1] == 'Sub' and same(n[2], hi) and same(n[3], lo):
                            ok = True
                r.inst('%s: the draw at %s is dominated by (hi - lo).is_finite()' % (su.path, su.loc(bi)), ok=ok, site=su.loc(bi))
                why = ('random_range(%s..%s): both ends are tested to be finite, but not their difference: finite bounds whose width overflows '
                       '(-1e308..1e308) are accepted by the constructor and make the generator panic' % (fmt_terms(lo)[:50], fmt_terms(hi)[:50]))
            if not ok:
                r.violations.append(Violation('C12', 'C12.sample', su.path, 'width', why, loc=su.loc(bi), ordinal=o))
    if n_sites < 3:
        r.violations.append(Violation('C12', 'C12.sample', 'oxmpl', 'floor', 'only %d random_range draws found in sample_uniform of the primitive spaces (floor 3)' % n_sites))
    return r


F64 = '<impl f64>::'


def _sum_of_squares(ts, fields):
    """ts is a sum whose addends are the squares (powi(c, 2) or c * c) of `self.<f>` for exactly the given fields, once each"""
    todo = [ts]
    seen = []
    while todo:
        x = strip_clone(todo.pop())
        if len(x) != 1:
            return False
        n = next(iter(x))
        if n[0] == 'binop' and n[1] == 'Add':
            todo += [n[2], n[3]]
            continue
        base = None
        if n[0] == 'call' and n[1].endswith(F64 + 'powi') and len(n[2]) == 2 and n[2][1] == T(('const', '2')):
            base = strip_clone(n[2][0])
        elif n[0] == 'binop' and n[1] == 'Mul' and strip_clone(n[2]) == strip_clone(n[3]):
            base = strip_clone(n[2])
        if base is None or len(base) != 1:
            return False
        m = next(iter(base))
        if not (m[0] == 'field' and m[1] and all(q[0] == 'param' and q[1] == 1 for q in m[1])):
            return False
        seen.append(m[2])
    return sorted(seen) == sorted(fields)


def _is_norm(ctx, dn, flds, depth=0):
    """dn is sqrt(sum of the four squares of self), directly or as the result of a helper `fn norm(&self) -> f64` of the crate"""
    if dn[0] != 'call' or not dn[2]:
        return False
    if dn[1].endswith(F64 + 'sqrt'):
        return _sum_of_squares(dn[2][0], flds)
    cb = ctx.core.body(dn[1])
    if cb is None or depth >= 2 or cb.arg_count != 1 or len(dn[2]) != 1:
        return False
    a = strip_clone(dn[2][0])
    if not (a and all(q[0] == 'param' and q[1] == 1 for q in a)):
        return False
    cfn = ctx.fn(cb)
    rt = set()
    for rb in cfn.return_blocks():
        rt |= set(strip_clone(cfn.local_terms(0, (rb, cfn.nstmts(rb)))))
    return len(rt) == 1 and _is_norm(ctx, next(iter(rt)), flds, depth + 1)


def _unit_normalise(ctx):
    """C12.unit - quaternion normalisation yields a unit quaternion parallel to the input or the zero-magnitude error:
    (a) every quaternion literal built in `normalise` has the components `self.c / D` for ONE divisor D (parallel);
    (b) a literal that is returned has D = sqrt(x^2 + y^2 + z^2 + w^2) over exactly the four components (unit), and is built
        only where D >= K for a constant K whose square is far above the subnormal range (below it the squares lose their
        relative precision and the quotient is not a unit vector), and where D is known not to be +inf (squares of finite
        components overflow from 1.3e154: x / inf = 0 gives the zero quaternion as an `Ok`);
    (c) a literal with another divisor (a rescaled copy) is only handed to `normalise` again.
    Decided for finite inputs: a NaN component makes every comparison false and is outside the clause."""
    r = RuleResult('C12.unit', 'SO3State::normalise returns self / |self| with |self| the root of the four squares, only for |self| in [K, inf)')
    n_fn = 0
    for b in sorted(ctx.lib_bodies(), key=lambda x: x.path):
        if not (b.kind == 'AssocFn' and b.impl_trait is None and b.name == 'normalise' and (b.j.get('impl_adt') or '').endswith('so3_state::SO3State')):
            continue
        n_fn += 1
        fn = ctx.fn(b)
        adt = b.j.get('impl_adt')
        flds = [f['name'] for f in ctx.core.adts[adt]['variants'][0]['fields']]
        probs = []
        result_lits, rescaled = set(), set()
        built = []          # (block, stmt index | None, identity node, {field: terms})
        for bi, blk in enumerate(fn.blocks):
            if blk['cleanup'] or bi not in fn.reachable(0):
                continue
            for si, st in enumerate(blk['stmts']):
                if not (st['k'] == 'assign' and st['rv']['k'] == 'agg' and st['rv'].get('adt') == adt):
                    continue
                ts = fn.rvalue_terms(st['rv'], (bi, si))
                if len(ts) != 1:
                    probs.append(('shape', 'quaternion literal at %s has several forms (unrecognised shape)' % fn.loc(bi, si)))
                    continue
                built.append((bi, si, next(iter(ts)), dict(next(iter(ts))[3])))
            t = blk['term']
            if t['k'] == 'call':
                # `Self::new(a, b, c, d)` where new is the plain constructor Self { x: a, y: b, z: c, w: d }
                cb = ctx.core.body(t['func'].get('path') or '')
                if cb is not None and cb.j.get('impl_adt') == adt and cb.name == 'new' and cb.impl_trait is None:
                    cfn = ctx.fn(cb)
                    rt = set()
                    for rb in cfn.return_blocks():
                        rt |= set(cfn.local_terms(0, (rb, cfn.nstmts(rb))))
                    if len(rt) == 1 and next(iter(rt))[0] == 'agg' and next(iter(rt))[1] == adt:
                        comps = {}
                        for (f, v) in next(iter(rt))[3]:
                            if len(v) == 1 and next(iter(v))[0] == 'param' and 1 <= next(iter(v))[1] <= len(t['args']):
                                comps[f] = fn.arg_terms(t, next(iter(v))[1] - 1, bi)
                        ct = fn.call_terms(t, bi)
                        if len(comps) == len(flds) and len(ct) == 1:
                            built.append((bi, None, next(iter(ct)), comps))
        if True:
            for (bi, si, lit, comps) in built:
                D = None
                par = True
                for f in flds:
                    c = strip_clone(comps.get(f, frozenset()))
                    n = next(iter(c)) if len(c) == 1 else None
                    if not (n is not None and n[0] == 'binop' and n[1] == 'Div' and len(strip_clone(n[2])) == 1 and
                            next(iter(strip_clone(n[2])))[0] == 'field' and next(iter(strip_clone(n[2])))[2] == f and
                            all(q[0] == 'param' and q[1] == 1 for q in next(iter(strip_clone(n[2])))[1])):
                        par = False
                        break
                    if D is None:
                        D = strip_clone(n[3])
                    elif strip_clone(n[3]) != D:
                        par = False
                        break
                r.inst('%s: literal at %s has the components self.c / D for one divisor D' % (b.path, fn.loc(bi, si)), ok=par, site=fn.loc(bi, si))
                if not par:
                    probs.append(('parallel', 'the quaternion built at %s does not have the components self.x / D, self.y / D, self.z / D, self.w / D '
                                              'for one common divisor D: it is not parallel to the input' % fn.loc(bi, si)))
                    continue
                dn = next(iter(D)) if len(D) == 1 else None
                is_norm = dn is not None and _is_norm(ctx, dn, flds)
                if not is_norm:
                    rescaled.add(lit)
                    continue
                result_lits.add(lit)
                # guards where the result literal is built
                facts = cmp_facts(fn, bi)
                lower = None
                upper_ok = False
                for (a, c, rel, _blk) in facts:
                    for (x, y, rr) in ((a, c, rel), (c, a, {FLIP[q] for q in rel})):
                        if strip_clone(x) != D:
                            continue
                        k = const_float(y)
                        if k is None:
                            continue
                        if rr - {'un'} <= {'gt', 'eq'} and (lower is None or k > lower):
                            lower = k
                        if rr <= {'lt', 'eq'} and k < float('inf'):
                            upper_ok = True
                if any(strip_clone(x) == D for x in pred_facts(fn, bi, 'is_finite', True)) or \
                        any(strip_clone(x) == D for x in pred_facts(fn, bi, 'is_infinite', False)):
                    upper_ok = True
                MINK = (4.0 * 2.0 ** -1022 * 2.0 ** 40) ** 0.5
                ok_lo = lower is not None and lower >= MINK
                r.inst('%s: the result is built only for |self| >= %s (needs >= %.3g)' % (b.path, lower, MINK), ok=ok_lo, site=fn.loc(bi, si))
                if not ok_lo:
                    probs.append(('cutoff', 'the unit quaternion is built for magnitudes down to %s: below about %.1e the squares of all four components '
                                            'are subnormal (or zero), their sum has lost its relative precision and self / |self| is not a unit '
                                            'quaternion (nor, when one square underflows and another does not, parallel to the input)' % (
                                                'any non-zero value' if lower is None else repr(lower), MINK)))
                r.inst('%s: the result is built only for a finite |self|' % b.path, ok=upper_ok, site=fn.loc(bi, si))
                if not upper_ok:
                    probs.append(('overflow', 'the unit quaternion is built although |self| can be +inf: the squares of finite components overflow from '
                                              'about 1.3e154, and every component / inf is 0 - normalise answers Ok with the zero quaternion'))
        # what is returned
        ret = set()
        for rb in fn.return_blocks():
            ret |= set(fn.local_terms(0, (rb, fn.nstmts(rb))))
        for n in ret:
            if n[0] == 'agg' and n[1] == 'std::result::Result' and n[2] == 'Err':
                continue
            if n[0] == 'agg' and n[1] == 'std::result::Result' and n[2] == 'Ok':
                pay = strip_clone(dict(n[3]).get('0', frozenset()))
                if pay and pay <= result_lits:
                    continue
                probs.append(('returned', 'an Ok value is returned that is not self / sqrt(x^2 + y^2 + z^2 + w^2): %s' % fmt_terms(pay)[:80]))
                continue
            if n[0] == 'call' and n[1] == b.path and n[2]:
                arg = strip_clone(n[2][0])
                if arg and arg <= rescaled:
                    continue
            if n[0] in ('out',):
                continue
            probs.append(('returned', 'unrecognised return value %s (unrecognised shape)' % fmt_terms(T(n))[:80]))
        if not result_lits:
            probs.append(('shape', 'no literal self / sqrt(sum of the four squares) is built (unrecognised shape)'))
        seen_k = {}
        for (k, why) in probs:
            o = seen_k.get(k, 0)
            seen_k[k] = o + 1
            r.violations.append(Violation('C12', 'C12.unit', b.path, k, why, loc=b.loc(0), ordinal=o))
    if n_fn < 1:
        r.violations.append(Violation('C12', 'C12.unit', 'oxmpl', 'floor', 'SO3State::normalise not found (floor 1)'))
    return r


def _check_interval(b, fn, facts, lo, hi, fname, r_st, r_nan, oi):
    desc = '%s: stored %s = (%s, %s)' % (b.path, fname, fmt_terms(lo)[:60], fmt_terms(hi)[:60])
    clo, chi = const_float(lo), const_float(hi)
    if clo is not None and chi is not None:
        ok = clo < chi
        r_st.inst(desc + ' constants', ok=ok, nontrivial=False)
        if not ok:
            r_st.violations.append(Violation('C12', 'C12.stored', b.path, fname, 'constant bounds are not ordered', loc=b.loc(0), ordinal=oi))
        return
    rel, used = relation_for(facts, lo, hi, NN[0])
    if not used:
        r_st.inst(desc + ' — no dominating ordering test on these very values', ok=False, site=b.loc(0))
        r_st.violations.append(Violation(
            'C12', 'C12.stored', b.path, fname,
            'the pair stored in `%s` (%s, %s) is not the pair the ordering test was made on '
            '(check-then-transform): no comparison of exactly these values dominates the Ok return' % (
                fname, fmt_terms(lo)[:80], fmt_terms(hi)[:80]), loc=b.loc(0), ordinal=oi))
        return
    r_st.inst(desc + ' is the validated pair', ok=True, site=b.loc(0))
    ok = rel <= {'lt'}
    r_nan.inst('%s: accept relation for %s is %s' % (b.path, fname, sorted(rel)), ok=ok, site=b.loc(0))
    if not ok:
        why = 'NaN (unordered) bounds are accepted' if 'un' in rel else 'non-strict ordering accepted'
        r_nan.violations.append(Violation(
            'C12', 'C12.nan', b.path, fname,
            'ordering guard on `%s` accepts relation %s: %s' % (fname, sorted(rel), why), loc=b.loc(0), ordinal=oi))


def _iter_elem_of(ts):
    """if ts is {unwrap(next(X))} return X's terms (the iterated collection), else None"""
    if len(ts) != 1:
        return None
    n = next(iter(ts))
    if n[0] != 'unwrap' or len(n[1]) != 1:
        return None
    m = next(iter(n[1]))
    if m[0] == 'call' and m[1] == 'std::iter::Iterator::next' and m[2]:
        it = m[2][0]
        # slice::iter(X) / iter over &X
        for _ in range(4):
            if len(it) != 1:
                break
            q = next(iter(it))
            if q[0] == 'call' and q[2] and q[1] in ('std::iter::Iterator::copied', 'std::iter::Iterator::cloned', 'std::iter::Iterator::by_ref'):
                it = q[2][0]        # element-preserving adaptors
                continue
            if q[0] == 'call' and q[1] in ('core::slice::<impl [T]>::iter',) and q[2]:
                return q[2][0]
            break
        return it
    return None


def _check_interval_vec(b, fn, facts, fterms, fname, r_st, r_nan, oi):
    for n in fterms:
        one = T(n)
        # literal vec![(lo, hi); n]
        if n[0] == 'call' and n[1] in ('std::vec::from_elem',) and n[2]:
            lo, hi = fn._field(n[2][0], '0'), fn._field(n[2][0], '1')
            clo, chi = const_float(lo), const_float(hi)
            ok = clo is not None and chi is not None and clo < chi
            r_st.inst('%s: stored %s = vec![(%s, %s); n]' % (b.path, fname, clo, chi), ok=ok, nontrivial=False)
            if not ok:
                r_st.violations.append(Violation('C12', 'C12.stored', b.path, fname + ':literal',
                                                 'literal bounds vector is not a strictly ordered constant pair', loc=b.loc(0), ordinal=oi))
            continue
        # element-wise validated vector: a per-element fact whose operands are fields 0/1 of an element of this vector
        rel = set(ALL)
        used = False
        for (a, bb_, r, _h) in facts:
            for (x, y, flip) in ((a, bb_, False), (bb_, a, True)):
                if len(x) != 1 or len(y) != 1:
                    continue
                nx, ny = next(iter(x)), next(iter(y))
                if nx[0] == 'field' and ny[0] == 'field' and nx[2] == '0' and ny[2] == '1' and nx[1] == ny[1]:
                    coll = _iter_elem_of(nx[1])
                    if coll is not None and same(coll, one):
                        rr = {FLIP[q] for q in r} if flip else set(r)
                        rel &= rr
                        used = True
        desc = '%s: stored %s = %s' % (b.path, fname, fmt_terms(one)[:80])
        nn_fields = set()
        for x in NN[0]:
            if len(x) == 1:
                xn = next(iter(x))
                if xn[0] == 'field' and xn[2] in ('0', '1'):
                    coll = _iter_elem_of(xn[1])
                    if coll is not None and same(coll, one):
                        nn_fields.add(xn[2])
        if nn_fields >= {'0', '1'}:
            rel.discard('un')
        if not used:
            r_st.inst(desc + ' — no per-element ordering test over this very vector', ok=False, site=b.loc(0))
            r_st.violations.append(Violation(
                'C12', 'C12.stored', b.path, fname,
                'the bounds vector stored in `%s` is not the vector whose elements were validated' % fname,
                loc=b.loc(0), ordinal=oi))
            continue
        r_st.inst(desc + ' is the validated vector', ok=True, site=b.loc(0))
        ok = rel <= {'lt'}
        r_nan.inst('%s: per-element accept relation for %s is %s' % (b.path, fname, sorted(rel)), ok=ok, site=b.loc(0))
        if not ok:
            why = 'NaN (unordered) bounds are accepted' if 'un' in rel else 'non-strict ordering accepted'
            r_nan.violations.append(Violation(
                'C12', 'C12.nan', b.path, fname,
                'per-element ordering guard on `%s` accepts relation %s: %s' % (fname, sorted(rel), why),
                loc=b.loc(0), ordinal=oi))


def _abs_vs_zero(fn, facts, ts, depth=0):
    """abstract relation set of value `ts` versus 0.0, using the dominating facts; handles min/max/clamp with
    constants (f64::min/max return the non-NaN operand)"""
    if depth > 6:
        return set(ALL)
    c = const_float(ts)
    if c is not None:
        if c != c:
            return {'un'}
        return {'lt'} if c < 0 else ({'eq'} if c == 0 else {'gt'})
    zero = None
    rel = set(ALL)
    for (a, b, r, _blk) in facts:
        if same(a, ts) and const_float(b) == 0.0:
            rel &= r
        elif same(b, ts) and const_float(a) == 0.0:
            rel &= {FLIP[x] for x in r}
    if len(ts) == 1:
        n = next(iter(ts))
        if n[0] == 'call' and n[1] in ('core::f64::<impl f64>::min', 'core::f64::<impl f64>::max') and len(n[2]) == 2:
            ra = _abs_vs_zero(fn, facts, n[2][0], depth + 1)
            rb = _abs_vs_zero(fn, facts, n[2][1], depth + 1)
            out = set()
            for x in ra:
                for y in rb:
                    if x == 'un' and y == 'un':
                        out.add('un')
                    elif x == 'un':
                        out.add(y)
                    elif y == 'un':
                        out.add(x)
                    else:
                        order = ['lt', 'eq', 'gt']
                        pick = min if n[1].endswith('min') else max
                        out.add(order[pick(order.index(x), order.index(y))])
            rel &= out
    return rel


def _check_radius(b, fn, facts, rad, fname, r_st, r_nan, oi):
    for n in rad:
        one = T(n)
        rel = _abs_vs_zero(fn, facts, one)
        ok = rel <= {'eq', 'gt'}
        r_nan.inst('%s: stored radius %s.1 = %s has relation %s to 0' % (b.path, fname, fmt_terms(one)[:70], sorted(rel)),
                   ok=ok, site=b.loc(0))
        if not ok:
            r_nan.violations.append(Violation(
                'C12', 'C12.nan', b.path, fname + '.radius',
                'stored angular radius may be %s relative to 0 (negative or NaN not excluded)' % sorted(rel),
                loc=b.loc(0), ordinal=oi))


def _check_centre(ctx, b, fn, cen, fname, r_cen, oi):
    """the centre stored with an angular radius is a rotation: the Ok payload of the state's own normalise() (a zero-magnitude
    quaternion is then an error, not a centre), a literal whose four components have unit norm, or a constructor without
    arguments that returns one (identity()).  Distances to the centre are computed from the quaternion dot product: with a
    short or zero centre every rotation is outside the cone, the bounds check rejects the centre itself and the rejection
    sampler never returns."""
    def unit_literal(node):
        if node[0] != 'agg' or len(node[3]) != 4:
            return False
        vals = [const_float(t) for (_f, t) in node[3]]
        return None not in vals and abs(sum(v * v for v in vals) - 1.0) < 1e-12

    def normalised(ts):
        return bool(ts) and all(m[0] == 'call' and m[1].rsplit('::', 1)[-1] in ('normalise', 'normalize') for m in ts)

    def ok_node(n, depth=0):
        k = n[0]
        if k == 'clone':
            return bool(n[1]) and all(ok_node(m, depth) for m in n[1])
        if k == 'unwrap':
            return normalised(n[1])
        if k == 'agg':
            return unit_literal(n)
        if k == 'call' and n[1].startswith(('std::result::Result::<T, E>::', 'std::option::Option::<T>::')) and n[2]:
            return n[1].rsplit('::', 1)[1] in ('unwrap', 'expect') and normalised(n[2][0])
        if k == 'call' and depth < 3:
            cb = ctx.core.body(n[1])
            if cb is not None and cb.kind in ('Fn', 'AssocFn') and not cb.arg_count:
                f2 = ctx.fn(cb)
                rt = set()
                for rb in f2.return_blocks():
                    rt |= f2.local_terms(0, (rb, f2.nstmts(rb)))
                return bool(rt) and all(ok_node(m, depth + 1) for m in rt)
            if cb is not None and cb.kind in ('Fn', 'AssocFn') and cb.arg_count == len(n[2]):
                # a constructor that only assembles its arguments (`SO3State::new(0., 0., 0., 1.)`): instantiate its literal
                f2 = ctx.fn(cb)
                rt = set()
                for rb in f2.return_blocks():
                    rt |= f2.local_terms(0, (rb, f2.nstmts(rb)))
                inst = []
                for m in rt:
                    if m[0] != 'agg':
                        return False
                    fields = []
                    for (fname, ft) in m[3]:
                        if not (ft and all(q[0] == 'param' and 1 <= q[1] <= len(n[2]) for q in ft)):
                            return False
                        sub = set()
                        for q in ft:
                            sub |= set(n[2][q[1] - 1])
                        fields.append((fname, frozenset(sub)))
                    inst.append((m[0], m[1], m[2], tuple(fields)))
                return bool(inst) and all(ok_node(m, depth + 1) for m in inst)
        return False
    if not cen:
        r_cen.inst('%s: stored centre %s.0 not found' % (b.path, fname), ok=False, site=b.loc(0))
        r_cen.violations.append(Violation('C12', 'C12.centre', b.path, fname + '.centre', 'cannot tell what is stored as the cone centre (unrecognised shape)',
                                          loc=b.loc(0), ordinal=oi))
        return
    for n in cen:
        ok = ok_node(n)
        r_cen.inst('%s: stored centre %s.0 = %s is a unit quaternion by construction' % (b.path, fname, fmt_terms(T(n))[:70]), ok=ok, site=b.loc(0))
        if not ok:
            r_cen.violations.append(Violation(
                'C12', 'C12.centre', b.path, fname + '.centre',
                'the cone centre is stored as %s: not the normalised centre and not a unit literal. A zero or short quaternion is accepted, '
                'every rotation is then farther from it than the radius (the distance is computed from the dot product): the bounds check '
                'rejects the centre itself and sample_uniform never returns' % fmt_terms(T(n))[:70], loc=b.loc(0), ordinal=oi))


def _check_count(ctx, b, fn, pi, r_cnt):
    """every use of the provided bounds vector (other than reading its length) is dominated by the equal-edge
    of a test between its length and a parameter/constant, whose failing edge returns only
    Err(DimensionMismatch); a constant length covers every constant index used."""
    from ..core import VEC_LEN, user_call
    from ..engine import TRANSPARENT
    pname = b.local_name(pi)

    def mentions(ts):
        return any(q[0] == 'param' and q[1] == pi for q in walk(ts))

    def is_payload(ts):
        # exactly the provided vector (the parameter or its Some payload), nothing merged in
        if not ts:
            return False
        for n in ts:
            if n[0] == 'param' and n[1] == pi:
                continue
            if n[0] in ('unwrap', 'clone') and is_payload(n[1]):
                continue
            if n[0] == 'index' and n[2] and all(i[0] == 'agg' and i[1] == 'std::ops::RangeFull' for i in n[2]) and is_payload(n[1]):
                continue                # `v[..]`: the whole vector seen as a slice
            return False
        return True

    gates = []
    for blk in range(fn.nb):
        si = fn.switch_info(blk)
        if si is None or fn.blocks[blk]['cleanup']:
            continue
        terms, tmap, other = si
        if len(terms) != 1:
            continue
        n = next(iter(terms))
        if n[0] != 'binop' or n[1] not in ('Eq', 'Ne'):
            continue
        sides = [n[2], n[3]]
        lens = [s for s in sides if s and all((m[0] == 'call' and m[1] == VEC_LEN and mentions(m[2][0])) or
                                              (m[0] == 'unop' and m[1] == 'PtrMetadata' and mentions(m[2])) for m in s)]
        if not lens:
            continue
        otherside = [s for s in sides if s is not lens[0]][0]
        if set(tmap.keys()) != {'0'}:
            continue
        f_t, t_t = tmap['0'], other
        eq_edge = (blk, t_t) if n[1] == 'Eq' else (blk, f_t)
        ne_edge = (blk, f_t) if n[1] == 'Eq' else (blk, t_t)
        gates.append((blk, eq_edge, ne_edge, otherside))
    if not gates:
        r_cnt.inst('%s: length gate on `%s`' % (b.path, pname), ok=False, site=b.loc(0))
        r_cnt.violations.append(Violation('C12', 'C12.count', b.path, pname or 'bounds',
                                          'no test of the length of `%s` against the expected dimension' % pname, loc=b.loc(0)))
        return
    for gi, (gb, eq_edge, ne_edge, otherside) in enumerate(gates):
        # failing edge reaches only Err(DimensionMismatch)
        errs = set()
        for rb in fn.reachable(ne_edge[1]):
            for si2, st in enumerate(fn.blocks[rb]['stmts']):
                if st['k'] == 'assign' and st['place']['l'] == 0 and not st['place']['p'] and st['rv']['k'] == 'agg':
                    for n in fn.rvalue_terms(st['rv'], (rb, si2)):
                        if n[0] == 'agg' and n[2] == 'Err':
                            for m in n[3][0][1]:
                                errs.add(m[2] if m[0] == 'agg' else '?')
                        elif n[0] == 'agg' and n[2] == 'Ok':
                            errs.add('Ok')
            t = fn.blocks[rb]['term']
            if t['k'] == 'call' and t['dest'] == {'l': 0, 'p': []} and not fn.blocks[rb]['cleanup']:
                # `?` on a known Err literal (a helper's `return Err(X)` seen in this context): from_residual(Err(X))
                if t['func'].get('path') == 'std::ops::FromResidual::from_residual' and t['args']:
                    for n in fn.arg_terms(t, 0, rb):
                        if n[0] == 'agg' and n[2] == 'Err' and n[3]:
                            for m in n[3][0][1]:
                                errs.add(m[2] if m[0] == 'agg' else '?')
                        else:
                            errs.add('?')
                else:
                    errs.add('call:' + str(t['func'].get('path')))
        ok = errs == {'DimensionMismatch'}
        r_cnt.inst('%s: len(%s) mismatch returns %s' % (b.path, pname, sorted(errs)), ok=ok, site=fn.loc(gb))
        if not ok:
            r_cnt.violations.append(Violation('C12', 'C12.count', b.path, 'mismatch-error',
                                              'the failing edge of the length test leads to %s, expected only Err(DimensionMismatch)' % sorted(errs),
                                              loc=fn.loc(gb), ordinal=gi))
        # the expected length is a parameter or a constant
        okx = bool(otherside) and all(m[0] in ('param', 'const') for m in otherside)
        if not okx:
            r_cnt.violations.append(Violation('C12', 'C12.count', b.path, 'expected-length',
                                              'length compared against %s (expected a parameter or constant)' % fmt_terms(otherside)[:80],
                                              loc=fn.loc(gb), ordinal=gi))
    eq_edges = frozenset(g[1] for g in gates)
    # where the parameter is an Option, the `None` edge of a match on it carries no vector: a path that bypasses the length
    # test through it uses nothing (`if let Some(b) = &opt { if b.len() != 3 { return Err(..) } }  Inner::new(3, opt)`)
    none_edges = set()
    if b.local_ty(pi).startswith('std::option::Option<'):
        for blk in range(fn.nb):
            si = fn.switch_info(blk)
            if si is None or fn.blocks[blk]['cleanup']:
                continue
            terms, tmap, other = si
            if not terms or not all(n[0] == 'discr' and n[1] and all(q[0] == 'param' and q[1] == pi for q in n[1]) for n in terms):
                continue
            if '0' in tmap:
                none_edges.add((blk, tmap['0']))
            elif set(tmap.keys()) == {'1'}:
                none_edges.add((blk, other))       # `switch [1: Some, otherwise: None]`
    reach_wo = fn.reachable(0, removed=frozenset(eq_edges | none_edges))
    max_idx = -1
    n_uses = 0
    for bi, t in b.calls():
        path = t['func'].get('path', '')
        if path in (VEC_LEN, 'core::slice::<impl [T]>::len') or path in TRANSPARENT or not user_call(b, bi):
            continue                    # reading the length / re-borrowing as a slice is not a use of the elements
        args = [fn.arg_terms(t, j, bi) for j in range(len(t['args']))]
        if not any(is_payload(a) for a in args):
            continue
        if path in ('std::ops::Index::index',) and len(args) == 2 and args[1] and all(i[0] == 'agg' and i[1] == 'std::ops::RangeFull' for i in args[1]):
            continue                    # `v[..]` re-borrows the whole vector as a slice: not a use of an element
        n_uses += 1
        ok = bi not in reach_wo
        if path in ('std::ops::Index::index',) and len(args) == 2 and len(args[1]) == 1 and next(iter(args[1]))[0] == 'const':
            max_idx = max(max_idx, int(next(iter(args[1]))[1]))
        r_cnt.inst('%s: use of `%s` by %s at %s is behind the length gate' % (b.path, pname, path, fn.loc(bi)), ok=ok, site=fn.loc(bi))
        if not ok:
            r_cnt.violations.append(Violation('C12', 'C12.count', b.path, 'ungated:' + path,
                                              'the bounds vector is used by %s on a path that bypasses the length test' % path, loc=fn.loc(bi)))
    # elements read through a slice pattern (`Some(&[x, y, yaw])`): constant-index projections of the payload
    for bi, blk in enumerate(b.blocks):
        if blk['cleanup']:
            continue
        for si, st in enumerate(blk['stmts']):
            if st['k'] != 'assign' or st['rv']['k'] != 'use':
                continue
            src = st['rv']['op'].get('copy') or st['rv']['op'].get('move')
            if src is None or not src['p'] or not isinstance(src['p'][-1], dict) or 'cidx' not in src['p'][-1]:
                continue
            base = fn.place_terms({'l': src['l'], 'p': [e for e in src['p'][:-1]]}, (bi, si))
            if not is_payload(base):
                continue
            n_uses += 1
            ok = bi not in reach_wo
            if not src['p'][-1].get('from_end'):
                max_idx = max(max_idx, int(src['p'][-1]['cidx']))
            r_cnt.inst('%s: element %s of `%s` is read at %s behind the length gate' % (b.path, src['p'][-1]['cidx'], pname, fn.loc(bi, si)), ok=ok)
            if not ok:
                r_cnt.violations.append(Violation('C12', 'C12.count', b.path, 'ungated:pattern',
                                                  'an element of the bounds vector is read on a path that bypasses the length test', loc=fn.loc(bi, si)))
    # moves of the payload into the result also count as uses
    for bi, blk in enumerate(b.blocks):
        if blk['cleanup']:
            continue
        for si, st in enumerate(blk['stmts']):
            if st['k'] == 'assign' and st['rv']['k'] == 'use' and 'move' in st['rv']['op'] and not st['place']['p']:
                src = st['rv']['op']['move']
                if not src['p'] and 'std::vec::Vec<(f64, f64)>' == b.local_ty(src['l']) and st['place']['l'] != src['l']:
                    ts = fn.place_terms(src, (bi, si))
                    if is_payload(ts):
                        n_uses += 1
                        ok = bi not in reach_wo
                        r_cnt.inst('%s: the vector is stored at %s behind the length gate' % (b.path, fn.loc(bi, si)), ok=ok)
                        if not ok:
                            r_cnt.violations.append(Violation('C12', 'C12.count', b.path, 'ungated:store',
                                                              'the bounds vector is stored on a path that bypasses the length test', loc=fn.loc(bi, si)))
    for (gb, eq_edge, ne_edge, otherside) in gates:
        if len(otherside) == 1 and next(iter(otherside))[0] == 'const':
            want = int(next(iter(otherside))[1])
            if max_idx + 1 > want:
                r_cnt.violations.append(Violation('C12', 'C12.count', b.path, 'const-index',
                                                  'constant index %d exceeds the checked length %d' % (max_idx, want), loc=fn.loc(gb)))
    if n_uses == 0:
        r_cnt.violations.append(Violation('C12', 'C12.count', b.path, 'no-use', 'the bounds vector is never used (unrecognised shape)', loc=b.loc(0)))


def _congruent(ctx):
    """C12.congruent - canonicalising an angle keeps the configuration: the value SO2State::new / SO2State::normalise yield
    is congruent to the given angle modulo 2 pi.  Decided on the normal form of the body (oxa/symval.py; real-number
    reading): every rem_euclid(x, 2 pi) is congruent to x, constants that are multiples of 2 pi drop.  Undecided (no alarm)
    where the value is not tracked; a violation needs the difference to be a non-multiple of 2 pi at some evaluation point."""
    import math
    r = RuleResult('C12.congruent', 'the canonical angle is congruent to the given one modulo 2 pi')
    try:
        from ..symval import Poly, fmt_poly
        from ..symrules import analyze, opaque, congruent, term_differs
        M = 2 * math.pi
        for b in sorted(ctx.lib_bodies(), key=lambda x: x.path):
            if b.impl_trait is not None or b.kind != 'AssocFn' or b.name not in ('new', 'normalise') or not b.j.get('ret_ty', '').endswith('SO2State'):
                continue
            res, _ = analyze(ctx, b)
            vals = {k[1:]: v for k, v in res.items() if k[0] == 'ret' and len(k) > 1}
            if b.name == 'new':
                srcs = [i for i in range(1, b.arg_count + 1) if b.local_ty(i) == 'f64']
                given = Poly.atom(('leaf', srcs[0], ())) if len(srcs) == 1 else None
            else:
                given = None
            for path, v in sorted(vals.items(), key=repr):
                g = given if given is not None else Poly.atom(('leaf', 1, path))
                if opaque(v):
                    r.inst('%s: undecided - the stored angle is not tracked' % b.path, ok=True, nontrivial=False)
                    continue
                c = congruent(v, g, M)
                if c:
                    r.inst('%s: %s is congruent to the given angle' % (b.path, fmt_poly(v)[:100]), ok=True, site=b.loc(0))
                elif term_differs(v, g, mod=M) is True:
                    r.inst('%s: %s is not congruent to the given angle' % (b.path, fmt_poly(v)[:100]), ok=False, site=b.loc(0))
                    r.violations.append(Violation('C12', 'C12.congruent', b.path, 'congruent',
                                                  'the canonical angle %s differs from the given angle by something that is not a multiple of 2 pi: '
                                                  'canonicalisation changes the configuration' % fmt_poly(v)[:300], loc=b.loc(0)))
                else:
                    r.inst('%s: undecided - not reduced to the given angle but congruent at every evaluation point' % b.path, ok=True, nontrivial=False)
    except Exception as e:      # noqa - normal-form rules never alarm on what they cannot analyse
        r.inst('normal-form analysis: undecided - internal error %s' % type(e).__name__, ok=True, nontrivial=False)
    return r
