"""C11 — sampling, enforcing and checking bounds agree (structural agreement; numerics not decided).

C11.lost       a pure call on the state whose result is dropped inside a space operation (lost update)
C11.same       sample_uniform / enforce_bounds / satisfies_bounds read the same bound fields, index-aligned,
               lower as lower and upper as upper; SO(3) sampler acceptance = the bounds predicate
C11.range      every random_range(lo..hi) is guarded by lo < hi locally or by the constructor invariant (C12)
C11.enforce    enforce_bounds early-returns on satisfies_bounds(<the state it leaves behind>)
"""
from ..core import RuleResult, Violation, user_call, SS
from ..engine import walk, fmt_terms, strip_clone, T
from .. import planner as P
from .c12 import space_adts, cmp_facts, relation_for, const_float, same

META = {
    'explanation': 'C11: structural agreement between the three bounds operations of each primitive space and the '
                   'absence of a lost update: dropped pure results on the state, index alignment of bounds/values, '
                   'lower/upper roles at clamp, range and comparison sites, sampler acceptance predicate equal to '
                   'the bounds predicate, non-empty sampling ranges by guard or constructor invariant. Idempotence '
                   'and tolerance arithmetic are not decided.',
    'assumptions': ['bounds fields are written only by constructors', 'f64::clamp/min/max behave as documented',
                    'C12.stored/C12.nan hold (constructor invariant lo < hi) for ranges taken from bounds fields'],
}

STATE_SPACE = 'base::space::StateSpace'
PURE_PREFIX = ('core::f64::<impl f64>::', 'std::f64::<impl f64>::', 'std::clone::Clone::clone',
               'std::ops::Deref::deref', 'std::cmp::', 'std::ops::Index::index', 'std::vec::Vec::<T, A>::len',
               'std::vec::Vec::<T, A>::is_empty', 'std::option::Option::<T>::is_some',
               'std::option::Option::<T>::is_none', 'std::result::Result::<T, E>::is_ok',
               'std::result::Result::<T, E>::is_err', 'core::slice::<impl [T]>::len',
               'std::ops::Neg::neg', 'std::ops::Add::add', 'std::ops::Sub::sub', 'std::ops::Mul::mul')


def effect_free(ctx, body, _stack=()):
    """no store through a pointer, only calls to effect-free callees"""
    if body.path in _stack:
        return True
    for blk in body.blocks:
        if blk['cleanup']:
            continue
        for st in blk['stmts']:
            if st['k'] == 'assign' and any(e == 'deref' for e in st['place']['p']):
                # a store through a reference/pointer (parameters are the only pointers that outlive the call)
                return False
    for _bi, t in body.calls():
        f = t['func']
        p = f.get('path')
        if p is None:
            return False
        if p.startswith(PURE_PREFIX):
            continue
        b2 = body.crate.body(f.get('resolved', {}).get('path') or p)
        if b2 is None or not effect_free(ctx, b2, _stack + (body.path,)):
            return False
        # passing a &mut on to the callee is fine only because the callee is effect free
    return True


def local_read(body, local, skip=None):
    """is `local` read anywhere (as operand / borrowed / projected) outside cleanup blocks and drops?"""
    def in_op(o):
        pl = o.get('move') or o.get('copy')
        return pl is not None and (pl['l'] == local or any(isinstance(e, dict) and e.get('idx') == local for e in pl['p']))

    def in_place_read(pl):
        return pl['l'] == local or any(isinstance(e, dict) and e.get('idx') == local for e in pl['p'])

    for bi, blk in enumerate(body.blocks):
        if blk['cleanup']:
            continue
        for st in blk['stmts']:
            if st['k'] != 'assign':
                continue
            rv = st['rv']
            k = rv['k']
            if k in ('use', 'cast', 'repeat') and in_op(rv['op']):
                return True
            if k == 'unop' and in_op(rv['a']):
                return True
            if k == 'binop' and (in_op(rv['a']) or in_op(rv['b'])):
                return True
            if k in ('ref', 'rawptr', 'discr') and in_place_read(rv['place']):
                return True
            if k == 'agg' and any(in_op(f) for f in rv['fields']):
                return True
            # a write to a projection of the local reads it as a base when it is a pointer
            if st['place']['l'] == local and st['place']['p'] and st['place']['p'][0] == 'deref':
                return True
        t = blk['term']
        if t['k'] == 'call':
            if any(in_op(a) for a in t['args']):
                return True
            if 'indirect' in t['func'] and in_op(t['func']['indirect']):
                return True
        elif t['k'] == 'switch' and in_op(t['discr']):
            return True
        elif t['k'] == 'assert' and in_op(t['cond']):
            return True
    return False


def space_methods(ctx, adt):
    return {b.name: b for b in ctx.lib_bodies()
            if b.impl_trait == STATE_SPACE and b.j.get('impl_adt') == adt and b.kind == 'AssocFn'}


def self_field(ts, name):
    """term set is exactly self.<name>"""
    return bool(ts) and all(n[0] == 'field' and n[2] == name and all(m[0] == 'param' and m[1] == 1 for m in n[1])
                            for n in ts)


def bound_reads(ts):
    """yield (node, index terms or None, which '0'/'1') for every read of self.bounds(.k | [i].k) inside ts;
    for the zip idiom `for (v, &(lo, hi)) in values.iter_mut().zip(self.bounds.iter())` the index is the pseudo term
    frozenset({('zip', element terms, component of the bounds)})"""
    for n in walk(ts):
        if n[0] == 'field' and n[2] in ('0', '1'):
            for m in n[1]:
                if m[0] == 'index' and self_field(m[1], 'bounds'):
                    yield n, m[2], n[2]
                elif m[0] == 'field' and m[2] == 'bounds' and all(q[0] == 'param' and q[1] == 1 for q in m[1]):
                    yield n, None, n[2]
                elif m[0] == 'field' and m[2] in ('0', '1') and len(n[1]) == 1:
                    zc = P.zip_components(m[1])
                    if zc is not None and self_field(zc[int(m[2])], 'bounds'):
                        yield n, T(('zip', m[1], m[2])), n[2]


def is_induction(ts):
    """index term is the induction value of an iterator-bounded loop: unwrap(next(..)) or a field of it"""
    if not ts:
        return False
    for n in ts:
        m = n
        if m[0] == 'zip':
            continue        # position in a zipped iteration
        if m[0] == 'field' and m[2] in ('0',) and len(m[1]) == 1:
            m = next(iter(m[1]))
        if m[0] == 'unwrap' and all(q[0] == 'call' and q[1] == 'std::iter::Iterator::next' for q in m[1]):
            continue
        return False
    return True


def run(ctx, tier):
    r_lost = RuleResult('C11.lost', 'no pure call on the state has its result dropped inside a space operation')
    r_same = RuleResult('C11.same', 'sample/enforce/check read the same bound fields, index-aligned, lower as lower and upper as upper')
    r_range = RuleResult('C11.range', 'every random_range(lo..hi) is non-empty by a local guard or by the constructor invariant')
    r_enf = RuleResult('C11.enforce', 'enforce_bounds early-returns on the bounds check of the state it leaves behind')
    spaces = space_adts(ctx)
    prim = []
    for adt in spaces:
        fields = {f['name']: f['ty'] for f in ctx.core.adts[adt]['variants'][0]['fields']}
        if 'bounds' in fields:
            prim.append((adt, fields['bounds']))
    if len(prim) < 3:
        r_same.violations.append(Violation('C11', 'C11.same', 'oxmpl', 'floor', 'only %d primitive spaces with a bounds field (floor 3)' % len(prim)))

    # ------------------------------------------------------------------ C11.lost
    n_scanned = 0
    for b in ctx.lib_bodies():
        if b.kind != 'AssocFn' or b.impl_trait not in (STATE_SPACE, 'base::spaces::any_state_space::AnyStateSpace'):
            continue
        fn = ctx.fn(b)
        ordn = {}
        for bi, t in b.calls():
            if not user_call(b, bi):
                continue
            f = t['func']
            p = f.get('path')
            if p is None:
                continue
            n_scanned += 1
            d = t['dest']
            if d['p']:
                continue
            dty = b.local_ty(d['l'])
            if dty in ('()', '!'):
                continue
            target = b.crate.body(f.get('resolved', {}).get('path') or p)
            pure = (target is not None and effect_free(ctx, target)) or \
                   (target is None and p.startswith(('core::f64::<impl f64>::', 'std::f64::<impl f64>::')))
            if not pure:
                continue
            # does it take (something derived from) a state parameter?
            args = [fn.arg_terms(t, j, bi) for j in range(len(t['args']))]
            on_state = any(any(n[0] == 'param' and n[1] >= 2 for n in walk(a)) for a in args)
            if not on_state:
                continue
            read = d['l'] == 0 or local_read(b, d['l'])
            o = ordn.get(p, 0)
            ordn[p] = o + 1
            r_lost.inst('%s: result of pure %s at %s is %s' % (b.path, p, b.loc(bi), 'used' if read else 'DROPPED'),
                        ok=read, site=b.loc(bi))
            if not read:
                r_lost.violations.append(Violation(
                    'C11', 'C11.lost', b.path, p,
                    'the result of %s (a pure function: it writes nothing through its arguments) is dropped: '
                    'the update it computes on the state is lost' % p, loc=b.loc(bi), ordinal=o))
    r_lost.notes.append('%d call sites scanned in StateSpace/AnyStateSpace impls' % n_scanned)
    if not r_lost.instances:
        r_lost.inst('no pure call on a state parameter in any space operation', ok=True, nontrivial=False)

    # ------------------------------------------------------------------ C11.same / C11.range
    for adt, bty in prim:
        ms = space_methods(ctx, adt)
        for need in ('sample_uniform', 'enforce_bounds', 'satisfies_bounds'):
            if need not in ms:
                r_same.violations.append(Violation('C11', 'C11.same', adt, need, 'space has no %s (unrecognised shape)' % need))
        if bty == 'std::vec::Vec<(f64, f64)>':
            _vec_space(ctx, adt, ms, r_same, r_range)
        elif bty == '(f64, f64)':
            _interval_space(ctx, adt, ms, r_same, r_range)
        else:
            _cone_space(ctx, adt, ms, r_same, r_range)

        # ---- C11.enforce
        eb = ms.get('enforce_bounds')
        if eb is not None:
            fn = ctx.fn(eb)
            for bi, t in eb.calls():
                if t['func'].get('path') == SS + 'satisfies_bounds':
                    a = t['args'][1]
                    pl = a.get('move') or a.get('copy')
                    idt = fn.place_terms(pl, (bi, fn.nstmts(bi)), mut_kills=False)
                    ok = bool(idt) and all(n[0] == 'param' and n[1] == 2 for n in idt)
                    if not ok:
                        # a working copy is tested and, once accepted, stored into the state (`if check(&candidate) { *state = candidate }`)
                        vt = _payload_free(strip_clone(fn.arg_terms(t, 1, bi)))
                        for b2, blk2 in enumerate(fn.blocks):
                            for s2, st2 in enumerate(blk2['stmts']):
                                if st2['k'] == 'assign' and st2['place']['l'] == 2 and st2['place']['p'] == ['deref'] and \
                                        vt and vt <= _payload_free(strip_clone(fn.rvalue_terms(st2['rv'], (b2, s2)))):
                                    ok = True
                    r_enf.inst('%s: early-return test is made on %s' % (eb.path, fmt_terms(idt)[:60]), ok=ok, site=eb.loc(bi))
                    if not ok:
                        r_enf.violations.append(Violation(
                            'C11', 'C11.enforce', eb.path, 'satisfies_bounds',
                            'enforce_bounds tests a value other than the state it leaves behind (%s)' % fmt_terms(idt)[:80],
                            loc=eb.loc(bi)))
    if not r_enf.instances:
        r_enf.inst('no enforce_bounds uses an early-return bounds test', ok=True, nontrivial=False)
    r_canon = _canon(ctx, prim)
    _unit(ctx, prim, r_canon)
    _project(ctx, prim, r_enf)
    r_acc = _accept(ctx, prim)
    _accept_cone(ctx, prim, r_acc)
    return [r_lost, r_same, r_range, r_enf, r_canon, r_acc]


def _accepted_before(fn, block, vals, centre, radius, is_state):
    """`vals` (the terms of a value about to be stored into the state) is the same value - same definition sites - as the
    argument of a bounds check whose accepting edge dominates `block`"""
    from ..core import DISTANCE
    want = _payload_free(strip_clone(vals))
    if not want:
        return False

    def same(ts):
        return _payload_free(strip_clone(ts)) == want
    te, _fe, _sb = fn.bool_edges(lambda m: m[0] == 'call' and m[1] == SS + 'satisfies_bounds' and len(m[2]) == 2 and same(m[2][1]))
    edges = set(te)

    def dist_cx(ts):
        return bool(ts) and all(d[0] == 'call' and (d[1] == DISTANCE or d[1].endswith('::distance')) and len(d[2]) == 3 and
                                ((centre(d[2][1]) and same(d[2][2])) or (centre(d[2][2]) and same(d[2][1]))) for d in ts)
    t2, _f2, _s2 = fn.bool_edges(lambda m: m[0] == 'binop' and ((m[1] == 'Le' and dist_cx(m[2]) and radius(m[3])) or
                                                               (m[1] == 'Ge' and radius(m[2]) and dist_cx(m[3]))))
    edges |= set(t2)
    if not edges:
        return False
    if fn.dominated_by_edges(block, edges):
        return True
    # handed on inside an Option: `block` lies behind the Some edge of a match on an Option local whose every `Some(..)`
    # literal was built behind the accepting edge (`if check(&c) { return Some(c) } .. None` + `match r { Some(p) => *state = p, .. }`)
    for sb in range(fn.nb):
        blk = fn.blocks[sb]
        t = blk['term']
        if blk['cleanup'] or t['k'] != 'switch':
            continue
        d = t['discr'].get('copy') or t['discr'].get('move')
        if d is None or d['p']:
            continue
        dl = None
        for st in blk['stmts']:
            if st['k'] == 'assign' and st['place'] == {'l': d['l'], 'p': []} and st['rv']['k'] == 'discr':
                dl = st['rv']['place']
        if dl is None or dl['p']:
            continue
        tm = {str(v): tg for v, tg in t['targets']}
        some_t = tm.get('1')
        if some_t is None or not fn.dominated_by_edges(block, {(sb, some_t)}):
            continue
        somes = []
        ok = True
        todo, seen_l = [dl['l']], set()
        while todo and ok:
            loc = todo.pop()
            if loc in seen_l:
                continue
            seen_l.add(loc)
            for b2, blk2 in enumerate(fn.blocks):
                if blk2['cleanup']:
                    continue
                for st2 in blk2['stmts']:
                    if st2['k'] == 'assign' and st2['place'] == {'l': loc, 'p': []}:
                        rv = st2['rv']
                        if rv['k'] == 'agg' and rv.get('variant_name') == 'Some':
                            somes.append(b2)
                        elif rv['k'] == 'agg' and rv.get('variant_name') == 'None':
                            pass
                        elif rv['k'] == 'use' and ('move' in rv['op'] or 'copy' in rv['op']) and not (rv['op'].get('move') or rv['op'].get('copy'))['p'] \
                                and len(seen_l) < 5:
                            todo.append((rv['op'].get('move') or rv['op'].get('copy'))['l'])     # handed on whole: `_13 = move _19`
                        else:
                            ok = False
                t2_ = blk2['term']
                if t2_['k'] == 'call' and t2_['dest'] == {'l': loc, 'p': []}:
                    ok = False
        if ok and somes and all(fn.dominated_by_edges(b2, edges) for b2 in somes):
            return True
    return False


def _each_def_fine(fn, op, point, centre, radius, is_state):
    """every reaching definition of the stored value is the stored centre or a value the bounds check accepted before it was
    handed on (`*state = match project(..) { Some(p) => p, None => centre.clone() }`)"""
    try:
        defs = fn.split_defs(op, point)
    except Exception:       # noqa
        return False
    if len(defs) < 2:
        return False
    for (db, _di, ts) in defs:
        if centre(ts):
            continue
        if _accepted_before(fn, db, ts, centre, radius, is_state):
            continue
        return False
    return True


def _payload_free(ts):
    """terms with `unwrap` of an Option / Result literal payload looked through (Some(x) handed back and unwrapped is x)"""
    out = set()
    for n in ts:
        while n[0] == 'unwrap' and len(n[1]) == 1:
            n = next(iter(n[1]))
        out.add(n)
    return frozenset(out)


def _accept_cone(ctx, prim, r):
    """cone spaces: whatever enforce_bounds leaves behind has been accepted by the bounds check, or is the stored centre.
    A projection onto the boundary (`interpolate(centre, state, max_angle / d)`) lands there only up to rounding - and up to
    the accuracy of the interpolation - so a check without tolerance rejects about half of the projected states: the
    projection has to be followed by the check.  Decided by reachability: with the accepting edges of
    `satisfies_bounds(state)` removed and the stores of the centre as stops, no return may be reachable after a write to the
    state; and nothing writes the state between an accepting edge and the return."""
    from ..core import INTERPOLATE, DISTANCE
    for adt, bty in prim:
        if bty.startswith('std::vec::Vec<') or bty == '(f64, f64)':
            continue
        eb = space_methods(ctx, adt).get('enforce_bounds')
        if eb is None:
            continue
        fn = ctx.fn(eb)
        name = adt.rsplit('::', 1)[1]
        is_state = lambda ts: bool(ts) and all(q[0] == 'param' and q[1] == 2 for q in strip_clone(ts))
        centre = lambda ts: bool(ts) and all(q[0] == 'field' and q[2] == '0' and self_field(q[1], 'bounds') for q in strip_clone(ts))
        te, _fe, _sb = fn.bool_edges(lambda m: m[0] == 'call' and m[1] == SS + 'satisfies_bounds' and len(m[2]) == 2 and is_state(m[2][1]))
        te = set(te)
        # the bounds check written out: distance(centre, state) <= max_angle (accepting edge), or > (rejecting edge)
        radius = lambda ts: bool(ts) and all(q[0] == 'field' and q[2] == '1' and self_field(q[1], 'bounds') for q in strip_clone(ts))

        def dist_cs(ts):
            return bool(ts) and all(d[0] == 'call' and (d[1] == DISTANCE or d[1].endswith('::distance')) and len(d[2]) == 3 and
                                    ((centre(d[2][1]) and is_state(d[2][2])) or (centre(d[2][2]) and is_state(d[2][1]))) for d in ts)
        t2, _f2, _s2 = fn.bool_edges(lambda m: m[0] == 'binop' and ((m[1] == 'Le' and dist_cs(m[2]) and radius(m[3])) or
                                                                   (m[1] == 'Ge' and radius(m[2]) and dist_cs(m[3]))))
        te |= set(t2)
        _t3, f3, _s3 = fn.bool_edges(lambda m: m[0] == 'binop' and ((m[1] == 'Gt' and dist_cs(m[2]) and radius(m[3])) or
                                                                   (m[1] == 'Lt' and radius(m[2]) and dist_cs(m[3]))))
        te |= set(f3)
        writes, centre_stores = [], set()
        for bi, blk in enumerate(fn.blocks):
            if blk['cleanup']:
                continue
            for si, st in enumerate(blk['stmts']):
                if st['k'] == 'assign' and st['place']['l'] == 2 and st['place']['p'] and st['place']['p'][0] == 'deref':
                    vals = fn.rvalue_terms(st['rv'], (bi, si))
                    if len(st['place']['p']) == 1 and centre(vals):
                        centre_stores.add(bi)
                    elif len(st['place']['p']) == 1 and _accepted_before(fn, bi, vals, centre, radius, is_state):
                        pass        # the very value was accepted by the bounds check before it is stored (checked on a working copy)
                    elif len(st['place']['p']) == 1 and st['rv']['k'] == 'use' and _each_def_fine(fn, st['rv']['op'], (bi, si), centre, radius, is_state):
                        centre_stores.add(bi)   # every reaching definition is the centre or an accepted working copy
                    else:
                        writes.append((bi, si))
            t = blk['term']
            if t['k'] == 'call':
                for j, a in enumerate(t['args']):
                    pl = a.get('move') or a.get('copy')
                    if pl is not None and not pl['p'] and eb.local_ty(pl['l']).startswith('&mut ') and j > 0:
                        root = fn.borrow_root(pl['l'])
                        on_state = pl['l'] == 2 or (root is not None and root[0] == 2)
                        if on_state and is_state(fn.arg_terms(t, j, bi)) and t['func'].get('path') != SS + 'satisfies_bounds':
                            writes.append((bi, fn.nstmts(bi)))
        rets = set(fn.return_blocks())
        probs = []
        for (bi, si) in writes:
            starts = fn.succs(bi) if si >= fn.nstmts(bi) else [bi]
            reach = fn.reachable_multi(starts, removed=frozenset(te), stop=frozenset(centre_stores)) if starts else set()
            # a write in the same block as the return, after nothing else
            if any(x in rets and x not in centre_stores for x in reach):
                probs.append('the state written at %s can be returned without the bounds check having accepted it (a projection onto the '
                             'boundary lands there only up to rounding; the check has no tolerance)' % fn.loc(bi, si))
        wblocks = {b for b, _ in writes}
        for (a, b) in te:
            after = fn.reachable(b)
            if any(x in wblocks for x in after):
                probs.append('the state is written again after the bounds check accepted it (edge bb%d -> bb%d)' % (a, b))
        r.inst('%s: every state enforce_bounds leaves behind was accepted by the bounds check or is the stored centre (%d writes, %d accepting edges)' % (
            name, len(writes), len(te)), ok=not probs, site=eb.loc(0))
        if centre_stores:
            # the stored centre left behind unchecked: see C11.same centre-return (distance(c, c) is not 0 in floating point)
            r.inst('%s: the stored centre enforce_bounds falls back to is accepted by the bounds check' % name, ok=False, site=eb.loc(0))
            r.violations.append(Violation(
                'C11', 'C11.accept', eb.path, 'centre-fallback',
                'enforce_bounds can leave the stored centre in the state without a bounds check on it: distance(c, c) is computed as '
                '2 acos(c.c), about 4e-8 rad for a generic unit centre, so for a narrower cone the enforced state fails satisfies_bounds',
                loc=eb.loc(0)))
        for o, pr in enumerate(dict.fromkeys(probs)):
            r.violations.append(Violation('C11', 'C11.accept', eb.path, 'cone-exit', pr, loc=eb.loc(0), ordinal=o))


def _project(ctx, prim, r_enf):
    """cone spaces: an out-of-cone state is brought back by interpolating FROM the stored centre TO the state with parameter
    max_angle / distance(centre, state): by constant-speed interpolation (C10) the result then lies exactly max_angle from the
    centre, on the boundary.  Any other parameter (or end points the other way round) leaves the state inside or outside
    the cone by a data-dependent amount, so the bounds check need not accept what enforce_bounds leaves behind."""
    from ..core import DISTANCE, INTERPOLATE
    for adt, bty in prim:
        if bty.startswith('std::vec::Vec<') or bty == '(f64, f64)':
            continue
        eb = space_methods(ctx, adt).get('enforce_bounds')
        if eb is None:
            continue
        fn = ctx.fn(eb)
        calls = [(bi, t) for bi, t in eb.calls() if (t['func'].get('path') == INTERPOLATE or (t['func'].get('name') == 'interpolate')) and len(t['args']) == 5]
        probs = []
        if not calls:
            continue
        centre = lambda ts: bool(ts) and all(q[0] == 'field' and q[2] == '0' and self_field(q[1], 'bounds') for q in strip_clone(ts))
        radius = lambda ts: bool(ts) and all(q[0] == 'field' and q[2] == '1' and self_field(q[1], 'bounds') for q in strip_clone(ts))
        state = lambda ts: bool(ts) and all(q[0] == 'param' and q[1] == 2 for q in strip_clone(ts))
        for bi, t in calls:
            a_from, a_to, a_t = fn.arg_terms(t, 1, bi), fn.arg_terms(t, 2, bi), fn.arg_terms(t, 3, bi)
            if not centre(a_from) or not state(a_to):
                probs.append('the projection interpolates from %s to %s, not from the stored centre to the state' % (fmt_terms(a_from)[:40], fmt_terms(a_to)[:40]))
                continue
            def projected(ts, _site=(fn.path, bi)):
                # the output of this very projection (a working copy the interpolation writes, possibly carried round the loop)
                return bool(ts) and all((q[0] == 'out' and q[1] == INTERPOLATE and q[4] == _site) or q[0] == 'rec' for q in strip_clone(ts))

            def ratio(n):
                return n[0] == 'binop' and n[1] == 'Div' and radius(n[2]) and bool(n[3]) and all(
                    d[0] == 'call' and (d[1] == DISTANCE or d[1].endswith('::distance')) and len(d[2]) == 3 and
                    ((centre(d[2][1]) and (state(d[2][2]) or projected(d[2][2]))) or
                     (centre(d[2][2]) and (state(d[2][1]) or projected(d[2][1])))) for d in n[3])

            def shrinks(n, depth=0):
                # a correction of the parameter: a product of the parameter carried round the loop, further ratios
                # max_angle / distance(centre, state) (below 1 where the state is still outside) and constants in (0, 1]
                if depth > 6:
                    return False
                if n[0] == 'rec' or ratio(n):
                    return True
                if n[0] == 'const':
                    c = const_float(T(n))
                    return c is not None and 0.0 < c <= 1.0
                if n[0] == 'binop' and n[1] == 'Mul':
                    return all(bool(side) and all(shrinks(m, depth + 1) for m in side) for side in (n[2], n[3]))
                if n[0] == 'binop' and n[1] == 'Sub':
                    c1, c2 = const_float(n[2]), const_float(n[3])
                    return c1 is not None and c2 is not None and 0.0 < c1 - c2 <= 1.0
                return False
            okt = bool(a_t) and any(ratio(n) for n in a_t) and all(ratio(n) or shrinks(n) for n in a_t)
            if not okt:
                probs.append('the projection parameter is %s, not max_angle / distance(centre, state): the enforced state does not end on '
                             'the cone boundary' % fmt_terms(a_t)[:80])
        r_enf.inst('%s: out-of-cone states are projected with t = max_angle / distance(centre, state) from the centre' % eb.path, ok=not probs, site=eb.loc(0))
        for o, pr in enumerate(probs):
            r_enf.violations.append(Violation('C11', 'C11.enforce', eb.path, 'projection', pr, loc=eb.loc(0), ordinal=o))


def _canon(ctx, prim):
    """assume-guarantee by interval abstract interpretation: (guarantee) the interval-space constructor stores bounds
    inside [-pi, pi]; (assume) with bounds in [-pi, pi], enforce_bounds leaves an angle in [-pi, pi], never NaN"""
    import math
    from ..interval import Interp, Iv
    r = RuleResult('C11.canon', 'enforcing bounds on an angle leaves a canonical value in [-pi, pi] (assume-guarantee with the constructor)')
    lo, hi = -math.pi * (1 + 1e-15), math.pi * (1 + 1e-15)
    n = 0
    for adt, bty in prim:
        if bty != '(f64, f64)':
            continue
        n += 1
        ctor = [b for b in ctx.lib_bodies() if b.j.get('impl_adt') == adt and b.impl_trait is None and b.name == 'new']
        ms = space_methods(ctx, adt)
        eb = ms.get('enforce_bounds')
        if not ctor or eb is None:
            r.violations.append(Violation('C11', 'C11.canon', adt, 'shape', 'constructor or enforce_bounds not found (unrecognised shape)'))
            continue
        it = Interp(ctx, ctx.core)
        res = it.analyze(ctor[0])
        stored = {k: v for k, v in res.items() if k[0] == 'ret' and 'bounds' in k}
        g_ok = len(stored) >= 2 and all(v.within(lo, hi) for v in stored.values())
        r.inst('%s stores bounds %s within [-pi, pi]' % (ctor[0].path, {'.'.join(k[-2:]): str(v) for k, v in stored.items()}), ok=g_ok, site=ctor[0].loc(0))
        if not g_ok:
            r.violations.append(Violation('C11', 'C11.canon', ctor[0].path, 'bounds-range',
                                          'the stored angular bounds are not confined to [-pi, pi]: %s' % {'.'.join(k[-2:]): str(v) for k, v in stored.items()},
                                          loc=ctor[0].loc(0)))
        it2 = Interp(ctx, ctx.core, field_inputs={('bounds', '0'): Iv(-math.pi, math.pi), ('bounds', '1'): Iv(-math.pi, math.pi)})
        out = {k: v for k, v in it2.analyze(eb).items() if k[0] == 'out'}
        a_ok = bool(out) and all(v.within(lo, hi) for v in out.values())
        r.inst('%s leaves %s' % (eb.path, {'.'.join(map(str, k[2:])): str(v) for k, v in out.items()}), ok=a_ok, site=eb.loc(0))
        if not a_ok:
            r.violations.append(Violation('C11', 'C11.canon', eb.path, 'angle-range',
                                          'after enforce_bounds the angle is not confined to [-pi, pi] / may be NaN: %s' % {'.'.join(map(str, k[2:])): str(v) for k, v in out.items()},
                                          loc=eb.loc(0)))
    if n < 1:
        r.violations.append(Violation('C11', 'C11.canon', 'oxmpl', 'floor', 'no interval-bounded (angular) space found'))
    return r


def _range_sites(ctx, b):
    """(block, terminator, start terms, end terms, inclusive) for every rand range draw in b"""
    fn = ctx.fn(b)
    out = []
    for bi, t in b.calls():
        if t['func'].get('path') not in ('rand::Rng::random_range', 'rand::Rng::gen_range'):
            continue
        r = fn.arg_terms(t, 1, bi)
        for n in r:
            if n[0] == 'agg' and n[1] in ('std::ops::Range', 'std::ops::RangeInclusive'):
                d = dict(n[3])
                out.append((bi, t, d.get('start'), d.get('end'), n[1].endswith('Inclusive')))
            elif n[0] == 'call' and n[1] == 'std::ops::RangeInclusive::<Idx>::new':
                out.append((bi, t, n[2][0], n[2][1], True))
            else:
                out.append((bi, t, None, None, False))
    return out


def _check_range_nonempty(ctx, b, bi, lo, hi, r_range, invariant_ok, ordinal):
    fn = ctx.fn(b)
    if lo is None or hi is None:
        r_range.inst('%s: range at %s unrecognised' % (b.path, b.loc(bi)), ok=False)
        r_range.violations.append(Violation('C11', 'C11.range', b.path, 'unrecognised', 'sampling range is not a literal range expression (unrecognised shape)', loc=b.loc(bi), ordinal=ordinal))
        return
    clo, chi = const_float(lo), const_float(hi)
    if clo is not None and chi is not None:
        ok = clo < chi
        r_range.inst('%s: constant range %s..%s' % (b.path, clo, chi), ok=ok, nontrivial=False)
        if not ok:
            r_range.violations.append(Violation('C11', 'C11.range', b.path, 'const', 'constant sampling range is empty', loc=b.loc(bi), ordinal=ordinal))
        return
    facts = cmp_facts(fn, bi)
    rel, used = relation_for(facts, lo, hi)
    if used and rel <= {'lt'}:
        r_range.inst('%s: range at %s guarded locally by lo < hi' % (b.path, b.loc(bi)), ok=True, site=b.loc(bi))
        return
    if invariant_ok:
        # accept {lt, un} locally: NaN is excluded by the constructor invariant too
        r_range.inst('%s: range at %s non-empty by the constructor invariant (C12.stored/nan) %s' % (
            b.path, b.loc(bi), ('+ local guard ' + str(sorted(rel))) if used else ''), ok=True, site=b.loc(bi))
        return
    r_range.inst('%s: range at %s has no guard' % (b.path, b.loc(bi)), ok=False, site=b.loc(bi))
    r_range.violations.append(Violation(
        'C11', 'C11.range', b.path, 'unguarded',
        'random_range(%s..%s) is neither guarded by lo < hi nor drawn from validated bounds fields: an empty range panics'
        % (fmt_terms(lo)[:60], fmt_terms(hi)[:60]), loc=b.loc(bi), ordinal=ordinal))


def _vec_space(ctx, adt, ms, r_same, r_range):
    su, eb, sb = ms.get('sample_uniform'), ms.get('enforce_bounds'), ms.get('satisfies_bounds')
    # sample_uniform: Range{start: bounds[i].0, end: bounds[i].1}, i the induction variable
    if su is not None:
        for o, (bi, t, lo, hi, _inc) in enumerate(_range_sites(ctx, su)):
            ok = False
            why = 'range ends are not self.bounds[i].0 .. self.bounds[i].1 for one loop index i'
            if lo is not None and hi is not None:
                rl = list(bound_reads(lo))
                rh = list(bound_reads(hi))
                if len(rl) == 1 and len(rh) == 1 and lo == T(rl[0][0]) and hi == T(rh[0][0]):
                    (_n1, i1, k1), (_n2, i2, k2) = rl[0], rh[0]
                    if k1 == '0' and k2 == '1' and i1 == i2 and i1 is not None and is_induction(i1):
                        ok = True
                    elif i1 != i2:
                        why = 'lower and upper end come from different dimensions'
                    elif not is_induction(i1 or frozenset()):
                        why = 'bounds index is not the loop induction variable'
                    else:
                        why = 'lower/upper roles swapped'
            r_same.inst('%s: dimension i is sampled from bounds[i].0..bounds[i].1' % su.path, ok=ok, site=su.loc(bi))
            if not ok:
                r_same.violations.append(Violation('C11', 'C11.same', su.path, 'range', why, loc=su.loc(bi), ordinal=o))
            _check_range_nonempty(ctx, su, bi, lo, hi, r_range, invariant_ok=ok, ordinal=o)
        if not _range_sites(ctx, su):
            r_same.violations.append(Violation('C11', 'C11.same', su.path, 'no-range', 'no random_range draw found (unrecognised shape)', loc=su.loc(0)))
    # enforce_bounds: clamp(value_i, bounds[i].0, bounds[i].1)
    if eb is not None:
        fn = ctx.fn(eb)
        n = 0
        for bi, t in eb.calls():
            if t['func'].get('path') != 'core::f64::<impl f64>::clamp':
                continue
            n += 1
            a = [fn.arg_terms(t, j, bi) for j in range(3)]
            rl, rh = list(bound_reads(a[1])), list(bound_reads(a[2]))
            ok = len(rl) == 1 and len(rh) == 1 and a[1] == T(rl[0][0]) and a[2] == T(rh[0][0]) and \
                rl[0][2] == '0' and rh[0][2] == '1' and rl[0][1] == rh[0][1] and rl[0][1] is not None and \
                is_induction(rl[0][1])
            # the clamped value is the element paired with that index (enumerate) or values[i]
            if ok:
                idx = rl[0][1]
                v = a[0]
                ok = _paired(v, idx)
            r_same.inst('%s: value i is clamped to bounds[i].0 ..= bounds[i].1' % eb.path, ok=ok, site=eb.loc(bi))
            if not ok:
                r_same.violations.append(Violation('C11', 'C11.same', eb.path, 'clamp',
                                                   'clamp limits are not (bounds[i].0, bounds[i].1) of the dimension being clamped', loc=eb.loc(bi)))
        if n == 0:
            r_same.violations.append(Violation('C11', 'C11.same', eb.path, 'no-clamp', 'no clamp found in enforce_bounds (unrecognised shape)', loc=eb.loc(0)))
        # every dimension is clamped: inside the loop the clamp is reached on every path through an iteration,
        # except behind an index-range test (i < bounds.len())
        for bi, t in eb.calls():
            if t['func'].get('path') != 'core::f64::<impl f64>::clamp':
                continue
            loops = [L for L in fn.loops() if bi in L['body']]
            if not loops:
                r_same.violations.append(Violation('C11', 'C11.same', eb.path, 'clamp-not-in-loop', 'the clamp is not inside a loop over the dimensions', loc=eb.loc(bi)))
                continue
            L = min(loops, key=lambda l: len(l['body']))
            outside = frozenset(x for x in range(fn.nb) if x not in L['body'])
            # edges that skip because of an index-range test are allowed
            allowed = set()
            for swb in L['body']:
                si = fn.switch_info(swb)
                if si is None:
                    continue
                terms, tmap, other = si
                for q in terms:
                    if q[0] == 'binop' and q[1] in ('Lt', 'Le', 'Gt', 'Ge') and \
                            any(m[0] == 'call' and m[1].endswith('::len') for side in (q[2], q[3]) for m in side):
                        # only the edge on which the range test FAILS is a legitimate skip
                        lt_true_is_other = (q[1] in ('Lt', 'Le') and any(m[0] == 'call' and m[1].endswith('::len') for m in q[3])) or \
                                           (q[1] in ('Gt', 'Ge') and any(m[0] == 'call' and m[1].endswith('::len') for m in q[2]))
                        if set(tmap.keys()) == {'0'} and lt_true_is_other:
                            allowed.add((swb, tmap['0']))
            r = fn.reachable(L['header'], removed=frozenset(allowed), stop=outside | frozenset([bi]))
            skipped = any(src in r and src != bi for (src, _d) in L['back_edges'])
            r_same.inst('%s: every dimension is clamped (no conditional skip)' % eb.path, ok=not skipped, site=eb.loc(bi))
            if skipped:
                r_same.violations.append(Violation(
                    'C11', 'C11.same', eb.path, 'clamp-skipped',
                    'a dimension can be left unclamped by enforce_bounds although satisfies_bounds tests every dimension: '
                    'after enforcing, the bounds check can still reject the state', loc=eb.loc(bi)))
    # satisfies_bounds: comparisons value_i (+/- eps) > bounds[i].1  or  < bounds[i].0 lead to `false`
    if sb is not None:
        _cmp_roles(ctx, sb, r_same, need_index=True)


def _paired(v, idx):
    """value term v belongs to the same dimension as index term idx"""
    for n in v:
        ok = False
        # enumerate: idx = unwrap(next(E)).0 , v = unwrap(next(E)).1
        for i in idx:
            if i[0] == 'zip':
                # zip: the value is the other component of the same zipped element, and that side iterates `values`
                other = '1' if i[2] == '0' else '0'
                zc = P.zip_components(i[1])
                for m in walk(T(n)):
                    if m[0] == 'field' and m[2] == other and m[1] == i[1] and zc is not None and \
                            all(q[0] == 'field' and q[2] == 'values' for q in zc[int(other)]):
                        ok = True
                continue
            if i[0] == 'field' and i[2] == '0':
                for m in walk(T(n)):
                    if m[0] == 'field' and m[2] == '1' and m[1] == i[1]:
                        ok = True
            # values[idx]
            for m in walk(T(n)):
                if m[0] == 'index' and m[2] == idx:
                    ok = True
        if not ok:
            return False
    return True


def _cmp_roles(ctx, sb, r_same, need_index):
    """every comparison that mentions a bound: 'value > bound' uses the upper bound, 'value < bound' the lower,
    bounds index == values index, and the violating outcome makes the function answer false.  Which outcome rejects is
    decided by a symbolic walk over the boolean control flow (boolpath): works for early returns, `a || b`, `!(..)`
    and materialised booleans alike."""
    from ..boolpath import explore, Overflow
    fn = ctx.fn(sb)

    def is_atom(n):
        if n[0] != 'binop' or n[1] not in ('Lt', 'Le', 'Gt', 'Ge'):
            return False
        return len(list(bound_reads(n[2]))) + len(list(bound_reads(n[3]))) == 1
    try:
        leaves = explore(fn, 0, is_atom)
    except Overflow:
        r_same.violations.append(Violation('C11', 'C11.same', sb.path, 'no-cmp', 'bounds check too branchy to analyse (unrecognised shape)', loc=sb.loc(0)))
        return
    atoms = []
    for val, _out in leaves:
        for a in val:
            if a not in atoms:
                atoms.append(a)

    def where(a):
        for bi, blk in enumerate(fn.blocks):
            if blk['cleanup']:
                continue
            for si, st in enumerate(blk['stmts']):
                if st['k'] == 'assign' and st['rv']['k'] == 'binop' and st['rv']['op'] == a[1] and fn.rvalue_terms(st['rv'], (bi, si)) == T(a):
                    return bi
        return 0
    atoms.sort(key=where)
    n_cmp = 0
    for n in atoms:
        blk = where(n)
        la, lb = list(bound_reads(n[2])), list(bound_reads(n[3]))
        n_cmp += 1
        bound_on_right = bool(lb)
        (_bn, idx, which) = (lb or la)[0]
        valside = n[2] if bound_on_right else n[3]
        op = n[1]
        # normalise to "value OP bound"
        if not bound_on_right:
            op = {'Lt': 'Gt', 'Le': 'Ge', 'Gt': 'Lt', 'Ge': 'Le'}[op]
        t_leaves = [o for (v, o) in leaves if v.get(n) is True]
        f_leaves = [o for (v, o) in leaves if v.get(n) is False]
        t_false = bool(t_leaves) and all(o == ('ret', False) for o in t_leaves)
        f_false = bool(f_leaves) and all(o == ('ret', False) for o in f_leaves)
        true_means_outside = t_false and not f_false
        false_means_outside = f_false and not t_false
        ok = False
        why = ''
        if true_means_outside:
            # value > bound  => bound must be the upper; value < bound => lower
            ok = (op in ('Gt', 'Ge') and which == '1') or (op in ('Lt', 'Le') and which == '0')
            why = 'a state %s the %s bound is reported as outside' % ('above' if op in ('Gt', 'Ge') else 'below',
                                                                      'lower' if which == '0' else 'upper')
        elif false_means_outside:
            # value >= lower must hold: (value >= bound) false => outside : bound is lower
            ok = (op in ('Gt', 'Ge') and which == '0') or (op in ('Lt', 'Le') and which == '1')
            why = 'containment test compares against the wrong end'
        else:
            why = 'cannot tell which outcome of the comparison rejects the state (unrecognised shape)'
        if ok and need_index:
            ok = idx is not None and is_induction(idx) and _paired(valside, idx)
            why = 'bounds index and values index differ or are not the loop induction variable'
        r_same.inst('%s: comparison at %s uses the %s bound on the right side of the right dimension' % (
            sb.path, fn.loc(blk), 'lower' if which == '0' else 'upper'), ok=ok, site=fn.loc(blk))
        if not ok:
            r_same.violations.append(Violation('C11', 'C11.same', sb.path, 'cmp:' + which, why, loc=fn.loc(blk), ordinal=n_cmp))
    if n_cmp < 2:
        r_same.violations.append(Violation('C11', 'C11.same', sb.path, 'no-cmp',
                                           'fewer than two comparisons against the bound fields found in the bounds check (unrecognised shape)', loc=sb.loc(0)))


def _only_false(fn, start):
    """every return reachable from `start` without passing another comparison switch assigns `_0 = false`...
    approximated: the first assignment to _0 on every path from start is the constant false"""
    seen = set()
    st = [start]
    while st:
        b = st.pop()
        if b in seen:
            continue
        seen.add(b)
        assigned = None
        for s in fn.blocks[b]['stmts']:
            if s['k'] == 'assign' and s['place']['l'] == 0 and not s['place']['p']:
                rv = s['rv']
                if rv['k'] == 'use' and 'const' in rv['op'] and rv['op']['const'].get('val') is False:
                    assigned = False
                else:
                    assigned = True
                break
        if assigned is False:
            continue
        if assigned is True:
            return False
        t = fn.blocks[b]['term']
        if t['k'] in ('return',):
            return False
        if t['k'] == 'switch':
            return False
        if t['k'] == 'call' and not t['dest']['p'] and t['dest']['l'] == 0:
            return False
        for s in fn.succs(b):
            st.append(s)
    return True


def _interval_space(ctx, adt, ms, r_same, r_range):
    su, sb = ms.get('sample_uniform'), ms.get('satisfies_bounds')
    if su is not None:
        sites = _range_sites(ctx, su)
        for o, (bi, t, lo, hi, _inc) in enumerate(sites):
            ok = False
            if lo is not None and hi is not None:
                rl, rh = list(bound_reads(lo)), list(bound_reads(hi))
                ok = len(rl) == 1 and len(rh) == 1 and lo == T(rl[0][0]) and hi == T(rh[0][0]) and \
                    rl[0][2] == '0' and rh[0][2] == '1' and rl[0][1] is None and rh[0][1] is None
            r_same.inst('%s: the angle is sampled from bounds.0..bounds.1' % su.path, ok=ok, site=su.loc(bi))
            if not ok:
                r_same.violations.append(Violation('C11', 'C11.same', su.path, 'range',
                                                   'sampling range ends are not (self.bounds.0, self.bounds.1)', loc=su.loc(bi), ordinal=o))
            _check_range_nonempty(ctx, su, bi, lo, hi, r_range, invariant_ok=ok, ordinal=o)
        if not sites:
            r_same.violations.append(Violation('C11', 'C11.same', su.path, 'no-range', 'no random_range draw found (unrecognised shape)', loc=su.loc(0)))
    if sb is not None:
        _interval_contains(ctx, sb, r_same)


def _interval_contains(ctx, sb, r_same):
    """satisfies_bounds of an interval space: result is (v >= bounds.0) && (v <= bounds.1) in some form: every
    comparison against a bound uses lower with >=/> and upper with <=/< when its true edge continues to accept"""
    fn = ctx.fn(sb)
    n_cmp = 0
    # comparisons may be switched on or assigned to _0 directly
    cmps = []
    for bi, blk in enumerate(fn.blocks):
        if blk['cleanup']:
            continue
        for si, st in enumerate(blk['stmts']):
            if st['k'] == 'assign' and st['rv']['k'] == 'binop' and st['rv']['op'] in ('Lt', 'Le', 'Gt', 'Ge'):
                ts = fn.rvalue_terms(st['rv'], (bi, si))
                cmps.append((bi, si, next(iter(ts))))
    for (bi, si, n) in cmps:
        la, lb = list(bound_reads(n[2])), list(bound_reads(n[3]))
        if len(la) + len(lb) != 1:
            continue
        n_cmp += 1
        bound_on_right = bool(lb)
        which = (lb or la)[0][2]
        op = n[1] if bound_on_right else {'Lt': 'Gt', 'Le': 'Ge', 'Gt': 'Lt', 'Ge': 'Le'}[n[1]]
        # "value OP bound" must be an *inside* test: >= lower or <= upper
        ok = (op in ('Ge', 'Gt') and which == '0') or (op in ('Le', 'Lt') and which == '1')
        r_same.inst('%s: containment test `value %s bounds.%s`' % (sb.path, op, which), ok=ok, site=fn.loc(bi, si))
        if not ok:
            r_same.violations.append(Violation('C11', 'C11.same', sb.path, 'cmp:' + which,
                                               'containment test compares the %s bound with %s' % ('lower' if which == '0' else 'upper', op),
                                               loc=fn.loc(bi, si), ordinal=n_cmp))
    # `(lower..=upper).contains(&value)`: one call stands for `value >= start && value <= end`
    for bi, t in sb.calls():
        if (t['func'].get('path') or '') not in ('std::ops::RangeInclusive::<Idx>::contains', 'std::ops::Range::<Idx>::contains') or len(t['args']) != 2:
            continue
        rg = strip_clone(fn.arg_terms(t, 0, bi))
        if len(rg) != 1:
            continue
        g = next(iter(rg))
        ends = None
        if g[0] == 'call' and g[1].endswith('::new') and 'RangeInclusive' in g[1] and len(g[2]) == 2:
            ends = (g[2][0], g[2][1])
        elif g[0] == 'agg' and g[1] in ('std::ops::RangeInclusive', 'std::ops::Range'):
            dd = dict(g[3])
            if 'start' in dd and 'end' in dd:
                ends = (dd['start'], dd['end'])
        if ends is None:
            continue
        for pos, e in enumerate(ends):
            rd = list(bound_reads(e))
            if len(rd) != 1:
                continue
            n_cmp += 1
            which = rd[0][2]
            ok = which == str(pos)
            r_same.inst('%s: range test uses bounds.%s as its %s' % (sb.path, which, 'start' if pos == 0 else 'end'), ok=ok, site=fn.loc(bi))
            if not ok:
                r_same.violations.append(Violation('C11', 'C11.same', sb.path, 'cmp:' + which,
                                                   'containment range is built with the %s bound as its %s' % (
                                                       'lower' if which == '0' else 'upper', 'start' if pos == 0 else 'end'),
                                                   loc=fn.loc(bi), ordinal=n_cmp))
    if n_cmp < 2:
        r_same.violations.append(Violation('C11', 'C11.same', sb.path, 'no-cmp',
                                           'fewer than two comparisons against bounds.0/bounds.1 in the bounds check (unrecognised shape)', loc=sb.loc(0)))


def _cone_predicate(fn, n):
    """n is a comparison node distance(self.bounds.0, X) <= self.bounds.1 (or <): return (X terms, op) else None"""
    if n[0] != 'binop' or n[1] not in ('Le', 'Lt', 'Ge', 'Gt'):
        return None
    a, b, op = n[2], n[3], n[1]
    if op in ('Ge', 'Gt'):
        a, b = b, a
        op = {'Ge': 'Le', 'Gt': 'Lt'}[op]
    # a = distance(center, X), b = radius
    rb = list(bound_reads(b))
    if not (len(rb) == 1 and b == T(rb[0][0]) and rb[0][2] == '1'):
        return None
    if len(a) != 1:
        return None
    d = next(iter(a))
    if d[0] != 'call' or not d[1].endswith('::distance') or len(d[2]) < 3:
        return None
    args = d[2][1:]
    cent = [x for x in args if list(bound_reads(x)) and all(r[2] == '0' for r in bound_reads(x))]
    oth = [x for x in args if x not in cent]
    if len(cent) != 1 or len(oth) != 1:
        return None
    return oth[0], op


def _cone_space(ctx, adt, ms, r_same, r_range):
    su, sb = ms.get('sample_uniform'), ms.get('satisfies_bounds')
    pred_sb = None
    if sb is not None:
        fn = ctx.fn(sb)
        rts = set()
        for rb in fn.return_blocks():
            rts |= fn.local_terms(0, (rb, fn.nstmts(rb)))
        ok = False
        if len(rts) == 1:
            p = _cone_predicate(fn, next(iter(rts)))
            if p is not None and all(n[0] == 'param' and n[1] == 2 for n in p[0]):
                pred_sb = p[1]
                ok = True
        r_same.inst('%s: returns distance(bounds.0, state) %s bounds.1' % (sb.path, pred_sb or '?'), ok=ok, site=sb.loc(0))
        if not ok:
            r_same.violations.append(Violation('C11', 'C11.same', sb.path, 'predicate',
                                               'bounds check is not `distance(self.bounds.0, state) <= self.bounds.1` (unrecognised shape)', loc=sb.loc(0)))
    if su is not None:
        fn = ctx.fn(su)
        for o, (bi, t, lo, hi, _inc) in enumerate(_range_sites(ctx, su)):
            _check_range_nonempty(ctx, su, bi, lo, hi, r_range, invariant_ok=False, ordinal=o)
        # every Ok(x) return where x is a freshly drawn state must be guarded by the bounds predicate on x
        n_ok = 0
        for bi, blk in enumerate(fn.blocks):
            if blk['cleanup']:
                continue
            for si, st in enumerate(blk['stmts']):
                if not (st['k'] == 'assign' and st['place']['l'] == 0 and not st['place']['p'] and
                        st['rv']['k'] == 'agg' and st['rv'].get('variant_name') == 'Ok'):
                    continue
                val = fn.op_terms(st['rv']['fields'][0], (bi, si))
                val = strip_clone(val)
                if all(list(bound_reads(T(n))) and T(n) == T(list(bound_reads(T(n)))[0][0]) for n in val):
                    # returning the cone centre itself.  Over the reals it is inside for any radius >= 0; in floating point the
                    # bounds check computes distance(c, c) = 2 acos(c.c), and c.c of a generic unit quaternion rounds to
                    # 1 - 1.1e-16, i.e. 4.2e-8 rad: for a cone narrower than that the centre fails its own check (recorded
                    # finding: findings/demo_main.rs c11_so3_point_cone)
                    r_same.inst('%s: the cone centre returned at %s is accepted by the bounds check' % (su.path, fn.loc(bi, si)), ok=False, site=fn.loc(bi, si))
                    r_same.violations.append(Violation(
                        'C11', 'C11.same', su.path, 'centre-return',
                        'the stored centre is returned as a sample without the bounds check: distance(c, c) is computed as 2 acos(c.c), '
                        'about 4e-8 rad for a generic unit centre, so for a narrower cone (radius 0 is legal) the sample fails satisfies_bounds',
                        loc=fn.loc(bi, si)))
                    continue
                n_ok += 1
                # guarded by predicate on exactly this value, or by satisfies_bounds(self, value)
                good = False
                for sbk in range(fn.nb):
                    sinfo = fn.switch_info(sbk)
                    if sinfo is None or fn.blocks[sbk]['cleanup']:
                        continue
                    terms, tmap, other = sinfo
                    if len(terms) != 1 or set(tmap.keys()) != {'0'}:
                        continue
                    n = next(iter(terms))
                    t_edge = (sbk, other)
                    if n[0] == 'call' and n[1] == SS + 'satisfies_bounds' and same(n[2][1], val):
                        if bi not in fn.reachable(0, removed=frozenset([t_edge])):
                            good = True
                    p = _cone_predicate(fn, n)
                    if p is not None and same(p[0], val):
                        # sampler may be stricter than the checker: Lt implies Le
                        if (pred_sb in (None, 'Le')) or (pred_sb == 'Lt' and p[1] == 'Lt'):
                            if bi not in fn.reachable(0, removed=frozenset([t_edge])):
                                good = True
                r_same.inst('%s: sample returned at %s passed the bounds predicate' % (su.path, fn.loc(bi, si)), ok=good, site=fn.loc(bi, si))
                if not good:
                    r_same.violations.append(Violation(
                        'C11', 'C11.same', su.path, 'acceptance',
                        'a sampled state is returned without having passed `distance(bounds.0, q) <= bounds.1` on that very state',
                        loc=fn.loc(bi, si), ordinal=n_ok))
        if n_ok == 0:
            r_same.violations.append(Violation('C11', 'C11.same', su.path, 'no-sample', 'no sampled Ok return found (unrecognised shape)', loc=su.loc(0)))


# ---------------------------------------------------------------------------------------------------------------------
# C11.accept - interval spaces: the value enforce_bounds leaves behind is accepted by satisfies_bounds
def _all_state_stores(fn, param=2):
    out = []
    for bi, blk in enumerate(fn.blocks):
        if blk['cleanup']:
            continue
        for si, st in enumerate(blk['stmts']):
            if st['k'] == 'assign' and st['place']['l'] == param and st['place']['p'] and st['place']['p'][0] == 'deref':
                out.append((bi, si, None, None))
    return out


def _final_state_stores(fn, param=2):
    """stores into *param (whole, or its fields) from which a return is reachable without another such store:
    [(block, idx, field name or None, value terms)]"""
    stores = []
    for bi, blk in enumerate(fn.blocks):
        if blk['cleanup']:
            continue
        for si, st in enumerate(blk['stmts']):
            if st['k'] != 'assign':
                continue
            pl = st['place']
            if pl['l'] != param or not pl['p'] or pl['p'][0] != 'deref':
                continue
            names = [e.get('name') for e in pl['p'] if isinstance(e, dict) and 'f' in e]
            stores.append((bi, si, names[0] if names else None, fn.rvalue_terms(st['rv'], (bi, si))))
    blocks = {(b, i) for (b, i, _f, _v) in stores}
    out = []
    rets = set(fn.return_blocks())
    for (b, i, f, v) in stores:
        # a later store in the same block overrides
        if any(b2 == b and i2 > i for (b2, i2) in blocks):
            continue
        stop = frozenset(b2 for (b2, _i2) in blocks if b2 != b)
        r = fn.reachable_multi(fn.succs(b), stop=stop) if fn.succs(b) else set()
        if b in rets or any(x in rets and x not in stop for x in r):
            out.append((b, i, f, v))
    return out


def _accept(ctx, prim):
    """symbolic evaluation of the bounds check on each value enforce_bounds can leave behind (a stored bound), using
    only order facts that hold for the stored bounds (lower < upper, both inside [-pi, pi]) and treating every function
    result as an unknown value: a check that first re-computes the value (e.g. re-wraps an already canonical angle,
    which is neither exact in floating point nor the identity at +pi) cannot be shown to accept it."""
    import math
    from ..boolpath import explore, Overflow
    r = RuleResult('C11.accept', 'interval spaces: the value enforce_bounds leaves behind passes satisfies_bounds (symbolic evaluation of the check on the stored bounds)')
    n_sp = 0
    PI = math.pi
    for adt, bty in prim:
        if bty != '(f64, f64)':
            continue
        ms = space_methods(ctx, adt)
        eb, sb = ms.get('enforce_bounds'), ms.get('satisfies_bounds')
        if eb is None or sb is None:
            continue
        n_sp += 1
        fe, fs = ctx.fn(eb), ctx.fn(sb)
        # ---- what enforce_bounds leaves
        left = []
        probs = []
        all_stores = _all_state_stores(fe)
        for (b, i, f, v) in _final_state_stores(fe):
            vals = v if f is not None else fe._field(v, 'value')
            for n in strip_clone(vals):
                rd = list(bound_reads(T(n)))
                if n[0] == 'field' and len(rd) == 1 and rd[0][0] == n and rd[0][1] is None:
                    left.append(('lower' if rd[0][2] == '0' else 'upper', b))
                elif f is None or True:
                    # canonicalisation (of the whole state, or of its angle field): what it stores is left behind only through the accepting edge of the
                    # bounds check made on the state afterwards (canonicalising *after* the test leaves a value no test
                    # has seen: wrapping is not exact and maps +pi to -pi)
                    te, _fe, _sb = fe.bool_edges(lambda m: m[0] == 'call' and m[1] == SS + 'satisfies_bounds' and len(m[2]) == 2 and
                                                 bool(m[2][1]) and all(q[0] == 'param' and q[1] == 2 for q in m[2][1]))
                    others = frozenset(b2 for (b2, _i2, _f2, _v2) in all_stores if b2 != b)
                    reach = fe.reachable_multi(fe.succs(b), removed=frozenset(te), stop=others) if fe.succs(b) else set()
                    rets = set(fe.return_blocks())
                    bad_ = b in rets or any(x in rets and x not in others for x in reach)
                    r.inst('%s: the canonicalised state stored at %s is left behind only through the accepting edge of the bounds check' % (
                        adt.rsplit('::', 1)[1], fe.loc(b, i)), ok=not bad_, site=fe.loc(b, i))
                    if bad_:
                        probs.append('enforce_bounds can return with the state it stored at %s although no bounds check accepted that value '
                                     'afterwards (the state is recomputed after, or without, the test)' % fe.loc(b, i))
                    break
                else:
                    probs.append('enforce_bounds can leave the value %s, which is neither a stored bound nor a value the check has accepted' % fmt_terms(T(n))[:60])
        if not left and not probs:
            probs.append('enforce_bounds never assigns a stored bound (unrecognised shape)')

        # ---- the check, symbolically
        def sym(ts):
            ts = strip_clone(ts)
            if len(ts) != 1:
                return None
            n = next(iter(ts))
            rd = list(bound_reads(ts))
            if n[0] == 'field' and len(rd) == 1 and rd[0][0] == n and rd[0][1] is None:
                return 'lower' if rd[0][2] == '0' else 'upper'
            c = const_float(ts)
            if c is not None:
                return ('const', c)
            if n[0] == 'unop' and n[1] == 'Neg':
                c = const_float(n[2])
                if c is not None:
                    return ('const', -c)
            if n[0] == 'field' and n[2] == 'value' and all(m[0] == 'param' and m[1] == 2 for m in n[1]):
                return 'value'
            return ('opaque', fmt_terms(ts)[:50])

        def range_parts(n):
            """(start terms, end terms, item terms) of `(a..=b).contains(&x)`"""
            if n[0] != 'call' or n[1] != 'std::ops::RangeInclusive::<Idx>::contains' or len(n[2]) != 2:
                return None
            rg = strip_clone(n[2][0])
            if len(rg) != 1:
                return None
            g = next(iter(rg))
            if g[0] == 'call' and g[1] == 'std::ops::RangeInclusive::<Idx>::new' and len(g[2]) == 2:
                return g[2][0], g[2][1], n[2][1]
            if g[0] == 'agg' and g[1] == 'std::ops::RangeInclusive':
                dd = dict(g[3])
                if 'start' in dd and 'end' in dd:
                    return dd['start'], dd['end'], n[2][1]
            return None

        def is_atom(n):
            return (n[0] == 'binop' and n[1] in ('Lt', 'Le', 'Gt', 'Ge', 'Eq', 'Ne')) or range_parts(n) is not None
        try:
            leaves = explore(fs, 0, is_atom)
        except Overflow:
            leaves = None
            probs.append('bounds check too branchy to evaluate (unrecognised shape)')

        # intervals (lo, lo_open, hi, hi_open) of the stored bounds: lower in [-pi, pi), upper in (-pi, pi]
        IV = {'lower': (-PI, False, PI, True), 'upper': (-PI, True, PI, False)}

        def rel(a, b, case):
            """possible order relations between two symbols when `value` is the stored bound `case`"""
            a = case if a == 'value' else a
            b = case if b == 'value' else b
            if isinstance(a, tuple) and a[0] == 'opaque' or isinstance(b, tuple) and b[0] == 'opaque':
                return {'lt', 'eq', 'gt', 'un'}
            if a == b:
                return {'eq'}
            if (a, b) == ('lower', 'upper'):
                return {'lt'}
            if (a, b) == ('upper', 'lower'):
                return {'gt'}
            ia = (a[1], False, a[1], False) if isinstance(a, tuple) else IV[a]
            ib = (b[1], False, b[1], False) if isinstance(b, tuple) else IV[b]
            out = set()
            # a < b possible?
            if ia[0] < ib[2]:
                out.add('lt')
            if ia[2] > ib[0]:
                out.add('gt')
            lo, hi = max(ia[0], ib[0]), min(ia[2], ib[2])
            if lo < hi or (lo == hi and not ((ia[0] == lo and ia[1]) or (ib[0] == lo and ib[1]) or (ia[2] == hi and ia[3]) or (ib[2] == hi and ib[3]))):
                out.add('eq')
            return out
        ACC = {'Lt': {'lt'}, 'Le': {'lt', 'eq'}, 'Gt': {'gt'}, 'Ge': {'gt', 'eq'}, 'Eq': {'eq'}, 'Ne': {'lt', 'gt', 'un'}}
        for case in sorted({c for c, _b in left}):
            if leaves is None:
                break
            bad = None
            for (val, out) in leaves:
                consistent = True
                for atom, tv in val.items():
                    rp = range_parts(atom)
                    if rp is not None:
                        # start <= x && x <= end
                        s0, s1, sx = sym(rp[0]), sym(rp[1]), sym(rp[2])
                        if s0 is None or s1 is None or sx is None:
                            continue
                        r1, r2 = rel(s0, sx, case), rel(sx, s1, case)
                        if r1 <= {'lt', 'eq'} and r2 <= {'lt', 'eq'} and tv is False:
                            consistent = False
                        if (not (r1 & {'lt', 'eq'}) or not (r2 & {'lt', 'eq'})) and tv is True:
                            consistent = False
                        continue
                    a, b_ = sym(atom[2]), sym(atom[3])
                    if a is None or b_ is None:
                        continue
                    rs = rel(a, b_, case)
                    acc = ACC[atom[1]]
                    if rs <= acc and tv is False:
                        consistent = False
                    if not (rs & acc) and tv is True:
                        consistent = False
                if consistent and out != ('ret', True):
                    bad = (val, out)
                    break
            ok = bad is None
            r.inst('%s: satisfies_bounds accepts a state whose value is the stored %s bound' % (adt.rsplit('::', 1)[1], case), ok=ok, site=sb.loc(0))
            if not ok:
                def _fa(a, tv):
                    try:
                        return '%s %s %s is %s' % (fmt_terms(a[2])[:40], a[1], fmt_terms(a[3])[:30], tv)
                    except Exception:
                        return '%s is %s' % (str(a)[:70], tv)
                why = ', '.join(_fa(a, tv) for a, tv in bad[0].items())
                r.violations.append(Violation(
                    'C11', 'C11.accept', sb.path, 'left:' + case,
                    'enforce_bounds can leave the stored %s bound in the state, but the bounds check cannot be shown to accept it: the check '
                    'does not compare the value itself (it recomputes it first - re-wrapping an already canonical angle is not exact in floating '
                    'point and maps +pi to -pi), so the outcome [%s] is possible' % (case, why), loc=sb.loc(0)))
        for o, pr in enumerate(dict.fromkeys(probs)):
            r.violations.append(Violation('C11', 'C11.accept', eb.path, 'shape', pr, loc=eb.loc(0), ordinal=o))
    if n_sp < 1:
        r.violations.append(Violation('C11', 'C11.accept', 'oxmpl', 'floor', 'no interval-bounded space found (floor 1)'))
    return r


def _unit(ctx, prim, r):
    """cone spaces: every value enforce_bounds writes into the state is a unit quaternion by construction: the Ok payload of
    the state's own normalise(), a literal / constructor whose components have unit norm (identity), the stored centre, or
    the output of the space's interpolate.  `unwrap_or_default()` / `Default::default()` (the zero quaternion) and other
    values are reported: enforcing would leave a non-unit rotation."""
    for adt, bty in prim:
        if bty.startswith('std::vec::Vec<') or bty == '(f64, f64)':
            continue
        ms = space_methods(ctx, adt)
        eb = ms.get('enforce_bounds')
        if eb is None:
            continue
        fn = ctx.fn(eb)
        probs = []
        n = 0

        def unit_literal(node):
            if node[0] != 'agg' or len(node[3]) != 4:
                return False
            vals = [const_float(t) for (_f, t) in node[3]]
            return None not in vals and abs(sum(v * v for v in vals) - 1.0) < 1e-12

        def ok_value(node, depth=0):
            k = node[0]
            if k == 'clone':
                return all(ok_value(m, depth) for m in node[1])
            if k == 'unwrap':
                return all(m[0] == 'call' and m[1].rsplit('::', 1)[-1] in ('normalise', 'normalize') for m in node[1])
            if k == 'agg':
                return unit_literal(node)
            if k == 'field' and node[2] == '0' and self_field(node[1], 'bounds'):
                return True             # the stored centre (C12: normalised by the constructor)
            if k == 'out' and node[1].endswith('::interpolate'):
                return True
            if k == 'call' and node[1].startswith(('std::result::Result::<T, E>::', 'std::option::Option::<T>::')) and node[2]:
                m_ = node[1].rsplit('::', 1)[1]
                recv_ok = all(x[0] == 'call' and x[1].rsplit('::', 1)[-1] in ('normalise', 'normalize') for x in node[2][0])
                if m_ == 'unwrap_or' and len(node[2]) == 2:
                    return recv_ok and all(ok_value(x, depth) for x in node[2][1])
                if m_ == 'unwrap_or_else' and len(node[2]) == 2:
                    oks = []
                    for x in node[2][1]:
                        cb_ = ctx.core.body(x[1]) if x[0] == 'closure' else None
                        if cb_ is None:
                            return False
                        f3 = ctx.fn(cb_)
                        rt3 = set()
                        for rb in f3.return_blocks():
                            rt3 |= f3.local_terms(0, (rb, f3.nstmts(rb)))
                        oks.append(bool(rt3) and all(ok_value(y, depth + 1) for y in rt3))
                    return recv_ok and bool(oks) and all(oks)
                if m_ in ('unwrap', 'expect'):
                    return recv_ok
                return False
            if k == 'call' and depth < 3:
                cb = ctx.core.body(node[1])
                if cb is not None and cb.kind in ('Fn', 'AssocFn') and not cb.arg_count:
                    f2 = ctx.fn(cb)
                    rt = set()
                    for rb in f2.return_blocks():
                        rt |= f2.local_terms(0, (rb, f2.nstmts(rb)))
                    return bool(rt) and all(ok_value(m, depth + 1) for m in rt)
                if cb is not None and cb.kind in ('Fn', 'AssocFn') and cb.arg_count == len(node[2]):
                    # a constructor that only assembles its arguments (`SO3State::new(0., 0., 0., 1.)`): instantiate its literal
                    f2 = ctx.fn(cb)
                    rt = set()
                    for rb in f2.return_blocks():
                        rt |= f2.local_terms(0, (rb, f2.nstmts(rb)))
                    inst = []
                    for m in rt:
                        if m[0] != 'agg':
                            return False
                        fields = []
                        for (fname, ft) in m[3]:
                            if not (ft and all(q[0] == 'param' and 1 <= q[1] <= len(node[2]) for q in ft)):
                                return False
                            sub = set()
                            for q in ft:
                                sub |= set(node[2][q[1] - 1])
                            fields.append((fname, frozenset(sub)))
                        inst.append((m[0], m[1], m[2], tuple(fields)))
                    return bool(inst) and all(ok_value(m, depth + 1) for m in inst)
            return False
        for bi, blk in enumerate(eb.blocks):
            if blk['cleanup']:
                continue
            for si, st in enumerate(blk['stmts']):
                if st['k'] != 'assign' or st['place']['l'] != 2 or st['place']['p'] != ['deref']:
                    continue
                n += 1
                for node in fn.rvalue_terms(st['rv'], (bi, si)):
                    if not ok_value(node):
                        probs.append('enforce_bounds can store %s into the state: not the normalised state, a unit literal, the stored centre or an '
                                     'interpolation result (e.g. `unwrap_or_default()` yields the zero quaternion)' % fmt_terms(T(node))[:70])
        r.inst('%s: every rotation enforce_bounds writes is unit by construction (%d whole-state stores)' % (eb.path, n), ok=not probs, site=eb.loc(0))
        for o, pr in enumerate(dict.fromkeys(probs)):
            r.violations.append(Violation('C11', 'C11.canon', eb.path, 'unit', pr, loc=eb.loc(0), ordinal=o))
