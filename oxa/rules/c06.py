"""C06 — solve honours its timeout and never blocks indefinitely (loop discipline; wall-clock figures not decided).

C06.loops     every natural loop in every function reachable from the planner API is iterator-bounded, deadline-
              guarded, or a parent walk whose termination is a checked rule (C15.walk / C15.acyclic / C18.bfs)
C06.deadline  each deadline test compares elapsed() of an Instant taken in the same call before the loop with the
              timeout parameter / field unmodified, leaves the loop when elapsed is greater, and ends in Err(Timeout)
              (roadmap construction: the normal Ok(()) return)
C06.divisor   the divisor of the motion-check step count cannot be zero: every value stored into a resolution field is
              a positive constant or a parameter under a dominating `> 0` guard
C06.errors    the roadmap query returns NoSolutionFound when start or goal cannot be attached or the search is exhausted
"never a path on an infeasible world" is C01 + C03 (referenced, not re-proved).
"""
from ..core import RuleResult, Violation, user_call, LVS
from ..engine import walk, fmt_terms, strip_clone, T
from .. import planner as P
from .c12 import cmp_facts, relation_for, const_float, space_adts
from .c01 import _errs_from, _ok_blocks

META = {
    'explanation': 'C06: no loop reachable from the planner API can run without an iterator bound or a deadline check; '
                   'deadline checks use a clock started in the same call, compare against the caller\'s timeout and lead '
                   'to the documented error; the one user-controlled quantity that sizes an iterator-bounded loop (the '
                   'motion-check step count) cannot have a zero divisor; PRM reports NoSolutionFound. Wall-clock bounds '
                   'and the cost of user callbacks are not decided.',
    'assumptions': ['user callbacks terminate', 'std iterators over finite collections terminate', 'compound weights are positive',
                    'C15.walk / C15.acyclic (tree walks terminate), C18.bfs (parent map is acyclic)'],
}

BOUNDED_ITER = ('std::ops::Range<', 'std::ops::RangeInclusive<', 'std::slice::Iter<', 'std::slice::IterMut<',
                'std::iter::Enumerate<', 'std::iter::Skip<', 'std::iter::Zip<', 'std::iter::Map<', 'std::iter::Take<',
                'std::iter::Rev<', 'std::vec::IntoIter<', 'std::collections::vec_deque::Iter<', 'std::iter::Copied<',
                'std::iter::Cloned<', 'std::iter::Filter<', 'std::iter::Chain<', 'std::collections::hash_map::Iter<',
                'std::vec::Drain<', 'std::iter::StepBy<', 'std::iter::Peekable<')
UNBOUNDED_HINT = ('RangeFrom', 'Repeat', 'Cycle', 'FromFn', 'Successors', 'RepeatWith')


def _counter_bounded(fn, L):
    """a loop whose every cycle passes a test `c < n` / `c <= n` (failing edge leaves the loop) and an increment of c by a
    positive constant, with the integer n not assigned inside the loop: returns a description, else None"""
    from ..motion import _root_local, _single_def
    body = L['body']
    outside = frozenset(x for x in range(fn.nb) if x not in body)
    for b in sorted(body):
        t = fn.blocks[b]['term']
        if t['k'] != 'switch':
            continue
        for si, st in enumerate(fn.blocks[b]['stmts']):
            if not (st['k'] == 'assign' and st['rv']['k'] == 'binop' and st['rv']['op'] in ('Lt', 'Le', 'Gt', 'Ge')):
                continue
            a_, b_, op = _root_local(fn, st['rv']['a']), _root_local(fn, st['rv']['b']), st['rv']['op']
            if a_ is None or b_ is None:
                continue
            if op in ('Gt', 'Ge'):
                a_, b_ = b_, a_
            cnt, lim = a_, b_
            if not fn.b.local_ty(cnt).startswith(('usize', 'u32', 'u64', 'i32', 'i64', 'isize')):
                continue
            tm = {str(v): tg for v, tg in t['targets']}
            f_t = tm.get('0')
            if f_t is None or f_t in body:
                continue
            # every cycle passes the test
            r = fn.reachable(L['header'], stop=outside | frozenset([b]))
            if b != L['header'] and any(src in r and src != b for (src, _d) in L['back_edges']):
                continue
            # the limit is not written in the loop
            if any(e.block in body for e in fn.events(lim)):
                continue
            # the counter's only definition in the loop adds a positive constant, on every cycle
            ins = [e for e in fn.events(cnt) if e.block in body and not e.path]
            if len(ins) != 1 or ins[0].kind != 'assign':
                continue
            rvi = ins[0].data['rv']
            inc = False
            if rvi['k'] == 'binop' and rvi['op'] in ('Add', 'AddUnchecked'):
                inc = _root_local(fn, rvi['a']) == cnt and int(rvi['b'].get('const', {}).get('ival', '0') or 0) > 0
            elif rvi['k'] == 'use':
                src = rvi['op'].get('move') or rvi['op'].get('copy')
                if src is not None and len(src['p']) == 1 and isinstance(src['p'][0], dict) and src['p'][0].get('f') == 0:
                    e2 = _single_def(fn, src['l'])
                    if e2 is not None and e2.kind == 'assign' and e2.data['rv']['k'] == 'binop' and e2.data['rv']['op'] == 'AddWithOverflow':
                        pa = e2.data['rv']['a'].get('move') or e2.data['rv']['a'].get('copy')
                        inc = pa is not None and not pa['p'] and pa['l'] == cnt and int(e2.data['rv']['b'].get('const', {}).get('ival', '0') or 0) > 0
            if not inc:
                continue
            r2 = fn.reachable(L['header'], stop=outside | frozenset([ins[0].block]))
            if any(src in r2 and src != ins[0].block for (src, _d) in L['back_edges']):
                continue
            return 'counter %s < %s' % (fn.b.local_name(cnt) or cnt, fn.b.local_name(lim) or lim)
    return None


def classify_loop(ctx, fn, L):
    """returns (kind, detail) kind in 'iterator' | 'deadline' | 'unbounded'"""
    body = L['body']
    h = L['header']
    outside = frozenset(x for x in range(fn.nb) if x not in body)
    # ---- iterator bounded
    for b in sorted(body):
        t = fn.blocks[b]['term']
        if t['k'] == 'call' and t['func'].get('path') == 'std::iter::Iterator::next' and t['target'] is not None:
            sw = t['target']
            si = fn.switch_info(sw)
            if si is None:
                continue
            terms, tmap, other = si
            if not terms or not all(n[0] == 'discr' for n in terms):
                continue
            none_t = tmap.get('0')
            if none_t is None or none_t in body:
                continue
            # every cycle passes the next() call
            r = fn.reachable(h, stop=outside | frozenset([b]))
            cyc = any(src in r and src != b for (src, _d) in L['back_edges']) if b != h else False
            if cyc:
                continue
            ity = t['func'].get('self_ty') or ''
            if not ity:
                pl = t['args'][0].get('move') or t['args'][0].get('copy')
                ity = fn.b.local_ty(pl['l']) if pl else ''
            ity = ity.replace('&mut ', '')
            if any(hh in ity for hh in UNBOUNDED_HINT):
                return 'unbounded', 'iterates over the unbounded iterator %s' % ity[:60]
            if ity.startswith(BOUNDED_ITER):
                return 'iterator', ity[:60]
            return 'unbounded', 'iterates over %s (not in the table of bounded iterators)' % ity[:60]
    # ---- counter bounded:  while i < n { .. i += 1 .. }  with n not written in the loop
    cb_ = _counter_bounded(fn, L)
    if cb_ is not None:
        return 'iterator', cb_
    # ---- deadline guarded
    for b in sorted(body):
        si = fn.switch_info(b)
        if si is None:
            continue
        terms, tmap, other = si
        if len(terms) != 1 or set(tmap.keys()) != {'0'}:
            continue
        n = next(iter(terms))
        el, to, op = None, None, None
        if n[0] == 'call' and n[1] in ('std::cmp::PartialOrd::gt', 'std::cmp::PartialOrd::ge', 'std::cmp::PartialOrd::lt', 'std::cmp::PartialOrd::le'):
            el, to, op = n[2][0], n[2][1], n[1].rsplit('::', 1)[1]
        elif n[0] == 'binop' and n[1] in ('Gt', 'Ge', 'Lt', 'Le'):
            el, to, op = n[2], n[3], n[1].lower()
        if el is None:
            continue
        if op in ('lt', 'le'):
            el, to = to, el
        absolute = False
        if not any(m[0] == 'call' and m[1].endswith('Instant::elapsed') for m in walk(el)):
            # second idiom: `Instant::now() > deadline` with the clock read afresh inside the loop and
            # deadline = <Instant taken before the loop> + timeout
            fresh = [m for m in walk(el) if m[0] == 'call' and m[1].endswith('Instant::now') and m[3][0] == fn.path and m[3][1] in body]
            base = [m for m in walk(to) if m[0] == 'call' and m[1].endswith('Instant::now')]
            if not fresh or not base or any(m[0] == 'call' and m[1].endswith('Instant::now') and m[3][1] in body for m in walk(to)):
                continue
            absolute = True
        exit_t = other     # the edge taken when elapsed > timeout
        if exit_t in body:
            continue
        r = fn.reachable(h, stop=outside | frozenset([b]))
        if any(src in r and src != b for (src, _d) in L['back_edges']) and b != h:
            continue
        return 'deadline', (b, el, to, exit_t, absolute)
    return 'unbounded', 'no iterator bound and no deadline test on every cycle'


def run(ctx, tier):
    r_loops = RuleResult('C06.loops', 'every reachable loop is iterator-bounded, deadline-guarded or a checked parent walk')
    r_dl = RuleResult('C06.deadline', 'deadline tests use a clock of the same call, the caller\'s timeout, the right polarity and error')
    r_div = RuleResult('C06.divisor', 'resolution fields only ever hold positive values (the step-count divisor is never zero)')
    r_err = RuleResult('C06.errors', 'the roadmap query reports NoSolutionFound when nothing connects or the search is exhausted')
    planners = ctx.planners()
    entries = [b for p in planners for b in p['entry']]
    reach = ctx.reach_set(entries)
    extractor_paths = {b.path for p in planners for b in p['methods'] if b.j.get('ret_ty', '').startswith('base::planner::Path<')}
    n_dead = {}
    n_loops = 0
    for b in sorted(reach, key=lambda x: x.path):
        fn = ctx.fn(b)
        for k, L in enumerate(fn.loops()):
            n_loops += 1
            kind, detail = classify_loop(ctx, fn, L)
            where = fn.loc(L['header'])
            if kind == 'iterator':
                r_loops.inst('%s: loop at %s is bounded by %s' % (b.path, where, detail), ok=True, nontrivial=False, site=where)
            elif kind == 'deadline':
                r_loops.inst('%s: loop at %s is deadline-guarded' % (b.path, where), ok=True, site=where)
                _deadline(ctx, planners, b, fn, L, detail, r_dl)
                for p in planners:
                    if b in p['methods']:
                        n_dead[p['name']] = n_dead.get(p['name'], 0) + 1
            elif b.path in extractor_paths:
                r_loops.inst('%s: parent walk at %s terminates by C15.walk + C15.acyclic / C18.bfs' % (b.path, where), ok=True, site=where)
            else:
                r_loops.inst('%s: loop at %s: %s' % (b.path, where, detail), ok=False, site=where)
                r_loops.violations.append(Violation('C06', 'C06.loops', b.path, 'loop', 'unbounded loop: %s' % detail, loc=where, ordinal=k))
    r_loops.notes.append('%d loops in %d functions reachable from %d entry points' % (n_loops, len(reach), len(entries)))
    for p in planners:
        if n_dead.get(p['name'], 0) < 1:
            r_dl.violations.append(Violation('C06', 'C06.deadline', p['adt'], 'floor', 'planner %s has no deadline-guarded loop (floor 1)' % p['name']))

    # ---------------------------------------------------------------- divisor
    n_store = 0
    # the types that hold a resolution: the spaces themselves, or a small value type of the crate that a space keeps in a field
    # (`resolution: MotionResolution { fraction }`): its own methods are then the only writers of the number
    def _res_fields(a):
        vs = ctx.core.adts.get(a, {}).get('variants') or [{}]
        return [f['name'] for f in vs[0].get('fields', []) if f['ty'] == 'f64' and ('fraction' in f['name'] or 'resolution' in f['name'])]
    holders = {}
    n_via = {}
    for adt in space_adts(ctx):
        if _res_fields(adt):
            holders[adt] = _res_fields(adt)
            n_via[adt] = 1
            continue
        for f in ctx.core.adts[adt]['variants'][0]['fields']:
            h = f['ty'].split('<', 1)[0]
            if h in ctx.core.adts and h != adt and _res_fields(h):
                holders[h] = _res_fields(h)
                n_via[h] = n_via.get(h, 0) + 1
    for adt, res in holders.items():
        for b in ctx.lib_bodies():
            if b.j.get('impl_adt') != adt or b.kind != 'AssocFn':
                continue
            fn = ctx.fn(b)
            ordn = 0
            for bi, blk in enumerate(b.blocks):
                if blk['cleanup']:
                    continue
                for si, st in enumerate(blk['stmts']):
                    if st['k'] != 'assign':
                        continue
                    vals = []
                    pl = st['place']
                    names = [e.get('name') for e in pl['p'] if isinstance(e, dict) and 'f' in e]
                    if names and names[-1] in res and any(e == 'deref' for e in pl['p']):
                        vals.append((names[-1], fn.rvalue_terms(st['rv'], (bi, si))))
                    elif st['rv']['k'] == 'agg' and st['rv'].get('adt') == adt:
                        fnames = st['rv']['field_names']
                        for k, f in enumerate(st['rv']['fields']):
                            if fnames[k] in res:
                                vals.append((fnames[k], fn.op_terms(f, (bi, si))))
                    # a value chosen by a `match` / `if` expression: judge each arm where it is computed
                    if len(vals) == 1 and st['rv']['k'] == 'use' and len(vals[0][1]) > 1:
                        defs = fn.split_defs(st['rv']['op'], (bi, si))
                        if len(defs) > 1:
                            n_store += n_via[adt]
                            fname = vals[0][0]
                            for (db, di, vt) in defs:
                                if vt and all(n[0] == 'field' and n[2] == fname and all(q[0] == 'param' for q in n[1]) for n in strip_clone(vt)):
                                    r_div.inst('%s: %s keeps its value' % (b.path, fname), ok=True, nontrivial=False)
                                    continue
                                ok, why = _positive(fn, db, vt)
                                r_div.inst('%s: value chosen for %s at %s is positive (%s)' % (b.path, fname, b.loc(db, di), fmt_terms(vt)[:30]),
                                           ok=ok, site=b.loc(db, di))
                                if not ok:
                                    r_div.violations.append(Violation(
                                        'C06', 'C06.divisor', b.path, fname,
                                        '%s can be set to a non-positive value (%s): the motion check divides by it and its step count becomes unbounded'
                                        % (fname, why), loc=b.loc(db, di), ordinal=ordn))
                                    ordn += 1
                            continue
                    for (fname, vt) in vals:
                        n_store += n_via[adt]
                        # copying the same field of another instance (Clone) preserves positivity inductively
                        if vt and all(n[0] == 'field' and n[2] == fname and all(q[0] == 'param' for q in n[1]) for n in strip_clone(vt)):
                            r_div.inst('%s: %s is copied from another instance' % (b.path, fname), ok=True, nontrivial=False)
                            continue
                        ok, why = _positive(fn, bi, vt)
                        r_div.inst('%s: value stored into %s at %s is positive (%s)' % (b.path, fname, b.loc(bi, si), fmt_terms(vt)[:30]),
                                   ok=ok, site=b.loc(bi, si))
                        if not ok:
                            r_div.violations.append(Violation(
                                'C06', 'C06.divisor', b.path, fname,
                                '%s can be set to a non-positive value (%s): the motion check divides by it and its step count becomes unbounded'
                                % (fname, why), loc=b.loc(bi, si), ordinal=ordn))
                            ordn += 1
    if n_store < 6:
        r_div.violations.append(Violation('C06', 'C06.divisor', 'oxmpl', 'floor', 'only %d stores to resolution fields found (floor 6)' % n_store))

    # ---------------------------------------------------------------- errors (roadmap planners)
    from .c18 import roadmap_planners
    for p in roadmap_planners(ctx):
        for b in p['methods']:
            if b.name != 'solve' or not b.impl_trait:
                continue
            fn = ctx.fn(b)
            probs = []
            # the search loop: contains a pop from a VecDeque
            search = [L for L in fn.loops() if any(t['func'].get('path', '').endswith(('::pop_front', '::pop_back')) for bi, t in b.calls() if bi in L['body'])]
            if not search:
                probs.append('no search loop found (unrecognised shape)')
            for L in search:
                # (i) an emptiness test of the start-connection / goal lists leading to NoSolutionFound dominates the loop
                te, fe, sbs = fn.bool_edges(lambda n: n[0] == 'call' and n[1] == 'std::vec::Vec::<T, A>::is_empty')
                gate = False
                for (s, d) in te:
                    if _errs_from(fn, [d]) == {'NoSolutionFound'}:
                        gate = True
                if not gate:
                    probs.append('no `nothing to connect` test returning NoSolutionFound before the search')
                # (ii) exhaustion: every exit of the search loop that is not the goal-found break ends in NoSolutionFound or Ok
                for (src, dst) in L['exits']:
                    outs = _errs_from(fn, [dst])
                    res = set()
                    for o in outs:
                        if o.startswith('call:') and 'from_residual' in o:
                            # the residual of `goal_reached.ok_or(NoSolutionFound)?`
                            has = any(t['func'].get('path') == 'std::option::Option::<T>::ok_or' and
                                      any(n[0] == 'agg' and n[2] == 'NoSolutionFound' for n in walk(fn.arg_terms(t, 1, bi)))
                                      for bi, t in b.calls())
                            res.add('NoSolutionFound' if has else o)
                        else:
                            res.add(o)
                    if not res <= {'Ok', 'NoSolutionFound', 'Timeout'}:
                        probs.append('leaving the search at %s can end in %s' % (fn.loc(src), sorted(res)))
                    if 'Ok' in res and 'NoSolutionFound' not in res and not _is_break_on_goal(fn, src):
                        probs.append('an exhausted search at %s can only return Ok' % fn.loc(src))
            r_err.inst('%s reports NoSolutionFound for unattachable start/goal and exhausted search' % b.path, ok=not probs, site=b.loc(0))
            for o, pr in enumerate(dict.fromkeys(probs)):
                r_err.violations.append(Violation('C06', 'C06.errors', b.path, 'no-solution', pr, loc=b.loc(0), ordinal=o))
    return [r_loops, r_dl, r_div, r_err]


def _is_break_on_goal(fn, src):
    si = fn.switch_info(src)
    if si is None:
        return False
    return any(n[0] == 'call' and n[1].endswith('::contains') for n in si[0])


def _positive(fn, block, vt):
    """every possible stored value is > 0: positive constant, or a parameter under a dominating `> 0` fact"""
    if not vt:
        return False, 'unknown'
    facts = None
    for n in vt:
        c = const_float(T(n))
        if c is not None:
            if c > 0:
                continue
            return False, 'constant %s' % c
        if n[0] == 'param':
            if facts is None:
                facts = cmp_facts(fn, block)
            rel = {'lt', 'eq', 'gt', 'un'}
            for (a, b_, r, _blk) in facts:
                if a == T(n) and const_float(b_) is not None and const_float(b_) >= 0:
                    rel &= r
                elif b_ == T(n) and const_float(a) is not None and const_float(a) >= 0:
                    rel &= {{'lt': 'gt', 'gt': 'lt', 'eq': 'eq', 'un': 'un'}[x] for x in r}
            if rel <= {'gt'}:
                continue
            return False, 'parameter not guarded by > 0 (relation %s)' % sorted(rel)
        return False, 'value %s' % fmt_terms(T(n))[:40]
    return True, ''


def _deadline(ctx, planners, b, fn, L, detail, r_dl):
    (sb, el, to, exit_t, absolute) = detail
    probs = []
    if absolute:
        # now() > start + timeout : the start is taken in this call before the loop, the added duration is the timeout
        starts = [m for m in walk(to) if m[0] == 'call' and m[1].endswith('Instant::now')]
        for m in starts:
            if m[3][0] != fn.path:
                probs.append('the clock is started in another function')
        adds = [m for m in walk(to) if m[0] == 'call' and m[1] in ('std::ops::Add::add', 'std::time::Instant::checked_add') and len(m[2]) == 2]
        if len(adds) != 1:
            probs.append('the deadline is not <Instant taken before the loop> + timeout (unrecognised shape)')
        else:
            dur = adds[0][2][1]
            okd = bool(dur) and all((n[0] == 'param') or (n[0] == 'field' and all(q[0] == 'param' and q[1] == 1 for q in n[1])) for n in dur)
            if not okd:
                probs.append('the deadline adds %s, not the timeout parameter / field unmodified' % fmt_terms(dur)[:60])
        for m in walk(el):
            if m[0] in ('binop', 'unop') or (m[0] == 'call' and not m[1].endswith('Instant::now')):
                probs.append('the current time is modified before the comparison')
        outs = _errs_from(fn, [exit_t])
        is_query = b.impl_trait is not None and b.name == 'solve'
        if is_query:
            if outs != {'Timeout'}:
                probs.append('an expired deadline leads to %s instead of Err(Timeout)' % sorted(outs))
        elif not outs <= {'Ok', 'Timeout'}:
            probs.append('an expired deadline leads to %s' % sorted(outs))
        r_dl.inst('%s: deadline test at %s (absolute deadline)' % (b.path, fn.loc(sb)), ok=not probs, site=fn.loc(sb))
        for o, pr in enumerate(dict.fromkeys(probs)):
            r_dl.violations.append(Violation('C06', 'C06.deadline', b.path, 'deadline', pr, loc=fn.loc(sb), ordinal=o))
        return
    # the clock: Instant::now() of the same call, taken outside the loop
    nows = [m for m in walk(el) if m[0] == 'call' and m[1].endswith('Instant::now')]
    if not nows:
        probs.append('elapsed() is not taken on an Instant created in this call')
    for m in nows:
        if m[3][0] != fn.path:
            probs.append('the clock is started in another function')
        elif m[3][1] in L['body']:
            probs.append('the clock is restarted inside the loop: the deadline never expires')
    # arithmetic on the elapsed side other than the documented conversions
    for m in walk(el):
        if m[0] in ('binop', 'unop'):
            probs.append('the elapsed time is modified before the comparison')
    # the timeout: a parameter or a public field of the planner, unmodified
    okto = bool(to) and all((n[0] == 'param') or (n[0] == 'field' and all(q[0] == 'param' and q[1] == 1 for q in n[1])) for n in to)
    if not okto:
        probs.append('the deadline is compared with %s, not with the timeout parameter / field unmodified' % fmt_terms(to)[:60])
    # where the exit leads
    outs = _errs_from(fn, [exit_t])
    is_query = b.impl_trait is not None and b.name == 'solve'
    if is_query:
        if outs != {'Timeout'}:
            probs.append('an expired deadline leads to %s instead of Err(Timeout)' % sorted(outs))
    else:
        if not outs <= {'Ok', 'Timeout'}:
            probs.append('an expired deadline leads to %s' % sorted(outs))
    r_dl.inst('%s: deadline test at %s' % (b.path, fn.loc(sb)), ok=not probs, site=fn.loc(sb))
    for o, pr in enumerate(dict.fromkeys(probs)):
        r_dl.violations.append(Violation('C06', 'C06.deadline', b.path, 'deadline', pr, loc=fn.loc(sb), ordinal=o))
