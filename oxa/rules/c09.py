"""C09 — distance is a metric: RANGE CLAUSES ONLY (non-negativity, the pi cap for SO(2)/SO(3), NaN-freedom).

Decided by interval abstract interpretation of each `distance` body (oxa/interval.py) for ALL inputs that are finite
and bounded by 1e150 in magnitude — including every special value of the property's lattice (0, +-pi, +-pi+-ulp,
antipodal and near-identical quaternions, non-unit quaternions).  NOT decided: identity (d(a,a)=0), symmetry, triangle
inequality, representation invariance, agreement with a reference — those need numeric / symbolic evaluation.
"""
import math

from ..core import RuleResult, Violation
from ..interval import Interp, INPUT_BOUND, INF

META = {
    'explanation': 'C09 (range clauses only): every StateSpace::distance body is abstractly interpreted over intervals with a '
                   'NaN flag; the result must be in [0, +inf) (R^n, compound) resp. [0, pi] (SO(2), SO(3)) and never NaN for '
                   'all finite inputs. Identity, symmetry, triangle inequality, representation invariance and agreement '
                   'with a reference are NOT decided by this check.',
    'assumptions': ['state and space fields are finite, non-NaN and below %g in magnitude' % INPUT_BOUND,
                    'f64 library functions have their documented ranges (acos, rem_euclid may return its modulus through rounding)'],
}
SS = 'base::space::StateSpace'


def run(ctx, tier):
    r = RuleResult('C09.range', 'distance is non-negative, never NaN, and at most pi on SO(2)/SO(3) (for all finite inputs)')
    it = Interp(ctx, ctx.core)
    n = 0
    for b in sorted(ctx.lib_bodies(), key=lambda x: x.path):
        if b.impl_trait != SS or b.name != 'distance' or b.kind != 'AssocFn':
            continue
        adt = (b.j.get('impl_adt') or '')
        # newtypes over the compound space delegate (C13.match); their range is the compound's
        fields = ctx.core.adts.get(adt, {'variants': [{'fields': []}]})['variants'][0]['fields']
        if len(fields) == 1 and fields[0]['ty'].endswith('CompoundStateSpace'):
            r.inst('%s delegates to the compound distance (C13.match)' % b.path, ok=True, nontrivial=False)
            continue
        n += 1
        res = it.analyze(b).get(('ret',))
        low = adt.lower()
        cap = math.pi if ('so2' in low or 'so3' in low) else INF
        ok = res is not None and res.within(0.0, cap * (1 + 1e-15) if cap != INF else INF)
        r.inst('%s returns %s (required [0, %s], no NaN)' % (b.path, res, 'pi' if cap != INF else 'inf'), ok=ok, site=b.loc(0),
               terms=str(res))
        if not ok:
            why = []
            if res is None:
                why.append('no value flows to the return place (unrecognised shape)')
            else:
                if res.nan:
                    why.append('the result can be NaN')
                if res.lo < 0:
                    why.append('the result can be negative (lower bound %g)' % res.lo)
                if res.hi > cap * (1 + 1e-15):
                    why.append('the result can exceed the manifold diameter pi (upper bound %g)' % res.hi)
            r.violations.append(Violation('C09', 'C09.range', b.path, 'range', '; '.join(why) + ' for finite inputs', loc=b.loc(0)))
    if n < 4:
        r.violations.append(Violation('C09', 'C09.range', 'oxmpl', 'floor', 'only %d primitive/compound distance functions analysed (floor 4)' % n))
    return [r]
