"""C09 — distance is a metric: RANGE CLAUSES ONLY (non-negativity, the pi cap for SO(2)/SO(3), NaN-freedom).

Decided by interval abstract interpretation of each `distance` body (oxa/interval.py) for ALL inputs that are finite
and bounded by 1e150 in magnitude — including every special value of the property's lattice (0, +-pi, +-pi+-ulp,
antipodal and near-identical quaternions, non-unit quaternions).  NOT decided: identity (d(a,a)=0), symmetry, triangle
inequality, representation invariance, agreement with a reference — those need numeric / symbolic evaluation.
"""
import math

from ..core import RuleResult, Violation
from ..interval import Interp, Iv, INPUT_BOUND, INF

META = {
    'explanation': 'C09 (range clauses only): every StateSpace::distance body is abstractly interpreted over intervals with a '
                   'NaN flag; the result must be in [0, +inf) (R^n, compound) resp. [0, pi] (SO(2), SO(3)) and never NaN for '
                   'all finite inputs. Symmetry, d(a,a)=0 and 2 pi periodicity on SO(2) are decided on the normal form of each body '
                   '(value numbering over polynomial normal forms with gating terms, real-number reading; undecided where the value '
                   'is not tracked). The triangle inequality and agreement with a reference are NOT decided by this check.',
    'assumptions': ['state and space fields are finite, non-NaN and below %g in magnitude' % INPUT_BOUND,
                    'f64 library functions have their documented ranges (acos, rem_euclid may return its modulus through rounding)'],
}
SS = 'base::space::StateSpace'


def run(ctx, tier):
    r = RuleResult('C09.range', 'distance is non-negative, never NaN, and at most pi on SO(2)/SO(3) (for all finite inputs)')
    it = Interp(ctx, ctx.core)
    n = 0
    for b in sorted(ctx.lib_bodies(), key=lambda x: x.path):
        if b.impl_trait != SS or b.name != 'distance' or b.kind != 'AssocFn':
            continue
        adt = (b.j.get('impl_adt') or '')
        # newtypes over the compound space delegate (C13.match); their range is the compound's
        fields = ctx.core.adts.get(adt, {'variants': [{'fields': []}]})['variants'][0]['fields']
        if len(fields) == 1 and fields[0]['ty'].endswith('CompoundStateSpace'):
            r.inst('%s delegates to the compound distance (C13.match)' % b.path, ok=True, nontrivial=False)
            continue
        n += 1
        res = it.analyze(b).get(('ret',))
        low = adt.lower()
        cap = math.pi if ('so2' in low or 'so3' in low) else INF
        ok = res is not None and res.within(0.0, cap * (1 + 1e-15) if cap != INF else INF)
        r.inst('%s returns %s (required [0, %s], no NaN)' % (b.path, res, 'pi' if cap != INF else 'inf'), ok=ok, site=b.loc(0),
               terms=str(res))
        if not ok:
            why = []
            if res is None:
                why.append('no value flows to the return place (unrecognised shape)')
            else:
                if res.nan:
                    why.append('the result can be NaN')
                if res.lo < 0:
                    why.append('the result can be negative (lower bound %g)' % res.lo)
                if res.hi > cap * (1 + 1e-15):
                    why.append('the result can exceed the manifold diameter pi (upper bound %g)' % res.hi)
            r.violations.append(Violation('C09', 'C09.range', b.path, 'range', '; '.join(why) + ' for finite inputs', loc=b.loc(0)))
    if n < 4:
        r.violations.append(Violation('C09', 'C09.range', 'oxmpl', 'floor', 'only %d primitive/compound distance functions analysed (floor 4)' % n))
    return [r, _repr(ctx), _cut(ctx)] + _algebra_safe(ctx)


def _cut(ctx):
    """C09.cut - a distance that answers with a literal constant on one side of a threshold must agree there with what the
    other side computes: a jump of size J at the threshold means two states a, b arbitrarily close to each other with
    |d(a,c) - d(b,c)| = J > d(a,b), i.e. the triangle inequality fails (and states closer than the threshold become
    indistinguishable).  Decided by evaluating the computing side in the interval domain with the compared value pinned
    to the threshold."""
    TOL = 1e-7
    r = RuleResult('C09.cut', 'a constant early answer of a distance function agrees with the formula at its threshold (no jump)')
    for b in sorted(ctx.lib_bodies(), key=lambda x: x.path):
        if b.impl_trait != SS or b.name != 'distance' or b.kind != 'AssocFn':
            continue
        fn = ctx.fn(b)
        o = 0
        for S, blk in enumerate(b.blocks):
            t = blk['term']
            if blk['cleanup'] or t['k'] != 'switch' or len(t['targets']) != 1:
                continue
            d = t['discr'].get('move') or t['discr'].get('copy')
            cmp_st = None
            for st in blk['stmts']:
                if st['k'] == 'assign' and d is not None and st['place'] == {'l': d['l'], 'p': []} and st['rv']['k'] == 'binop' and \
                        st['rv']['op'] in ('Lt', 'Le', 'Gt', 'Ge'):
                    cmp_st = st
            if cmp_st is None:
                continue
            a, c = cmp_st['rv']['a'], cmp_st['rv']['b']
            if 'const' in a:
                a, c = c, a
            if 'const' not in c or 'fval' not in c['const'] or 'const' in a:
                continue
            try:
                thr = float(c['const']['fval'])
            except ValueError:
                continue
            xp = a.get('move') or a.get('copy')
            if xp is None or xp['p']:
                continue
            arms = [t['targets'][0][1], t['otherwise']]
            for ai, arm in enumerate(arms):
                K = _literal_return(b, arm)
                if K is None:
                    continue
                other = arms[1 - ai]
                it = Interp(ctx, ctx.core)
                it.force = {'body': b, 'block': S, 'target': other, 'key': (xp['l'],), 'iv': Iv(thr, thr)}
                res = it.analyze(b).get(('ret',))
                ok = res is None or (res.lo - TOL <= K <= res.hi + TOL) or res.nan
                r.inst('%s: constant answer %g at threshold %g vs formula %s' % (b.path, K, thr, res), ok=ok, site=b.loc(S))
                if not ok:
                    r.violations.append(Violation(
                        'C09', 'C09.cut', b.path, 'jump',
                        'the distance answers %g on one side of the test against %.12g but the formula gives %s at that value: a jump of '
                        'about %.3g; states closer than that to each other get distance %g, and the triangle inequality fails across the '
                        'threshold' % (K, thr, res, min(abs(K - res.lo), abs(K - res.hi)), K), loc=b.loc(S), ordinal=o))
                    o += 1
    r.notes.append('no distance function on the pinned tree has a constant early answer: zero instances is the expected count')
    return r


def _literal_return(b, start):
    """K if the blocks from `start` to the return only assign the literal float K to the return place (no calls)"""
    cur, K, n = start, None, 0
    while n < 6:
        blk = b.blocks[cur]
        for st in blk['stmts']:
            if st['k'] == 'assign' and st['place'] == {'l': 0, 'p': []}:
                c = st['rv']['op'].get('const') if st['rv']['k'] == 'use' else None
                if c is None or 'fval' not in c:
                    return None
                try:
                    K = float(c['fval'])
                except ValueError:
                    return None
            elif st['k'] == 'assign' and b.local_ty(st['place']['l']) != '()':
                return None
        t = blk['term']
        if t['k'] == 'return':
            return K
        if t['k'] != 'goto':
            return None
        cur = t['target']
        n += 1
    return None


def _repr(ctx):
    """C09.repr - q and -q denote the same rotation: the SO(3) distance is an even function of each argument (sign-symmetry
    abstract interpretation, oxa/parity.py)"""
    from ..parity import Parity, E
    r = RuleResult('C09.repr', 'SO(3) distance gives the same value for q and -q in either argument (sign-symmetry analysis)')
    m = 0
    for b in sorted(ctx.lib_bodies(), key=lambda x: x.path):
        if b.impl_trait != SS or b.name != 'distance' or b.kind != 'AssocFn' or 'so3' not in (b.j.get('impl_adt') or '').lower():
            continue
        states = [i for i in range(1, b.arg_count + 1) if b.local_ty(i).endswith('SO3State')]
        for o, i in enumerate(states):
            m += 1
            res = Parity(ctx, ctx.core).analyze(b, {i}).get(('ret',))
            ok = res == E
            if not ok:
                # second prover: the normal form of the result is unchanged when the parameter is negated
                from ..symrules import analyze as _an, sign_invariant
                sv, _n = _an(ctx, b)
                if ('ret',) in sv and sign_invariant({'ret': sv[('ret',)]}, i) == 'E':
                    ok, res = True, E
            r.inst('%s is %s in `%s`' % (b.path, {'E': 'even', 'O': 'odd'}.get(res, 'not shown even'), b.local_name(i)), ok=ok, site=b.loc(0))
            if not ok:
                r.violations.append(Violation(
                    'C09', 'C09.repr', b.path, 'sign:' + str(b.local_name(i)),
                    'the distance is not shown to be unchanged when `%s` is replaced by its negation (the same rotation): the value '
                    'depends on the sign of the quaternion%s' % (b.local_name(i), '' if res else ' (no value reaches the return place)'),
                    loc=b.loc(0), ordinal=o))
    if m < 2:
        r.violations.append(Violation('C09', 'C09.repr', 'oxmpl', 'floor', 'only %d (SO(3) distance, argument) pairs analysed (floor 2)' % m))
    return r


def _algebra(ctx):
    """C09.sym / C09.zero / C09.period - algebraic clauses decided on the normal form of each `distance` body
    (oxa/symval.py: value numbering over polynomial normal forms with gating terms; real-number reading, rounding is
    outside).  sym: the normal form is unchanged when the two state parameters are exchanged; zero: with both parameters
    the same state it reduces to the constant 0 (unit quaternions: x^2+y^2+z^2+w^2 = 1); period: on SO(2) it is unchanged
    when 2 pi K (K an integer) is added to either angle.  A form the value numbering does not track is UNDECIDED (listed,
    no alarm); two forms that differ are a violation only when they also differ as real functions (oxa/symrules.py)."""
    from ..symval import Poly, swap_params, replace_param, subst, fmt_poly
    from ..symrules import analyze, opaque, deep_unit, term_differs
    rs = RuleResult('C09.sym', 'distance(a, b) and distance(b, a) have the same normal form (symmetry over the reals)')
    rz = RuleResult('C09.zero', 'distance(a, a) reduces to the constant 0 (unit quaternions assumed unit)')
    rp = RuleResult('C09.period', 'SO(2) distance is unchanged when a multiple of 2 pi is added to either angle')
    n = 0
    for b in sorted(ctx.lib_bodies(), key=lambda x: x.path):
        if b.impl_trait != SS or b.name != 'distance' or b.kind != 'AssocFn' or b.arg_count != 3:
            continue
        n += 1
        res, _notes = analyze(ctx, b)
        P = res.get(('ret',))
        if opaque(P):
            for rr in (rs, rz):
                rr.inst('%s: undecided - the value is not tracked to a closed normal form (%s)' % (b.path, fmt_poly(P)[:120]), ok=True, nontrivial=False)
            continue
        S = swap_params(P, 2, 3)
        if S is not None and S == P:
            rs.inst('%s: normal form invariant under exchanging the states: %s' % (b.path, fmt_poly(P)[:160]), ok=True, site=b.loc(0))
        elif S is None or term_differs(P, S) is not True:
            rs.inst('%s: undecided - exchanged form differs syntactically but not at any evaluation point' % b.path, ok=True, nontrivial=False)
        else:
            rs.inst('%s: exchanged form differs' % b.path, ok=False, site=b.loc(0))
            rs.violations.append(Violation('C09', 'C09.sym', b.path, 'symmetry',
                                           'distance(a, b) = %s but distance(b, a) = %s: the two are different functions of the states (not symmetric)' % (
                                               fmt_poly(P)[:300], fmt_poly(S)[:300]), loc=b.loc(0)))
        Z = deep_unit(replace_param(P, 3, 2))
        if Z is not None and Z.is_zero():
            rz.inst('%s: distance(a, a) reduces to 0' % b.path, ok=True, site=b.loc(0))
        elif Z is None or term_differs(Z, Poly(), tol=1e-6) is not True:
            rz.inst('%s: undecided - distance(a, a) = %s is not reduced to 0 but evaluates to 0' % (b.path, fmt_poly(Z)[:120]), ok=True, nontrivial=False)
        else:
            rz.inst('%s: distance(a, a) = %s' % (b.path, fmt_poly(Z)[:120]), ok=False, site=b.loc(0))
            rz.violations.append(Violation('C09', 'C09.zero', b.path, 'identity',
                                           'distance(a, a) reduces to %s, which is not 0: a state is at non-zero distance from itself' % fmt_poly(Z)[:300], loc=b.loc(0)))
        if any(b.local_ty(i).endswith('SO2State') for i in (2, 3)):
            for o, i in enumerate((2, 3)):
                def f(a, _i=i):
                    if a[0] == 'leaf' and a[1] == _i:
                        return Poly.atom(a) + Poly.atom(('int', 'K')).scale(2 * math.pi)
                    return None
                Q = subst(P, f)
                if Q is not None and Q == P:
                    rp.inst('%s: unchanged under `%s` + 2 pi K' % (b.path, b.local_name(i)), ok=True, site=b.loc(0))
                elif Q is None or term_differs(P, Q) is not True:
                    rp.inst('%s: undecided for `%s`' % (b.path, b.local_name(i)), ok=True, nontrivial=False)
                else:
                    rp.inst('%s: changes under `%s` + 2 pi K' % (b.path, b.local_name(i)), ok=False, site=b.loc(0))
                    rp.violations.append(Violation('C09', 'C09.period', b.path, 'period:' + str(b.local_name(i)),
                                                   'the distance changes when 2 pi K is added to `%s` (an equivalent angle): %s becomes %s' % (
                                                       b.local_name(i), fmt_poly(P)[:250], fmt_poly(Q)[:250]), loc=b.loc(0), ordinal=o))
    if n < 6:
        rs.violations.append(Violation('C09', 'C09.sym', 'oxmpl', 'floor', 'only %d distance functions found (floor 6)' % n))
    return [rs, rz, rp]


def _algebra_safe(ctx):
    """the normal-form rules never alarm on what they cannot analyse: an internal error is an undecided instance"""
    try:
        return _algebra(ctx)
    except Exception as e:      # noqa
        r = RuleResult('C09.algebra', 'normal-form clauses (sym / zero / period resp. ends / affine / swap)')
        r.inst('normal-form analysis: undecided - internal error %s: %s' % (type(e).__name__, str(e)[:200]), ok=True, nontrivial=False)
        return [r]
