"""C10 — interpolation: CANONICAL-FORM CLAUSE FOR ANGLES ONLY.

Decided by interval abstract interpretation: the angle written by SO(2) interpolation, and the angle produced by the
SO(2) state constructor / normaliser it relies on, lie in [-pi, pi] and are never NaN for all finite inputs and finite
t.  NOT decided: end-point exactness (t=0, t=1), shortest-path / constant-speed proportionality, unit norm of
interpolated quaternions, symmetry under swapping a and b — numeric statements outside this technique family.
"""
import math

from ..core import RuleResult, Violation
from ..interval import Interp, INPUT_BOUND

META = {
    'explanation': 'C10 (canonical-form clause for angles only): the value stored by SO2StateSpace::interpolate and the values '
                   'produced by SO2State::new / SO2State::normalise are shown to lie in [-pi, pi] and to be non-NaN for all '
                   'finite inputs by interval abstract interpretation. Shortest-path, constant-speed, end-point and '
                   'quaternion clauses are NOT decided.',
    'assumptions': ['inputs finite, non-NaN, below %g in magnitude (including t)' % INPUT_BOUND,
                    'rem_euclid(x, m) lies in [0, m] (upper end attainable through rounding, per std docs)'],
}
SS = 'base::space::StateSpace'
EPS = 1e-15


def run(ctx, tier):
    r = RuleResult('C10.canon', 'interpolated / constructed SO(2) angles lie in [-pi, pi] and are never NaN (finite inputs)')
    it = Interp(ctx, ctx.core)
    n = 0
    lo, hi = -math.pi * (1 + EPS), math.pi * (1 + EPS)
    for b in sorted(ctx.lib_bodies(), key=lambda x: x.path):
        adt = (b.j.get('impl_adt') or '').lower()
        if 'so2' not in adt or b.kind != 'AssocFn':
            continue
        if b.impl_trait == SS and b.name == 'interpolate':
            res = it.analyze(b)
            outs = {k: v for k, v in res.items() if k[0] == 'out'}
            n += 1
            ok = bool(outs) and all(v.within(lo, hi) for v in outs.values())
            r.inst('%s writes %s' % (b.path, {'.'.join(map(str, k[2:])): str(v) for k, v in outs.items()}), ok=ok, site=b.loc(0))
            if not ok:
                r.violations.append(Violation('C10', 'C10.canon', b.path, 'angle-range',
                                              'the interpolated angle is not confined to [-pi, pi] / may be NaN: %s' % (
                                                  {'.'.join(map(str, k[2:])): str(v) for k, v in outs.items()} or 'nothing written'), loc=b.loc(0)))
        elif b.impl_trait is None and b.name in ('new', 'normalise') and b.j.get('ret_ty', '').endswith('SO2State'):
            res = it.analyze(b)
            vals = {k: v for k, v in res.items() if k[0] == 'ret' and len(k) > 1}
            n += 1
            ok = bool(vals) and all(v.within(lo, hi) for v in vals.values())
            r.inst('%s yields %s' % (b.path, {'.'.join(map(str, k[1:])): str(v) for k, v in vals.items()}), ok=ok, site=b.loc(0))
            if not ok:
                r.violations.append(Violation('C10', 'C10.canon', b.path, 'angle-range',
                                              'the canonicalised angle is not confined to [-pi, pi] / may be NaN: %s' % (
                                                  {'.'.join(map(str, k[1:])): str(v) for k, v in vals.items()} or 'nothing returned'), loc=b.loc(0)))
    if n < 3:
        r.violations.append(Violation('C10', 'C10.canon', 'oxmpl', 'floor', 'only %d SO(2) angle producers analysed (floor 3)' % n))
    return [r]
