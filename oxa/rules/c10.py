"""C10 — interpolation: CANONICAL-FORM AND SHORTEST-ARC CLAUSES FOR ANGLES ONLY.

Decided by interval abstract interpretation: (canon) the angle written by SO(2) interpolation, and the angle produced
by the SO(2) state constructor / normaliser it relies on, lie in [-pi, pi] and are never NaN for all finite inputs and
finite t; (arc) the signed difference that SO(2) interpolation scales by t lies in [-pi, pi] for all finite inputs,
canonical or not (a necessary condition of following the shortest arc).  NOT decided: end-point exactness (t=0, t=1), shortest-path / constant-speed proportionality, unit norm of
interpolated quaternions, symmetry under swapping a and b — numeric statements outside this technique family.
"""
import math

from ..core import RuleResult, Violation
from ..interval import Interp, INPUT_BOUND

META = {
    'explanation': 'C10 (canonical-form clause for angles only): the value stored by SO2StateSpace::interpolate and the values '
                   'produced by SO2State::new / SO2State::normalise are shown to lie in [-pi, pi] and to be non-NaN for all '
                   'finite inputs by interval abstract interpretation. Shortest-path, constant-speed, end-point and '
                   'quaternion clauses are NOT decided.',
    'assumptions': ['inputs finite, non-NaN, below %g in magnitude (including t)' % INPUT_BOUND,
                    'rem_euclid(x, m) lies in [0, m] (upper end attainable through rounding, per std docs)'],
}
SS = 'base::space::StateSpace'
EPS = 1e-15


def run(ctx, tier):
    r = RuleResult('C10.canon', 'interpolated / constructed SO(2) angles lie in [-pi, pi] and are never NaN (finite inputs)')
    it = Interp(ctx, ctx.core)
    n = 0
    lo, hi = -math.pi * (1 + EPS), math.pi * (1 + EPS)
    for b in sorted(ctx.lib_bodies(), key=lambda x: x.path):
        adt = (b.j.get('impl_adt') or '').lower()
        if 'so2' not in adt or b.kind != 'AssocFn':
            continue
        if b.impl_trait == SS and b.name == 'interpolate':
            res = it.analyze(b)
            outs = {k: v for k, v in res.items() if k[0] == 'out'}
            n += 1
            ok = bool(outs) and all(v.within(lo, hi) for v in outs.values())
            r.inst('%s writes %s' % (b.path, {'.'.join(map(str, k[2:])): str(v) for k, v in outs.items()}), ok=ok, site=b.loc(0))
            if not ok:
                r.violations.append(Violation('C10', 'C10.canon', b.path, 'angle-range',
                                              'the interpolated angle is not confined to [-pi, pi] / may be NaN: %s' % (
                                                  {'.'.join(map(str, k[2:])): str(v) for k, v in outs.items()} or 'nothing written'), loc=b.loc(0)))
        elif b.impl_trait is None and b.name in ('new', 'normalise') and b.j.get('ret_ty', '').endswith('SO2State'):
            res = it.analyze(b)
            vals = {k: v for k, v in res.items() if k[0] == 'ret' and len(k) > 1}
            n += 1
            ok = bool(vals) and all(v.within(lo, hi) for v in vals.values())
            r.inst('%s yields %s' % (b.path, {'.'.join(map(str, k[1:])): str(v) for k, v in vals.items()}), ok=ok, site=b.loc(0))
            if not ok:
                r.violations.append(Violation('C10', 'C10.canon', b.path, 'angle-range',
                                              'the canonicalised angle is not confined to [-pi, pi] / may be NaN: %s' % (
                                                  {'.'.join(map(str, k[1:])): str(v) for k, v in vals.items()} or 'nothing returned'), loc=b.loc(0)))
    if n < 3:
        r.violations.append(Violation('C10', 'C10.canon', 'oxmpl', 'floor', 'only %d SO(2) angle producers analysed (floor 3)' % n))

    # ---- C10.arc: the signed difference that is scaled by t is a shortest arc, |diff| <= pi, for ALL finite inputs
    # (also non-canonical ones).  A necessary condition of "the result lies on a shortest path": a difference outside
    # [-pi, pi] makes the interior of the motion go the long way round even though both ends are right modulo 2 pi.
    r2 = RuleResult('C10.arc', 'SO(2) interpolation scales a signed difference confined to [-pi, pi] (all finite inputs, canonical or not)')
    m = 0
    for b in sorted(ctx.lib_bodies(), key=lambda x: x.path):
        adt = (b.j.get('impl_adt') or '').lower()
        if 'so2' not in adt or b.kind != 'AssocFn' or b.impl_trait != SS or b.name != 'interpolate':
            continue
        t_locals = [i for i in range(1, b.arg_count + 1) if b.local_ty(i) == 'f64']
        seen = []

        def obs(body, st, a, bv, _b=b, _t=t_locals, _seen=seen):
            if body is not _b:
                return
            rv = st['rv']
            for (x, other) in ((rv['a'], bv), (rv['b'], a)):
                pl = x.get('copy') or x.get('move')
                # the operand is (a copy of) the parameter t
                if pl is not None and not pl['p']:
                    src = pl['l']
                    if src in _t or _is_copy_of(ctx, _b, src, _t):
                        _seen.append((st, other))
        it2 = Interp(ctx, ctx.core)
        it2.observe_mul = obs
        it2.analyze(b)
        m += 1
        probs = []
        if not seen:
            probs.append('no product with the interpolation parameter found (unrecognised shape)')
        for (st, iv) in seen:
            if not iv.within(lo, hi):
                probs.append('the difference scaled by t ranges over %s: for inputs that are not canonical (or far apart) the motion does not '
                             'follow the shortest arc' % iv)
        r2.inst('%s: signed difference scaled by t is %s' % (b.path, sorted({str(iv) for _s, iv in seen})), ok=not probs, site=b.loc(0))
        for o, pr in enumerate(dict.fromkeys(probs)):
            r2.violations.append(Violation('C10', 'C10.arc', b.path, 'difference', pr, loc=b.loc(0), ordinal=o))
    if m < 1:
        r2.violations.append(Violation('C10', 'C10.arc', 'oxmpl', 'floor', 'no SO(2) interpolation found (floor 1)'))
    return [r, r2, _repr(ctx)]


def _repr(ctx):
    """C10.repr - q and -q denote the same rotation: SO(3) interpolation must produce the same rotation whichever
    representative of either end point it is given, i.e. its four stored components are all even or all odd functions of
    each end point (sign-symmetry abstract interpretation, oxa/parity.py).  Necessary for "the result lies on a shortest
    path" for pairs with a negative dot product."""
    from ..parity import Parity, E, O
    r3 = RuleResult('C10.repr', 'SO(3) interpolation yields the same rotation for q and -q at either end (sign-symmetry analysis)')
    m = 0
    for b in sorted(ctx.lib_bodies(), key=lambda x: x.path):
        if b.impl_trait != SS or b.name != 'interpolate' or b.kind != 'AssocFn' or 'so3' not in (b.j.get('impl_adt') or '').lower():
            continue
        ends = [i for i in range(1, b.arg_count + 1) if b.local_ty(i).endswith('SO3State') and not b.local_ty(i).startswith('&mut ')]
        for o, i in enumerate(ends):
            m += 1
            res = Parity(ctx, ctx.core).analyze(b, {i})
            outs = {k: v for k, v in res.items() if k[0] == 'out'}
            vals = set(outs.values())
            ok = len(outs) >= 4 and (vals == {E} or vals == {O})
            r3.inst('%s: components as functions of the sign of `%s`: %s' % (b.path, b.local_name(i), {'.'.join(map(str, k[2:])): v for k, v in sorted(outs.items())}),
                    ok=ok, site=b.loc(0))
            if not ok:
                r3.violations.append(Violation(
                    'C10', 'C10.repr', b.path, 'sign:' + str(b.local_name(i)),
                    'the interpolated rotation is not shown to be the same when `%s` is replaced by its negation (the same rotation): '
                    'components %s - on some path the end point is used without being brought onto the hemisphere of the other one, so '
                    'for a negative dot product the motion takes the long way round' % (
                        b.local_name(i), {'.'.join(map(str, k[2:])): v for k, v in sorted(outs.items())} or 'none written'),
                    loc=b.loc(0), ordinal=o))
    if m < 2:
        r3.violations.append(Violation('C10', 'C10.repr', 'oxmpl', 'floor', 'only %d (SO(3) interpolation, end point) pairs analysed (floor 2)' % m))
    return r3


def _is_copy_of(ctx, b, local, params):
    """local is a plain copy (possibly through temporaries) of one of the parameter locals"""
    fn = ctx.fn(b)
    for _ in range(4):
        evs = [e for e in fn.events(local) if e.kind == 'assign' and not e.path]
        if len(evs) != 1 or evs[0].data['k'] != 'assign' or evs[0].data['rv']['k'] != 'use':
            return False
        src = evs[0].data['rv']['op'].get('copy') or evs[0].data['rv']['op'].get('move')
        if src is None or src['p']:
            return False
        if src['l'] in params:
            return True
        local = src['l']
    return False
