"""C10 — interpolation: CANONICAL-FORM AND SHORTEST-ARC CLAUSES FOR ANGLES ONLY.

Decided by interval abstract interpretation: (canon) the angle written by SO(2) interpolation, and the angle produced
by the SO(2) state constructor / normaliser it relies on, lie in [-pi, pi] and are never NaN for all finite inputs and
finite t; (arc) the signed difference that SO(2) interpolation scales by t lies in [-pi, pi] for all finite inputs,
canonical or not (a necessary condition of following the shortest arc).  NOT decided: end-point exactness (t=0, t=1), shortest-path / constant-speed proportionality, unit norm of
interpolated quaternions, symmetry under swapping a and b — numeric statements outside this technique family.
"""
import math

from ..core import RuleResult, Violation
from ..interval import Interp, INPUT_BOUND

META = {
    'explanation': 'C10 (canonical-form clause for angles only): the value stored by SO2StateSpace::interpolate and the values '
                   'produced by SO2State::new / SO2State::normalise are shown to lie in [-pi, pi] and to be non-NaN for all '
                   'finite inputs by interval abstract interpretation. End points (t=0, t=1), affinity in t, a<->b symmetry and '
                   'the unit norm of the linearly interpolated branch are decided on the normal forms of what interpolate stores '
                   '(value numbering over polynomial normal forms with gating terms; real-number reading, rounding outside; '
                   'undecided where not tracked). Distance-proportionality on SO(3) is NOT decided.',
    'assumptions': ['inputs finite, non-NaN, below %g in magnitude (including t)' % INPUT_BOUND,
                    'rem_euclid(x, m) lies in [0, m] (upper end attainable through rounding, per std docs)'],
}
SS = 'base::space::StateSpace'
EPS = 1e-15


def _component(ctx):
    """C10.component: where R^n interpolation is written with explicit indices, the element stored at index K is computed from
    elements read at the same index K (of `from` and `to`): a lane that reads its neighbour's displacement moves one coordinate
    with another one's motion.  Forms without index terms (zip / iterator chains) have nothing to compare and are left to the
    normal forms (C10.ends / C10.affine)."""
    from .c12 import same
    from ..engine import walk, fmt_terms
    r = RuleResult('C10.component', 'R^n interpolation computes component k from the components k of its two arguments (index agreement)')
    n = 0
    for b in sorted(ctx.lib_bodies(), key=lambda x: x.path):
        if b.impl_trait != SS or b.name != 'interpolate' or 'real_vector' not in (b.j.get('impl_adt') or ''):
            continue
        fn = ctx.fn(b)
        n += 1
        # references obtained from IndexMut::index_mut(.., K)
        slots = {}
        for bi, t in b.calls():
            if (t['func'].get('path') or '').endswith('IndexMut::index_mut') and len(t['args']) == 2 and not t['dest']['p']:
                slots[t['dest']['l']] = fn.arg_terms(t, 1, bi)
        probs = []
        stores = 0
        for bi, blk in enumerate(b.blocks):
            if blk['cleanup']:
                continue
            for si, st in enumerate(blk['stmts']):
                if st['k'] != 'assign' or st['place']['p'] != ['deref'] or st['place']['l'] not in slots:
                    continue
                k = slots[st['place']['l']]
                stores += 1
                for m in walk(fn.rvalue_terms(st['rv'], (bi, si))):
                    if m[0] == 'index' and len(m) > 2 and m[2] and k and not same(m[2], k):
                        probs.append('the element stored at index %s is computed from an element read at index %s' % (fmt_terms(k)[:40], fmt_terms(m[2])[:40]))
        r.inst('%s: %d indexed stores, each computed from elements of the same index' % (b.path, stores), ok=not probs, nontrivial=bool(stores), site=b.loc(0))
        for o, pr in enumerate(dict.fromkeys(probs)):
            r.violations.append(Violation('C10', 'C10.component', b.path, 'index', pr + ': one coordinate moves with the displacement of another', loc=b.loc(0), ordinal=o))
    if n < 1:
        r.violations.append(Violation('C10', 'C10.component', 'oxmpl', 'floor', 'no R^n interpolate found (floor 1)'))
    return r


def _domain(ctx):
    """C10.domain: every acos / asin evaluated by a state space is reached only with an argument known to be at most 1 - the
    dot product of two unit quaternions rounds above 1 for about one unit quaternion in five when both arguments are the same
    rotation, and acos of that is NaN: every weight computed from it is NaN and so is the interpolated state (at t = 0 and
    t = 1 too).  Accepted: a comparison of exactly this value with a constant <= 1 whose accepting edge dominates the call, or
    a `min(c)` / `clamp(.., c)` with c <= 1 applied to it.  The lower side (>= -1) is decided the same way where a fact exists
    and is otherwise left undecided (the absolute value written as `dot * sign(dot)` is not an ordering fact)."""
    from .c12 import cmp_facts, const_float, same, space_adts
    from ..engine import fmt_terms, strip_clone
    r = RuleResult('C10.domain', 'inverse trigonometric functions in the state spaces are applied to arguments known to be at most 1 (no NaN angle)')
    n = 0
    for b in sorted(ctx.lib_bodies(), key=lambda x: x.path):
        if not b.path.startswith('base::spaces::') and not (b.j.get('impl_adt') or '').startswith('base::spaces::') and \
                '<base::spaces::' not in b.path:
            continue
        fn = None
        for bi, t in b.calls():
            p = t['func'].get('path') or ''
            name = p.rsplit('::', 1)[-1]
            if name not in ('acos', 'asin') or 'f64' not in p or not t['args']:
                continue
            fn = fn or ctx.fn(b)
            n += 1
            arg = strip_clone(fn.arg_terms(t, 0, bi))
            upper = False
            lower = None
            if len(arg) == 1:
                q = next(iter(arg))
                if q[0] == 'call' and q[1].rsplit('::', 1)[-1] in ('min', 'clamp') and 'f64' in q[1]:
                    c = const_float(q[2][-1])
                    if c is not None and c <= 1.0:
                        upper = True
                    if q[1].endswith('clamp') and const_float(q[2][1]) is not None and const_float(q[2][1]) >= -1.0:
                        lower = True
                if q[0] == 'call' and q[1].rsplit('::', 1)[-1] == 'abs':
                    lower = True
            for (a, b_, rel, _blk) in cmp_facts(fn, bi):
                if same(a, arg) and const_float(b_) is not None:
                    c = const_float(b_)
                    if c <= 1.0 and rel <= {'lt', 'eq', 'un'}:
                        upper = True
                    if c >= -1.0 and rel <= {'gt', 'eq', 'un'}:
                        lower = True
                elif same(b_, arg) and const_float(a) is not None:
                    c = const_float(a)
                    if c <= 1.0 and rel <= {'gt', 'eq', 'un'}:
                        upper = True
                    if c >= -1.0 and rel <= {'lt', 'eq', 'un'}:
                        lower = True
            r.inst('%s: %s(%s) at %s: argument at most 1' % (b.path, name, fmt_terms(arg)[:50], b.loc(bi)), ok=upper, site=b.loc(bi))
            if not upper:
                r.violations.append(Violation(
                    'C10', 'C10.domain', b.path, name,
                    '%s is applied to %s without a dominating test or clamp that keeps it at most 1: the dot product of two unit '
                    'quaternions that are the same rotation rounds above 1 for many inputs, %s of that is NaN and every value computed '
                    'from it (the interpolated state, also at t = 0 and t = 1) is NaN' % (name, fmt_terms(arg)[:60], name), loc=b.loc(bi)))
            r.inst('%s: %s at %s: argument at least -1%s' % (b.path, name, b.loc(bi), '' if lower else ': undecided'), ok=True,
                   nontrivial=bool(lower), site=b.loc(bi))
    if n < 2:
        r.violations.append(Violation('C10', 'C10.domain', 'oxmpl', 'floor', 'only %d acos/asin calls found in the state spaces (floor 2: SO(3) distance and interpolate)' % n))
    return r


def run(ctx, tier):
    r = RuleResult('C10.canon', 'interpolated / constructed SO(2) angles lie in [-pi, pi] and are never NaN (finite inputs)')
    it = Interp(ctx, ctx.core)
    n = 0
    lo, hi = -math.pi * (1 + EPS), math.pi * (1 + EPS)
    for b in sorted(ctx.lib_bodies(), key=lambda x: x.path):
        adt = (b.j.get('impl_adt') or '').lower()
        if 'so2' not in adt or b.kind != 'AssocFn':
            continue
        if b.impl_trait == SS and b.name == 'interpolate':
            res = it.analyze(b)
            outs = {k: v for k, v in res.items() if k[0] == 'out'}
            n += 1
            ok = bool(outs) and all(v.within(lo, hi) for v in outs.values())
            r.inst('%s writes %s' % (b.path, {'.'.join(map(str, k[2:])): str(v) for k, v in outs.items()}), ok=ok, site=b.loc(0))
            if not ok:
                r.violations.append(Violation('C10', 'C10.canon', b.path, 'angle-range',
                                              'the interpolated angle is not confined to [-pi, pi] / may be NaN: %s' % (
                                                  {'.'.join(map(str, k[2:])): str(v) for k, v in outs.items()} or 'nothing written'), loc=b.loc(0)))
        elif b.impl_trait is None and b.name in ('new', 'normalise') and b.j.get('ret_ty', '').endswith('SO2State'):
            res = it.analyze(b)
            vals = {k: v for k, v in res.items() if k[0] == 'ret' and len(k) > 1}
            n += 1
            ok = bool(vals) and all(v.within(lo, hi) for v in vals.values())
            r.inst('%s yields %s' % (b.path, {'.'.join(map(str, k[1:])): str(v) for k, v in vals.items()}), ok=ok, site=b.loc(0))
            if not ok:
                r.violations.append(Violation('C10', 'C10.canon', b.path, 'angle-range',
                                              'the canonicalised angle is not confined to [-pi, pi] / may be NaN: %s' % (
                                                  {'.'.join(map(str, k[1:])): str(v) for k, v in vals.items()} or 'nothing returned'), loc=b.loc(0)))
    if n < 3:
        r.violations.append(Violation('C10', 'C10.canon', 'oxmpl', 'floor', 'only %d SO(2) angle producers analysed (floor 3)' % n))

    # ---- C10.arc: the signed difference that is scaled by t is a shortest arc, |diff| <= pi, for ALL finite inputs
    # (also non-canonical ones).  A necessary condition of "the result lies on a shortest path": a difference outside
    # [-pi, pi] makes the interior of the motion go the long way round even though both ends are right modulo 2 pi.
    r2 = RuleResult('C10.arc', 'SO(2) interpolation scales a signed difference confined to [-pi, pi] (all finite inputs, canonical or not)')
    m = 0
    for b in sorted(ctx.lib_bodies(), key=lambda x: x.path):
        adt = (b.j.get('impl_adt') or '').lower()
        if 'so2' not in adt or b.kind != 'AssocFn' or b.impl_trait != SS or b.name != 'interpolate':
            continue
        t_locals = [i for i in range(1, b.arg_count + 1) if b.local_ty(i) == 'f64']
        seen = []

        def obs(body, st, a, bv, _b=b, _t=t_locals, _seen=seen):
            if body is not _b:
                return
            rv = st['rv']
            for (x, other) in ((rv['a'], bv), (rv['b'], a)):
                pl = x.get('copy') or x.get('move')
                # the operand is (a copy of) the parameter t
                if pl is not None and not pl['p']:
                    src = pl['l']
                    if src in _t or _is_copy_of(ctx, _b, src, _t):
                        _seen.append((st, other))
        it2 = Interp(ctx, ctx.core)
        it2.observe_mul = obs
        it2.analyze(b)
        m += 1
        probs = []
        if not seen:
            probs.append('no product with the interpolation parameter found (unrecognised shape)')
        for (st, iv) in seen:
            if not iv.within(lo, hi):
                probs.append('the difference scaled by t ranges over %s: for inputs that are not canonical (or far apart) the motion does not '
                             'follow the shortest arc' % iv)
        r2.inst('%s: signed difference scaled by t is %s' % (b.path, sorted({str(iv) for _s, iv in seen})), ok=not probs, site=b.loc(0))
        for o, pr in enumerate(dict.fromkeys(probs)):
            r2.violations.append(Violation('C10', 'C10.arc', b.path, 'difference', pr, loc=b.loc(0), ordinal=o))
    if m < 1:
        r2.violations.append(Violation('C10', 'C10.arc', 'oxmpl', 'floor', 'no SO(2) interpolation found (floor 1)'))
    return [r, r2, _repr(ctx), _domain(ctx), _component(ctx)] + _algebra_safe(ctx)


def _repr(ctx):
    """C10.repr - q and -q denote the same rotation: SO(3) interpolation must produce the same rotation whichever
    representative of either end point it is given, i.e. its four stored components are all even or all odd functions of
    each end point (sign-symmetry abstract interpretation, oxa/parity.py).  Necessary for "the result lies on a shortest
    path" for pairs with a negative dot product."""
    from ..parity import Parity, E, O
    r3 = RuleResult('C10.repr', 'SO(3) interpolation yields the same rotation for q and -q at either end (sign-symmetry analysis)')
    m = 0
    for b in sorted(ctx.lib_bodies(), key=lambda x: x.path):
        if b.impl_trait != SS or b.name != 'interpolate' or b.kind != 'AssocFn' or 'so3' not in (b.j.get('impl_adt') or '').lower():
            continue
        ends = [i for i in range(1, b.arg_count + 1) if b.local_ty(i).endswith('SO3State') and not b.local_ty(i).startswith('&mut ')]
        for o, i in enumerate(ends):
            m += 1
            res = Parity(ctx, ctx.core).analyze(b, {i})
            outs = {k: v for k, v in res.items() if k[0] == 'out'}
            vals = set(outs.values())
            ok = len(outs) >= 4 and (vals == {E} or vals == {O})
            if not ok:
                # second prover (oxa/symval.py): in every feasible case of the gating comparisons the four stored normal forms
                # are all unchanged or all negated when the end point is negated
                from ..symrules import analyze as _an, sign_invariant
                sv, _n = _an(ctx, b)
                so = {k[2:]: v for k, v in sv.items() if k[0] == 'out'}
                if len(so) >= 4 and sign_invariant(so, i) in ('E', 'O', 'EO'):
                    ok = True
                    outs = {k: 'E|O (normal forms)' for k in sv if k[0] == 'out'}
            r3.inst('%s: components as functions of the sign of `%s`: %s' % (b.path, b.local_name(i), {'.'.join(map(str, k[2:])): v for k, v in sorted(outs.items())}),
                    ok=ok, site=b.loc(0))
            if not ok:
                r3.violations.append(Violation(
                    'C10', 'C10.repr', b.path, 'sign:' + str(b.local_name(i)),
                    'the interpolated rotation is not shown to be the same when `%s` is replaced by its negation (the same rotation): '
                    'components %s - on some path the end point is used without being brought onto the hemisphere of the other one, so '
                    'for a negative dot product the motion takes the long way round' % (
                        b.local_name(i), {'.'.join(map(str, k[2:])): v for k, v in sorted(outs.items())} or 'none written'),
                    loc=b.loc(0), ordinal=o))
    if m < 2:
        r3.violations.append(Violation('C10', 'C10.repr', 'oxmpl', 'floor', 'only %d (SO(3) interpolation, end point) pairs analysed (floor 2)' % m))
    return r3


def _is_copy_of(ctx, b, local, params):
    """local is a plain copy (possibly through temporaries) of one of the parameter locals"""
    fn = ctx.fn(b)
    for _ in range(4):
        evs = [e for e in fn.events(local) if e.kind == 'assign' and not e.path]
        if len(evs) != 1 or evs[0].data['k'] != 'assign' or evs[0].data['rv']['k'] != 'use':
            return False
        src = evs[0].data['rv']['op'].get('copy') or evs[0].data['rv']['op'].get('move')
        if src is None or src['p']:
            return False
        if src['l'] in params:
            return True
        local = src['l']
    return False


def _algebra(ctx):
    """C10.ends / C10.affine / C10.swap - algebraic clauses decided on the normal forms of each `interpolate` body
    (oxa/symval.py; real-number reading, rounding is outside).
    ends:   with t pinned to 0 (1) every stored component is `from` (`to`): exactly for vectors, modulo 2 pi for an
            SO(2) angle, up to one common factor for the four quaternion components (the same rotation);
    affine: vectors and angles are `A + t * B` with A, B free of t (with `ends` and C10.arc this is constant speed along
            the shortest arc);
    swap:   interpolate(b, a, 1 - t) has the same normal form as interpolate(a, b, t), in the same sense, in every
            feasible case of the comparisons that gate the value.
    Undecided (no alarm) where the value is not tracked; a violation needs the two forms to differ as functions."""
    from ..symval import Poly, swap_params, subst, fmt_poly, collect_atoms, has_atom, from_key
    from ..symrules import analyze, opaque, term_differs, congruent, cases, reduce_mod
    re_ = RuleResult('C10.ends', 'interpolate(a, b, 0) is a and interpolate(a, b, 1) is b (exactly / modulo 2 pi / as the same rotation)')
    ra = RuleResult('C10.affine', 'vector and angle interpolation is affine in t')
    rw = RuleResult('C10.swap', 'interpolate(b, a, 1 - t) denotes the same configuration as interpolate(a, b, t)')
    ru = RuleResult('C10.unit', 'interpolated quaternions have unit norm for unit end points')
    rv = RuleResult('C10.speed', 'the normal form of distance(from, interpolate(from, to, t)) evaluates to t * distance(from, to)')
    n = 0
    dist = {}
    for db in ctx.lib_bodies():
        if db.impl_trait == SS and db.name == 'distance' and db.kind == 'AssocFn' and db.arg_count == 3:
            dist[db.j.get('impl_adt')] = db
    M = 2 * math.pi
    for b in sorted(ctx.lib_bodies(), key=lambda x: x.path):
        if b.impl_trait != SS or b.name != 'interpolate' or b.kind != 'AssocFn' or b.arg_count != 5:
            continue
        n += 1
        tys = [b.local_ty(i) for i in range(1, 6)]
        tpar = [i for i in range(1, 6) if b.local_ty(i) == 'f64']
        outp = [i for i in range(1, 6) if b.local_ty(i).startswith('&mut ')]
        ends = [i for i in range(2, 6) if i not in tpar and i not in outp]
        if len(tpar) != 1 or len(outp) != 1 or len(ends) != 2:
            continue
        tp, op, (pa, pb) = tpar[0], outp[0], ends
        sty = b.local_ty(op)
        kind = 'angle' if sty.endswith('SO2State') else 'quat' if sty.endswith('SO3State') else 'exact'
        sym, _ = analyze(ctx, b)
        outs_t = {k[2:]: v for k, v in sym.items() if k[0] == 'out' and k[1] == op}
        if not outs_t or any(opaque(v) for v in outs_t.values()):
            for rr in (re_, ra, rw):
                rr.inst('%s: undecided - what is stored is not tracked to a closed normal form (delegation is C13.match)' % b.path, ok=True, nontrivial=False)
            continue

        def same(comp_vals, target_of, what, rule, rr, ordinal):
            """comp_vals {path: Poly}; target_of(path) -> Poly; compares per `kind` in every feasible case"""
            ks = sorted(comp_vals, key=repr)
            polys = [comp_vals[k] for k in ks] + [target_of(k) for k in ks]
            cs = cases(polys)
            if cs is None or any(p is None for p in polys):
                rr.inst('%s %s: undecided - too many gating conditions' % (b.path, what), ok=True, nontrivial=False)
                return
            bad = None
            undec = False
            for asg, ps in cs:
                m = len(ks)
                vs, ts = ps[:m], ps[m:]
                if any(x is None for x in ps):
                    undec = True
                    continue
                if kind == 'quat' and m == 4:
                    for i in range(m):
                        for j in range(i + 1, m):
                            l, r_ = vs[i] * ts[j], vs[j] * ts[i]
                            if l is None or r_ is None:
                                undec = True
                            elif l != r_:
                                d = term_differs(l, r_)
                                if d is True:
                                    bad = (ks[i], ks[j], l, r_)
                                else:
                                    undec = True
                    continue
                for i in range(m):
                    if kind == 'angle':
                        c = congruent(vs[i], ts[i], M)
                        if not c:
                            d = term_differs(vs[i], ts[i], mod=M)
                            if d is True:
                                bad = (ks[i], None, vs[i], ts[i])
                            else:
                                undec = True
                    else:
                        if vs[i] != ts[i]:
                            d = term_differs(vs[i], ts[i])
                            if d is True:
                                bad = (ks[i], None, vs[i], ts[i])
                            else:
                                undec = True
            if bad is not None:
                rr.inst('%s %s: differs' % (b.path, what), ok=False, site=b.loc(0))
                rr.violations.append(Violation('C10', rule, b.path, what,
                                               '%s: component %s is %s where %s is required%s' % (
                                                   what, '.'.join(map(str, bad[0])), fmt_poly(bad[2])[:260], fmt_poly(bad[3])[:200],
                                                   ' (compared up to a common factor with component %s)' % '.'.join(map(str, bad[1])) if bad[1] else
                                                   (' modulo 2 pi' if kind == 'angle' else '')), loc=b.loc(0), ordinal=ordinal))
            elif undec:
                rr.inst('%s %s: undecided - forms differ syntactically in some case but not at any evaluation point' % (b.path, what), ok=True, nontrivial=False)
            else:
                rr.inst('%s %s: shown in %d feasible case(s) of the gating comparisons (%s)' % (b.path, what, len(cs), kind), ok=True, site=b.loc(0))

        # ---- ends
        for o, (tv, src, nm) in enumerate(((0.0, pa, 'at t = 0 the result is `%s`' % b.local_name(pa)), (1.0, pb, 'at t = 1 the result is `%s`' % b.local_name(pb)))):
            res, _ = analyze(ctx, b, {tp: tv})
            outs = {k[2:]: v for k, v in res.items() if k[0] == 'out' and k[1] == op}
            if not outs or any(opaque(v) for v in outs.values()) or set(outs) != set(outs_t):
                re_.inst('%s %s: undecided' % (b.path, nm), ok=True, nontrivial=False)
                continue
            same(outs, lambda path, _s=src: Poly.atom(('leaf', _s, path)), nm, 'C10.ends', re_, o)
        # ---- swap
        tl = ('leaf', tp, ())

        def flip(a):
            if a == tl:
                return Poly.const(1.0) - Poly.atom(tl)
            return None
        swapped = {k: subst(swap_params(v, pa, pb), flip) for k, v in outs_t.items()}
        same(outs_t, lambda path: swapped[path], 'interpolate(b, a, 1 - t) against interpolate(a, b, t)', 'C10.swap', rw, 0)
        # ---- constant speed: the space's own distance composed with what interpolate stores
        if b.j.get('impl_adt') in dist:
            _speed(ctx, b, dist[b.j.get('impl_adt')], outs_t, tl, pa, pb, kind, rv)
        # ---- unit norm of an interpolated quaternion (unit end points)
        if kind == 'quat' and len(outs_t) == 4:
            _unit(ctx, b, outs_t, tl, ru)
        # ---- affine in t
        if kind in ('angle', 'exact'):
            for o, (path, v) in enumerate(sorted(outs_t.items(), key=repr)):
                w = reduce_mod(v, M) if kind == 'angle' else v
                deg_ok = True
                for mono, _c in w.m.items():
                    for a, pw in mono:
                        if a == tl and pw != 1:
                            deg_ok = False
                        if a != tl and has_atom(Poly.atom(a), lambda x: x == tl):
                            deg_ok = False
                if deg_ok:
                    ra.inst('%s component %s is affine in t: %s' % (b.path, '.'.join(map(str, path)), fmt_poly(w)[:140]), ok=True, site=b.loc(0))
                    continue
                if _second_difference(w, tl) is not True:
                    ra.inst('%s component %s: undecided' % (b.path, '.'.join(map(str, path))), ok=True, nontrivial=False)
                    continue
                ra.inst('%s component %s is not affine in t' % (b.path, '.'.join(map(str, path))), ok=False, site=b.loc(0))
                ra.violations.append(Violation('C10', 'C10.affine', b.path, 'affine:' + '.'.join(map(str, path)),
                                               'the stored value %s is not of the form A + t * B: the motion does not advance at constant speed' % fmt_poly(w)[:300],
                                               loc=b.loc(0), ordinal=o))
    if n < 6:
        re_.violations.append(Violation('C10', 'C10.ends', 'oxmpl', 'floor', 'only %d interpolate functions found (floor 6)' % n))
    return [re_, ra, rw, ru, rv]


def _second_difference(w, tl):
    """True when the normal form w has a non-zero second difference in t at some evaluation point"""
    from ..symrules import Env, ev
    hits = 0
    for seed in range(30):
        vals = []
        try:
            for t in (0.2, 0.45, 0.7):
                env = Env(seed)
                env.vals[(tl, None)] = t
                vals.append(ev(w, env))
        except (ValueError, ZeroDivisionError, OverflowError, TypeError):
            continue
        d2 = vals[0] - 2 * vals[1] + vals[2]
        if abs(d2) > 1e-7 * max(1.0, abs(vals[0]), abs(vals[1])):
            hits += 1
    return hits >= 3


def _algebra_safe(ctx):
    """the normal-form rules never alarm on what they cannot analyse: an internal error is an undecided instance"""
    try:
        return _algebra(ctx)
    except Exception as e:      # noqa
        r = RuleResult('C10.algebra', 'normal-form clauses (sym / zero / period resp. ends / affine / swap)')
        r.inst('normal-form analysis: undecided - internal error %s: %s' % (type(e).__name__, str(e)[:200]), ok=True, nontrivial=False)
        return [r]


def _unit(ctx, b, outs, tl, ru):
    """sum of the squares of the four stored components is 1 when both end points are unit quaternions: proved where the
    normal form reduces to 1 (a value divided by its own norm), undecided where it does not but evaluates to 1 at every
    evaluation point (SLERP needs a trigonometric identity the normal forms do not have), a violation where it evaluates
    to something else"""
    from ..symval import Poly
    from ..symrules import cases, deep_unit, cancel_recips, Env, ev
    ks = sorted(outs, key=repr)
    cs = cases([outs[k] for k in ks])
    if cs is None:
        ru.inst('%s: undecided - too many gating conditions' % b.path, ok=True, nontrivial=False)
        return
    proved = 0
    for asg, ps in cs:
        if any(p is None for p in ps):
            continue
        u = Poly()
        for p in ps:
            sq = p * p
            if sq is None:
                u = None
                break
            u = u + sq
        if u is None:
            continue
        u = cancel_recips(deep_unit(u))
        if u is not None and u.is_const() and abs(u.cval() - 1.0) < 1e-12:
            proved += 1
    # evaluation of the whole (gated) form at unit end points and t in [0, 1]
    total = Poly()
    for k in ks:
        sq = outs[k] * outs[k]
        total = total + sq if sq is not None and total is not None else None
    bad = None
    n_ok = 0
    if total is not None:
        for seed in range(60):
            env = Env(seed, special=seed % 3 == 2)
            env.unit = True
            env.near = seed % 4 == 1          # nearly parallel end points (the branch interpolating linearly)
            env.vals[(tl, None)] = [0.5, 0.25, 0.9, 0.0, 1.0][seed % 5] if seed % 2 else env.rnd.uniform(0.2, 0.8)
            try:
                v = ev(total, env)
            except (ValueError, ZeroDivisionError, OverflowError, TypeError):
                continue
            if v != v:
                continue
            n_ok += 1
            if abs(v - 1.0) > 1e-6:
                bad = v
                break
    if bad is not None:
        ru.inst('%s: squared norm evaluates to %.9g' % (b.path, bad), ok=False, site=b.loc(0))
        ru.violations.append(Violation('C10', 'C10.unit', b.path, 'unit-norm',
                                       'the four stored components do not form a unit quaternion for unit end points: the squared norm of the '
                                       'normal form evaluates to %.9g at an admissible point (a branch stores an un-normalised combination)' % bad, loc=b.loc(0)))
    elif proved == len(cs):
        ru.inst('%s: squared norm reduces to 1 in all %d feasible cases' % (b.path, len(cs)), ok=True, site=b.loc(0))
    else:
        ru.inst('%s: undecided - squared norm reduces to 1 in %d of %d feasible cases (the others evaluate to 1 at all %d admissible points tried)' % (
            b.path, proved, len(cs), n_ok), ok=True, nontrivial=False)


def _speed(ctx, b, db, outs, tl, pa, pb, kind, rv):
    """d(from, interpolate(from, to, t)) against t * d(from, to): the two normal forms (the distance body composed with
    what interpolate stores) are compared at admissible points (unit quaternions, t in [0, 1], also nearly parallel end
    points).  There is no syntactic proof of this clause (it needs trigonometric identities): the rule can only report a
    violation - the composed forms take different values, beyond 1e-4 - or leave the clause undecided."""
    from ..symval import Poly, subst, fmt_poly
    from ..symrules import analyze, opaque, Env, ev
    res, _ = analyze(ctx, db)
    D = res.get(('ret',))
    if opaque(D):
        rv.inst('%s: undecided - the distance is not tracked to a closed normal form' % b.path, ok=True, nontrivial=False)
        return
    # distance(from, out): parameter 2 of distance is `from` (interpolate's pa), parameter 3 is the interpolated state

    def comp(a):
        if a[0] == 'leaf' and a[1] == 3:
            v = outs.get(a[2])
            return v if v is not None else 'TOP'
        if a[0] == 'leaf' and a[1] == 2:
            return Poly.atom(('leaf', pa, a[2]))
        return None

    def plain(a):
        if a[0] == 'leaf' and a[1] == 3:
            return Poly.atom(('leaf', pb, a[2]))
        if a[0] == 'leaf' and a[1] == 2:
            return Poly.atom(('leaf', pa, a[2]))
        return None
    lhs = subst(D, comp)
    full = subst(D, plain)
    if lhs is None or full is None:
        rv.inst('%s: undecided - composition not tracked' % b.path, ok=True, nontrivial=False)
        return
    bad = None
    n_ok = 0
    for seed in range(80):
        env = Env(seed, special=seed % 5 == 4)
        env.unit = kind == 'quat'
        env.near = seed % 4 == 1
        t = [0.5, 0.25, 0.9, 0.1, 0.75][seed % 5] if seed % 2 else env.rnd.uniform(0.05, 0.95)
        env.vals[(tl, None)] = t
        try:
            l, f = ev(lhs, env), ev(full, env)
        except (ValueError, ZeroDivisionError, OverflowError, TypeError):
            continue
        if l != l or f != f:
            continue
        n_ok += 1
        if abs(l - t * f) > 1e-4 * max(1.0, abs(f)):
            bad = (t, l, t * f)
            break
    if bad is not None:
        rv.inst('%s: at t = %.3g the distance from `from` is %.9g, t * d(from, to) is %.9g' % ((b.path,) + bad), ok=False, site=b.loc(0))
        rv.violations.append(Violation('C10', 'C10.speed', b.path, 'speed',
                                       'the interpolated state is not at distance t * d(from, to) from `from`: composing the distance normal form '
                                       'with what interpolate stores gives %.9g at t = %.3g where %.9g is required (not constant speed along the '
                                       'shortest path)' % (bad[1], bad[0], bad[2]), loc=b.loc(0)))
    else:
        rv.inst('%s: undecided - no syntactic proof; the composed forms agree at all %d admissible points tried' % (b.path, n_ok), ok=True, nontrivial=False)
