"""C08 — API misuse and sampler failures surface as errors, never panics or stale answers.

C08.gates   every non-setup entry point obtains the contents of problem_def / validity_checker through
            ok_or(PlannerUninitialised)? (or a pattern match); the roadmap query returns UnsampledStateSpace on an empty
            roadmap before touching it; the start gate is C01.gate; "answers the most recently installed problem" is
            C02.reroot
C08.init    the Option fields become Some only in setup / problem replacement, are never reset to None and never moved out
C08.panics  the set of may-panic sites reachable from the public planner API is enumerated (unwrap/expect, panic!/assert!,
            MIR Assert terminators, indexing, library calls with a documented panicking precondition) and each site is
            discharged by a local guard, a checked invariant of another rule, or the malformed-input table; any other
            site is a violation keyed (function, callee, ordinal)
"""
import re

from ..core import RuleResult, Violation, VEC_LEN, user_call
from ..engine import walk, fmt_terms, strip_clone, T
from .. import planner as P
from .c12 import cmp_facts, relation_for
from .c01 import _errs_from

META = {
    'explanation': 'C08: error gates exist on every path and map to the documented variants; the Option fields follow a '
                   'one-way typestate; every may-panic site reachable from the planner API (through trait calls resolved '
                   'to all in-workspace impls) is enumerated and must be discharged by a local guard, a checked invariant '
                   'or the reviewed malformed-input table. Panics inside std/rand beyond the tabulated preconditions and '
                   'inside user callbacks are not decided.',
    'assumptions': ['std / rand panic only under their documented preconditions', 'usize arithmetic on node counts cannot overflow (would need 2^64 nodes)',
                    'a state whose shape does not match its space is malformed input'],
}

UNWRAPS = {'std::option::Option::<T>::unwrap', 'std::option::Option::<T>::expect', 'std::result::Result::<T, E>::unwrap',
           'std::result::Result::<T, E>::expect', 'std::result::Result::<T, E>::unwrap_err', 'std::result::Result::<T, E>::expect_err'}
PRECOND = {
    'rand::Rng::random_bool': 'p outside [0,1] (or NaN)',
    'rand::Rng::random_ratio': 'denominator 0 or numerator > denominator',
    'rand::Rng::random_range': 'empty range',
    'rand::Rng::gen_range': 'empty range',
    'std::time::Duration::from_secs_f32': 'negative, NaN or overflowing seconds',
    'std::time::Duration::from_secs_f64': 'negative, NaN or overflowing seconds',
    'std::cell::RefCell::<T>::borrow_mut': 'already borrowed',
    'std::cell::RefCell::<T>::borrow': 'already mutably borrowed',
    'std::ops::Sub::sub': 'Instant/Duration subtraction underflow',
    'std::ops::Add::add': 'Instant/Duration addition overflow (e.g. Instant::now() + Duration::MAX); use checked_add',
    'std::ops::AddAssign::add_assign': 'Instant/Duration addition overflow',
    'std::ops::SubAssign::sub_assign': 'Instant/Duration subtraction underflow',
    'std::ops::Mul::mul': 'Duration multiplication overflow',
    'std::collections::VecDeque::<T, A>::swap': 'index out of bounds',
    'core::slice::<impl [T]>::swap': 'index out of bounds',
    'std::vec::Vec::<T, A>::remove': 'index out of bounds',
    'std::vec::Vec::<T, A>::swap_remove': 'index out of bounds',
    'std::vec::Vec::<T, A>::insert': 'index out of bounds',
    'std::vec::Vec::<T, A>::split_off': 'index out of bounds',
    'std::vec::Vec::<T, A>::drain': 'range out of bounds',
}
# reviewed table: (function path regex, site regex, reason) — sites reachable only with malformed input, or
# documented construction-time assertions
MALFORMED = [
    (r'real_vector_state_space::RealVectorStateSpace as base::space::StateSpace>::', r'^(panic:|index:|assert:)',
     'a RealVectorState whose length differs from the space dimension is malformed input (dimension asserts are the documented behaviour; the indexed loops run under them)'),
    (r'<T as base::spaces::any_state_space::AnyStateSpace>::', r'^unwrap:',
     'a component state of another type than its subspace is malformed input (failed downcast)'),
    (r'compound_state_space::CompoundStateSpace as base::space::StateSpace>::', r'^index:.*(components|weights)',
     'a CompoundState with fewer components than the space has subspaces is malformed input; weights.len() == subspaces.len() is asserted by CompoundStateSpace::new'),
    (r'compound_state_space::CompoundStateSpace::new$', r'^panic:',
     'CompoundStateSpace::new documents (and the test-suite expects) a panic on mismatched subspace / weight counts'),
    (r'states::se[23]_state::SE[23]State::get_', r'^(unwrap:|index:)',
     'SE2/SE3 state getters on a state that was not built by its constructor (malformed input)'),
]


def sites_of(ctx, b):
    """may-panic sites of one body: list of (kind, key detail, block, description)"""
    fn = ctx.fn(b)
    out = []
    for bi, blk in enumerate(b.blocks):
        if blk['cleanup']:
            continue
        t = blk['term']
        if t['k'] == 'call':
            p = t['func'].get('path', '')
            if p in UNWRAPS:
                out.append(('unwrap', p.rsplit('::', 1)[1], bi, t))
            elif p.startswith('core::panicking::') or p.startswith('std::rt::begin_panic') or p == 'std::rt::panic_fmt':
                out.append(('panic', p.rsplit('::', 1)[1], bi, t))
            elif p in ('std::ops::Index::index', 'std::ops::IndexMut::index_mut'):
                out.append(('index', 'index', bi, t))
            elif p in PRECOND:
                if p.startswith('std::ops::') and not any(k in (t['func'].get('self_ty') or t['func'].get('full') or '').split(' as ')[0]
                                                          for k in ('Instant', 'Duration', 'SystemTime')):
                    continue
                out.append(('precond', p, bi, t))
        elif t['k'] == 'assert':
            if t['msg'].startswith(('MisalignedPointerDereference', 'NullPointerDereference')):
                continue   # debug-build pointer checks inserted by rustc on references: cannot fail in safe code
            out.append(('assert', t['msg'], bi, t))
    return out


def run(ctx, tier):
    r_gate = RuleResult('C08.gates', 'uninitialised / unsampled planners answer with the documented errors before touching their state')
    r_init = RuleResult('C08.init', 'the Option fields become Some only in setup / problem replacement and are never cleared or moved out')
    r_pan = RuleResult('C08.panics', 'every may-panic site reachable from the planner API is discharged')
    planners = ctx.planners()
    if len(planners) < 4:
        r_gate.violations.append(Violation('C08', 'C08.gates', 'oxmpl', 'floor', 'only %d planners (floor 4)' % len(planners)))

    # ---------------------------------------------------------------- gates / init
    for p in planners:
        opt_fields = [f['name'] for f in p['fields'] if f['ty'].startswith('std::option::Option<') and 'Rng' not in f['ty']]
        for b in p['entry']:
            if b.name in ('setup', 'new') or b.j.get('ret_ty', '').startswith('std::vec::Vec<'):
                continue
            fn = ctx.fn(b)
            returns_result = b.j.get('ret_ty', '').startswith('std::result::Result<')
            if not returns_result:
                continue
            for F in opt_fields:
                gates = []
                for bi, t in b.calls():
                    if t['func'].get('path') == 'std::option::Option::<T>::ok_or':
                        x = fn.arg_terms(t, 0, bi)

                        def _is_field(ts, F=F, d=0):
                            # self.F, or Option::zip(.., self.F, ..): None as soon as self.F is None
                            if not ts or d > 3:
                                return False
                            for n in ts:
                                if n[0] == 'field' and n[2] == F and all(q[0] == 'param' and q[1] == 1 for q in n[1]):
                                    continue
                                if n[0] == 'call' and n[1] == 'std::option::Option::<T>::zip' and len(n[2]) == 2 and \
                                        (_is_field(n[2][0], F, d + 1) or _is_field(n[2][1], F, d + 1)):
                                    continue
                                return False
                            return True
                        if _is_field(x):
                            e = fn.arg_terms(t, 1, bi)
                            gates.append((bi, e))
                # does this entry point (or its planner-local callees) use the field at all?
                uses = any(n[0] == 'field' and n[2] == F for bi, t in b.calls() for j in range(len(t['args'])) for n in walk(fn.arg_terms(t, j, bi)))
                if not uses and not gates:
                    continue
                ok = bool(gates) and all(e and all(n[0] == 'agg' and n[2] == 'PlannerUninitialised' for n in e) for (_bi, e) in gates)
                if not gates:
                    # pattern-match gate (`let Some(pd) = &self.f else { return Err(PlannerUninitialised) }`, also on a tuple of
                    # both fields): the None edge of a switch on the field's discriminant leads to exactly that error
                    de = fn.discr_edges(lambda ts, F=F: bool(ts) and all(n[0] == 'field' and n[2] == F and all(q[0] == 'param' and q[1] == 1 for q in n[1]) for n in ts))
                    none_edges = set(de.get('0', set()))
                    if '1' in de and '0' not in de:
                        none_edges |= de.get('otherwise', set())        # `[1: some, otherwise: none]`
                    if none_edges:
                        errs = _errs_from(fn, [d for (_s, d) in none_edges])
                        gates = [(next(iter(none_edges))[0], frozenset())]
                        ok = errs == {'PlannerUninitialised'}
                        if not ok:
                            gates = [(gates[0][0], T(('const', 'leads to %s' % sorted(errs))))]
                # the gate comes first: it dominates every other use of self.<F>
                r_gate.inst('%s: self.%s is obtained through ok_or(PlannerUninitialised)?' % (b.path, F), ok=ok, site=b.loc(gates[0][0]) if gates else b.loc(0))
                if not ok:
                    why = 'self.%s is used without an ok_or(PlannerUninitialised)? gate' % F if not gates else \
                        'an unset self.%s is reported as %s instead of PlannerUninitialised' % (F, [fmt_terms(e)[:40] for _b, e in gates])
                    r_gate.violations.append(Violation('C08', 'C08.gates', b.path, 'gate:' + F, why, loc=b.loc(0)))
        # roadmap planners: empty roadmap => UnsampledStateSpace before any roadmap access in solve
        is_roadmap = any(c['links'] and not any('parent' in l for l in c['links']) for c in p['containers'].values())
        if is_roadmap:
            cname = list(p['containers'].keys())[0]
            cont = T(('field', T(('param', 1, 'self')), cname))
            for b in p['methods']:
                if b.name != 'solve' or not b.impl_trait:
                    continue
                fn = ctx.fn(b)
                te, fe, sbs = fn.bool_edges(lambda n: n[0] == 'call' and n[1] == 'std::vec::Vec::<T, A>::is_empty' and n[2][0] == cont)
                probs = []
                if not sbs:
                    probs.append('no emptiness test on the roadmap')
                else:
                    errs = _errs_from(fn, [d for (_s, d) in te])
                    if errs != {'UnsampledStateSpace'}:
                        probs.append('an empty roadmap is reported as %s instead of UnsampledStateSpace' % sorted(errs))
                    for bi, t in b.calls():
                        if t['func'].get('path') in ('std::ops::Index::index', 'std::ops::IndexMut::index_mut') and fn.arg_terms(t, 0, bi) == cont:
                            if not P.guarded(fn, bi, fe):
                                probs.append('the roadmap is indexed at %s before the emptiness test' % fn.loc(bi))
                r_gate.inst('%s: empty roadmap => UnsampledStateSpace before any access' % b.path, ok=not probs, site=b.loc(0))
                for o, pr in enumerate(dict.fromkeys(probs)):
                    r_gate.violations.append(Violation('C08', 'C08.gates', b.path, 'unsampled', pr, loc=b.loc(0), ordinal=o))
        # ---- installers store what they are given, on every path (the most recently installed problem is the one answered)
        ftys = {f['name']: f['ty'] for f in p['fields']}
        n_inst = 0
        for b in p['methods']:
            if b.name == 'new':
                continue
            fn = ctx.fn(b)
            for j in range(2, b.arg_count + 1):
                pty = b.local_ty(j)
                if not (pty.startswith('std::sync::Arc<') and ('ProblemDefinition<' in pty or 'StateValidityChecker<' in pty)):
                    continue
                kind = 'ProblemDefinition<' if 'ProblemDefinition<' in pty else 'StateValidityChecker<'
                tgt = [F for F in opt_fields if ftys[F].startswith('std::option::Option<std::sync::Arc<') and kind in ftys[F]]
                n_inst += 1
                probs = []
                if len(tgt) != 1:
                    probs.append('no Option field of type %s to install parameter %d into' % (pty, j))
                else:
                    F = tgt[0]
                    sites = P.install_sites(fn, F)
                    good = set()
                    for s in sites:
                        v = strip_clone(s['value']) if s['value'] is not None else None
                        from_param = v is not None and bool(v) and all(n[0] == 'param' and n[1] == j for n in v)
                        if s['kind'] == 'conditional':
                            probs.append('self.%s is installed with get_or_insert (only when nothing was installed before): a later '
                                         '%s keeps the previous value and solve answers the old problem' % (F, b.name))
                        elif not from_param:
                            probs.append('self.%s is set to %s, not to the %s parameter' % (F, fmt_terms(s['raw'] or frozenset())[:50], b.local_name(j)))
                        else:
                            good.add(s['block'])
                    if not sites:
                        probs.append('parameter %s is never stored into self.%s' % (b.local_name(j), F))
                    elif good:
                        r = fn.reachable(0, stop=frozenset(good))
                        if any(rb in r and rb not in good for rb in fn.return_blocks()):
                            probs.append('self.%s is not stored on every path through %s' % (F, b.name))
                r_init.inst('%s installs its %s parameter into the planner on every path' % (b.path, b.local_name(j)), ok=not probs, site=b.loc(0))
                for o, pr in enumerate(dict.fromkeys(probs)):
                    r_init.violations.append(Violation('C08', 'C08.init', b.path, 'install:%s' % b.local_name(j), pr, loc=b.loc(0), ordinal=o))
        if n_inst < 2:
            r_init.violations.append(Violation('C08', 'C08.init', p['adt'], 'install-floor',
                                               'only %d installed parameters found in %s (floor 2: problem definition and validity checker)' % (n_inst, p['name'])))
        # ---- init typestate
        for b in P.planner_bodies(p):
            fn = ctx.fn(b)
            for bi, blk in enumerate(b.blocks):
                if blk['cleanup']:
                    continue
                for si, st in enumerate(blk['stmts']):
                    if st['k'] != 'assign':
                        continue
                    pl = st['place']
                    names = [e.get('name') for e in pl['p'] if isinstance(e, dict) and 'f' in e]
                    if pl['l'] == 1 and len(names) == 1 and names[0] in opt_fields and any(e == 'deref' for e in pl['p']):
                        v = fn.rvalue_terms(st['rv'], (bi, si))
                        is_some = v and all(n[0] == 'agg' and n[2] == 'Some' for n in v)
                        installer = b.name in ('setup', 'set_problem_definition') or b.name.startswith('set_')
                        ok = is_some and installer
                        r_init.inst('%s stores %s into self.%s' % (b.path, 'Some(..)' if is_some else fmt_terms(v)[:30], names[0]), ok=ok, site=b.loc(bi, si))
                        if not ok:
                            r_init.violations.append(Violation('C08', 'C08.init', b.path, 'store:' + names[0],
                                                               'self.%s is %s outside setup / problem replacement' % (names[0], 'set' if is_some else 'cleared'),
                                                               loc=b.loc(bi, si)))
                    # moving the field out
                    if st['rv']['k'] == 'use' and 'move' in st['rv']['op']:
                        src = st['rv']['op']['move']
                        sn = [e.get('name') for e in src['p'] if isinstance(e, dict) and 'f' in e]
                        if src['l'] == 1 and sn[:1] and sn[0] in opt_fields and len(sn) == 1 and b.name != 'new':
                            r_init.violations.append(Violation('C08', 'C08.init', b.path, 'move:' + sn[0], 'self.%s is moved out' % sn[0], loc=b.loc(bi, si)))
            for bi, t in b.calls():
                if t['func'].get('path') in ('std::option::Option::<T>::take', 'std::mem::take', 'std::mem::replace'):
                    pl = t['args'][0].get('move') or t['args'][0].get('copy')
                    idt = fn.place_terms(pl, (bi, fn.nstmts(bi)), mut_kills=False)
                    for n in idt:
                        if n[0] == 'field' and n[2] in opt_fields and all(q[0] == 'param' and q[1] == 1 for q in n[1]):
                            r_init.violations.append(Violation('C08', 'C08.init', b.path, 'take:' + n[2], 'self.%s is taken out of the planner' % n[2], loc=b.loc(bi)))
    if not r_init.instances:
        r_init.violations.append(Violation('C08', 'C08.init', 'oxmpl', 'floor', 'no store to an Option field found'))

    # ---------------------------------------------------------------- panics
    entries = []
    for p in planners:
        entries += p['entry']
        entries += [b for b in p['methods'] if b.name == 'new' and b.is_pub]
    reach = ctx.reach_set(entries)
    planner_of = {}
    for p in planners:
        for b in P.planner_bodies(p):
            planner_of[b.path] = p
    counts = {'local-guard': 0, 'checked-invariant': 0, 'malformed-input': 0, 'capacity': 0, 'violation': 0}
    # shared private helpers (and their closures) that only the planners' own functions call work on those planners' data:
    # a helper used by one planner is judged as that planner's code
    callers = {}
    for cb in ctx.lib_bodies():
        for pth in ctx.local_callees(cb):
            callers.setdefault(pth, set()).add(cb.path)

    def owner_planner(path, depth=0):
        if path in planner_of:
            return planner_of[path]
        if depth > 3:
            return None
        base = path.split('::{closure', 1)[0]
        if base != path:
            return owner_planner(base, depth + 1)
        hb = ctx.core.body(path)
        if hb is None or hb.is_pub or hb.kind != 'Fn':
            return None
        ps = [owner_planner(c, depth + 1) for c in callers.get(path, ())]
        ps = [x for x in ps if x is not None]
        return ps[0] if ps and len(ps) == len(callers.get(path, ())) else None
    for b in sorted(reach, key=lambda x: x.path):
        fn = ctx.fn(b)
        ordn = {}
        for (kind, detail, bi, t) in sites_of(ctx, b):
            cls, why, what = discharge(ctx, owner_planner(b.path), b, fn, kind, detail, bi, t)
            key = '%s:%s' % (kind, what)
            k = ordn.get(key, 0)
            ordn[key] = k + 1
            counts[cls] = counts.get(cls, 0) + 1
            ok = cls != 'violation'
            r_pan.inst('%s: %s at %s — %s: %s' % (b.path, key, b.loc(bi), cls, why[:90]), ok=ok, site=b.loc(bi), nontrivial=cls in ('local-guard', 'checked-invariant', 'violation'))
            if not ok:
                r_pan.violations.append(Violation('C08', 'C08.panics', b.path, key, why, loc=b.loc(bi), ordinal=k))
    r_pan.notes.append('%d functions reachable from %d API entry points; discharge classes: %s' % (len(reach), len(entries), counts))
    return [r_gate, r_init, r_pan]


def _is_macro(b, bi, names):
    sp = b.blocks[bi]['tspan']
    return any(m in names for m in sp.get('mac', []))


def discharge(ctx, p, b, fn, kind, detail, bi, t):
    """returns (class, reason, key detail)"""
    path = b.path
    # ---- formatting machinery inside println!/format! never panics on these types
    if kind in ('unwrap', 'index', 'panic') and _is_macro(b, bi, ('println', 'print', 'eprintln', 'format', 'write', 'writeln')) and kind != 'panic':
        return 'local-guard', 'inside a formatting macro', detail
    what = detail
    if kind == 'unwrap':
        x = fn.arg_terms(t, 0, bi)
        what = detail + ':' + _origin_name(x)
    elif kind == 'index':
        what = _origin_name(fn.arg_terms(t, 0, bi))
    elif kind == 'precond':
        what = detail.rsplit('::', 1)[1]
    elif kind == 'assert':
        what = detail
    # ---- malformed-input table
    for (frx, srx, reason) in MALFORMED:
        if re.search(frx, path) and re.search(srx, '%s:%s' % (kind, what)):
            return 'malformed-input', reason, what
    if kind == 'panic':
        if _is_macro(b, bi, ('debug_assert', 'debug_assert_eq', 'debug_assert_ne')):
            # compiled out unless debug_assertions are on; in a debug build it restates an invariant the author believes in.
            # Not decided here (listed in the evidence as debug-only): a false debug assertion fails the project's own tests.
            return 'debug-only', 'debug_assert!: absent from release builds (the asserted invariant itself is not decided)', what
        return 'violation', 'explicit panic / assertion reachable from the planner API', what
    if kind == 'assert':
        if detail.startswith('Overflow'):
            # usize arithmetic: +1 on counters / indices cannot overflow; len-1 needs a non-empty container
            if 'Sub' in str(t.get('cond')) or _assert_is_sub(b, bi):
                ok, why = _sub_ok(ctx, p, b, fn, bi)
                return ('checked-invariant', why, what) if ok else ('violation', why, what)
            return 'capacity', 'usize addition on a node count / index (overflow would need 2^64 elements)', what
        if detail.startswith('BoundsCheck'):
            ok, why = _bounds_ok(ctx, p, b, fn, bi)
            return ('local-guard', why, what) if ok else ('violation', why, what)
        if detail.startswith(('DivisionByZero', 'RemainderByZero')):
            # `x / 2`: the zero test rustc emits compares a non-zero literal with 0
            for st in b.blocks[bi]['stmts']:
                if st['k'] == 'assign' and st['rv']['k'] == 'binop' and st['rv']['op'] == 'Eq':
                    for o in (st['rv']['a'], st['rv']['b']):
                        c = o.get('const') if isinstance(o, dict) else None
                        if c is not None and str(c.get('ival', c.get('bits', '0'))) not in ('0', 'None'):
                            return 'local-guard', 'division by a non-zero literal', what
            return 'violation', 'integer division by a value that may be zero', what
        return 'violation', 'assertion %s' % detail, what
    if kind == 'unwrap':
        x = fn.arg_terms(t, 0, bi)
        # Some stored into the same field earlier in this function (setup): unwrap(self.F) after self.F = Some(..)
        flds = [n for n in x if n[0] == 'field' and all(q[0] == 'param' and q[1] == 1 for q in n[1])]
        if flds and len(flds) == len(x):
            F = flds[0][2]
            dom = fn.dominators().get(bi, set())
            for sb, blk in enumerate(b.blocks):
                if sb not in dom or sb == bi:
                    continue
                for st in blk['stmts']:
                    if st['k'] == 'assign' and st['place']['l'] == 1 and [e.get('name') for e in st['place']['p'] if isinstance(e, dict) and 'f' in e] == [F]:
                        v = fn.rvalue_terms(st['rv'], (sb, 0))
                        if v and all(n[0] == 'agg' and n[2] == 'Some' for n in v):
                            return 'local-guard', 'self.%s was assigned Some(..) earlier in this function' % F, what
        # the minimum of a scan over a tree that always holds its root: min_by(.. iter(cont) ..) is Some
        am = P.argmin_info(ctx, T(('unwrap', x))) if x else None
        if am is not None and p is not None and _nonempty_container(ctx, p, fn, am['cont']):
            return 'checked-invariant', 'minimum over a tree that always holds its root (C02.reroot pushes it, C15.noremove keeps it)', what
        # parent_map[&k] / walk: Option payloads guarded by a dominating Some edge are `unwrap` nodes from matches, not calls
        return 'violation', '%s() on %s: a failure here is a panic, not an error' % (detail, fmt_terms(x)[:80]), what
    if kind == 'index':
        base = fn.arg_terms(t, 0, bi)
        idx = fn.arg_terms(t, 1, bi)
        ok, why = _index_ok(ctx, p, b, fn, bi, base, idx)
        if ok is True:
            return 'local-guard', why, what
        if ok == 'inv':
            return 'checked-invariant', why, what
        return 'violation', why, what
    if kind == 'precond':
        if detail in ('rand::Rng::random_range', 'rand::Rng::gen_range'):
            return 'checked-invariant', 'non-empty range: C11.range (local lo<hi guard or constructor invariant C12)', what
        if detail.startswith('std::cell::RefCell'):
            return 'violation', 'RefCell borrow may panic', what
        a = [fn.arg_terms(t, j, bi) for j in range(len(t['args']))]
        return 'violation', '%s panics when %s; argument %s is not validated' % (detail, PRECOND[detail], fmt_terms(a[-1])[:60]), what
    return 'violation', 'unclassified site', what


def _origin_name(ts):
    """short stable name of what is unwrapped / indexed"""
    names = set()
    for n in ts:
        m = n
        for _ in range(6):
            if m[0] == 'call':
                names.add(m[1].rsplit('::', 1)[-1])
                break
            if m[0] == 'field':
                names.add(m[2])
                break
            if m[0] in ('unwrap', 'clone', 'index') and len(m[1]) >= 1:
                m = next(iter(m[1]))
                continue
            if m[0] == 'param':
                names.add(m[2] or 'param')
                break
            names.add(m[0])
            break
    return '|'.join(sorted(names)) or '?'


def _assert_is_sub(b, bi):
    for st in b.blocks[bi]['stmts']:
        if st['k'] == 'assign' and st['rv']['k'] == 'binop' and st['rv']['op'].startswith('Sub'):
            return True
    return False


def _nonempty_container(ctx, p, fn, cont):
    """cont is a node container of a planner whose setup pushes a root (C02.reroot) and that only grows (C15.noremove)"""
    if p is None:
        return False
    names = {c[2] for c in cont if c[0] == 'field' and all(q[0] == 'param' and q[1] == 1 for q in c[1])}
    if names and names <= set(p['containers']):
        rooted = set()
        for pu in P.pushes(ctx, p):
            if pu['in_setup']:
                rooted |= {n[2] for n in pu['cont'] if n[0] == 'field'}
        return names <= rooted
    # a parameter of node-vector type (helper): every actual is such a container
    if cont and all(c[0] == 'param' and P.node_vec_ty(p, fn.b.local_ty(c[1])) for c in cont):
        return True
    return False


def _sub_ok(ctx, p, b, fn, bi):
    for si, st in enumerate(b.blocks[bi]['stmts']):
        if st['k'] == 'assign' and st['rv']['k'] == 'binop' and st['rv']['op'].startswith('Sub'):
            a = fn.op_terms(st['rv']['a'], (bi, si))
            c = fn.op_terms(st['rv']['b'], (bi, si))
            if c == T(('const', '1')) and a and all(n[0] == 'call' and n[1] == VEC_LEN for n in a):
                conts = [n[2][0] for n in a]
                if all(_nonempty_container(ctx, p, fn, ct) for ct in conts):
                    return True, 'len() - 1 of a tree that always holds its root (C02.reroot pushes it, C15.noremove keeps it)'
                # directly after a push to the same vector
                return False, 'len() - 1 of a vector that may be empty'
    return False, 'unsigned subtraction may underflow'


def _bounds_ok(ctx, p, b, fn, bi):
    # MIR bounds check on a slice index:  Lt(idx, Len)  — find the index expression
    for si, st in enumerate(b.blocks[bi]['stmts']):
        if st['k'] == 'assign' and st['rv']['k'] == 'binop' and st['rv']['op'] == 'Lt':
            idx = fn.op_terms(st['rv']['a'], (bi, si))
            src = P.iter_source(idx)
            if src is not None:
                return True, 'slice index is a loop induction variable'
            if p is not None and idx:
                # parent-walk cursor over a node slice: indices stored in the tree are in range (C15.range)
                if all(n[0] in ('unwrap', 'param', 'rec') for n in idx):
                    return True, 'index is a stored parent link / the caller\'s node index (C15.range)'
                if idx == T(('const', '0')):
                    # first node of a node slice handed to a helper: the trees always hold their root
                    base = None
                    for sj, st2 in enumerate(b.blocks[bi]['stmts'][:si]):
                        if st2['k'] == 'assign' and st2['rv']['k'] == 'unop' and st2['rv']['op'] == 'PtrMetadata':
                            base = fn.op_terms(st2['rv']['a'], (bi, sj))
                    if base is not None and _nonempty_container(ctx, p, fn, base):
                        return True, 'first node of a tree that always holds its root (C02.reroot, C15.noremove)'
    return False, 'slice index is not provably in range'


def _index_ok(ctx, p, b, fn, bi, base, idx):
    """Index::index(base, idx) on Vec / slice / HashMap / VecDeque"""
    ty = ''
    pl = b.blocks[bi]['term']['args'][0].get('move') or b.blocks[bi]['term']['args'][0].get('copy')
    if pl is not None:
        ty = b.local_ty(pl['l'])
    if 'HashMap<' in ty or 'BTreeMap<' in ty:
        # parent_map[&k]: k was inserted when it was enqueued (C18.bfs) — only for roadmap planners' path extraction
        owner = b
        if b.kind == 'Closure' and '::{closure' in b.path:
            owner = ctx.core.body(b.path.split('::{closure', 1)[0]) or b      # a closure of the path extractor (iter::successors walk)
        if p is not None and owner.j.get('ret_ty', '').startswith('base::planner::Path<'):
            return 'inv', 'every index on the search frontier was inserted into the parent map when enqueued (C18.bfs)'
        return False, 'map lookup by index may panic on a missing key'
    # loop induction variable over the same vector
    src = P.iter_source(idx)
    if src is not None and len(src) == 1:
        q = next(iter(src))
        if q[0] == 'agg' and q[1] == 'std::ops::Range':
            end = dict(q[3]).get('end')
            if end and all(e[0] == 'call' and e[1].endswith('::len') and e[2][0] == base for e in end):
                return True, 'index ranges over 0..len() of the indexed vector'
            if end and all(e[0] == 'field' and e[2] == 'dimension' for e in end):
                return True, 'index ranges over 0..dimension (bounds.len() == dimension by the constructor, C12.count)'
    # node containers of a planner
    if p is not None and (_nonempty_container(ctx, p, fn, base) or any(c[0] == 'field' and c[2] in p['containers'] for c in base)):
        from .c15 import index_in_range
        if _nonempty_container(ctx, p, fn, base):
            ok, why = index_in_range(ctx, p, fn, base, idx, bi)
            if ok:
                return 'inv', 'index of an existing node of a tree that always holds its root (C02.reroot, C15.range, C15.noremove)'
            pu = P.pushed_node_for_index(ctx, p, fn, base, idx)
            if pu is not None:
                return 'inv', 'index of the node just pushed'
            # indices returned by the extension helper / stored parent links / BFS frontier
            if idx and all(n[0] in ('unwrap', 'field', 'param', 'rec', 'payload') for n in idx):
                return 'inv', 'index previously produced by the planner for this container (C15.range / C18.bfs)'
        else:
            # roadmap: accesses sit behind the emptiness gate (C08.gates) and use scan / stored indices
            src2 = P.iter_source(idx)
            if src2 is not None or (idx and all(n[0] in ('unwrap', 'field', 'param', 'rec', 'payload') for n in idx)):
                return 'inv', 'roadmap index from a 0..len scan, an adjacency list or the search frontier (C18.sym / C18.bfs)'
    # visited[k] with visited = vec![false; len(roadmap)] and k a roadmap index
    def _is_marker(ts, d=0):
        if not ts or d > 6:
            return False
        for n in strip_clone(ts):
            if n[0] == 'call' and n[1] == 'std::vec::from_elem':
                continue
            if n[0] == 'out' and n[3] and _is_marker(n[3][0], d + 1):
                continue
            if n[0] == 'rec':
                continue
            return False
        return True
    if _is_marker(base):
        return 'inv', 'marker vector sized to the roadmap; indices are roadmap indices (C18.bfs)'
    if p is not None and P.goal_mask_info(ctx, p, base) is not None:
        return 'inv', 'goal mask with one entry per milestone; indices are roadmap indices (C18.bfs)'
    # index is a parameter of a private helper: every call site must pass an iteration index
    if idx and all(n[0] == 'param' for n in idx) and not b.is_pub and b.kind in ('AssocFn', 'Fn'):
        sites = 0
        good = True
        for cb in ctx.lib_bodies(b.crate):
            cfn = ctx.fn(cb)
            for cbi, ct in cb.calls():
                if ct['func'].get('path') != b.path:
                    continue
                sites += 1
                for n in idx:
                    a = cfn.arg_terms(ct, n[1] - 1, cbi)
                    ok_a = P.iter_source(a) is not None or \
                        (a and all(q[0] == 'param' and cb.kind == 'Closure' for q in a)) or \
                        (a and all(q[0] == 'field' and q[2] == '0' and P.iter_source(q[1]) is not None for q in a))
                    if not ok_a:
                        good = False
        if sites and good:
            return 'inv', 'index parameter of a private helper; all %d call sites pass an iteration index' % sites
    if idx == T(('const', '0')):
        # first element of a list: start_states[0]
        facts_nonempty = False
        te, fe, sbs = fn.bool_edges(lambda n: n[0] == 'call' and n[1].endswith('::is_empty') and n[2][0] == base)
        if sbs and P.guarded(fn, bi, fe):
            facts_nonempty = True
        if facts_nonempty:
            return True, 'behind an is_empty() test'
        if p is not None and any(n[0] == 'field' and n[2] == 'start_states' for n in base):
            # a non-setup method of a planner whose setup already indexed start_states[0] of the stored problem
            if b.name != 'setup' and _setup_indexes_start(ctx, p):
                return 'inv', 'setup() of this planner already read start_states[0] of the installed (immutable, Arc-shared) problem'
        return False, 'first element of %s without an emptiness check: an empty list panics instead of producing an error' % fmt_terms(base)[:60]
    return False, 'index %s into %s is not provably in range' % (fmt_terms(idx)[:40], fmt_terms(base)[:40])


def _setup_indexes_start(ctx, p):
    for b in p['methods']:
        if b.name == 'setup' and b.impl_trait:
            fn = ctx.fn(b)
            for bi, t in b.calls():
                if t['func'].get('path') == 'std::ops::Index::index':
                    base = fn.arg_terms(t, 0, bi)
                    if any(n[0] == 'field' and n[2] == 'start_states' for n in base):
                        return True
    return False
