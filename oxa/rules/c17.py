"""C17 — RRT* choose-parent and rewiring only ever shorten cost-to-come (bookkeeping discipline).

C17.cost     every value stored in a node's cost field is cost_fn(that node, that node's parent) and is written
             together with the parent link; cost_fn(child, parent) = parent.cost + distance(child.state, parent.state)
C17.choose   the parent candidates are {nearest} U neighbours(new state); a candidate replaces the best only when it
             is cheaper (`<` or `<=`); running best cost and best index are updated together
C17.rewire   existing nodes are written only in the rewire block (parent and cost together), candidates are the
             neighbours of the new node
C17.sibling  RRT and RRT* consume the generator identically per iteration (same ordered rng consumers, same bias
             field, same steer field) — the structural reason "same seed => same samples"
"RRT* path no longer than RRT's for the same seed" is a numeric consequence and is not decided.
"""
from ..core import RuleResult, Violation, DISTANCE, SAMPLE_GOAL, SAMPLE_UNIFORM, user_call
from ..engine import walk, fmt_terms, strip_clone, T
from .. import planner as P
from .c12 import cmp_facts, FLIP
from .c16 import guard_signature
from .c05 import neighbour_summary, steer_sites, analyze_steer

META = {
    'explanation': 'C17: the RRT* bookkeeping discipline: cost function shape, cost written only together with the '
                   'parent and computed on (node, that parent), strict improvement for choose-parent, candidate sets '
                   'drawn from the neighbour list of the new state, only rewiring writes existing nodes, RRT/RRT* '
                   'consume the generator identically. Path-length comparison with RRT is not decided.',
    'assumptions': ['distance is non-negative (C09, not decided)', 'C03.link covers the motion-check half of each link'],
}


def cost_planners(ctx):
    out = []
    for p in ctx.planners():
        for cname, c in p['containers'].items():
            costs = [l for l in c['links'] if 'parent' not in l]
            parents = [l for l in c['links'] if 'parent' in l]
            if costs and parents:
                # a numeric cost field
                nadt = ctx.core.adts[c['node']]
                tys = {f['name']: f['ty'] for f in nadt['variants'][0]['fields']}
                if tys.get(costs[0]) == 'f64':
                    out.append((p, cname, c, costs[0], parents[0]))
    return out


def cost_functions(ctx, p, c, cf):
    """methods of the planner returning f64 whose result is parent.cost + distance(child.state, parent.state):
    {path: (child param idx, parent param idx)}"""
    out = {}
    problems = {}
    for b in p['methods']:
        if b.j.get('ret_ty') != 'f64' or b.impl_trait:
            continue
        node_params = [i for i in range(1, b.arg_count + 1) if b.local_ty(i).startswith('&' + c['node'] + '<')]
        if len(node_params) != 2:
            continue
        fn = ctx.fn(b)
        rt = set()
        for rb in fn.return_blocks():
            rt |= fn.local_terms(0, (rb, fn.nstmts(rb)))
        good = None
        bad = None
        for n in rt:
            if n[0] == 'const' and n[1] in ('inff', 'path:std::f64::INFINITY', 'path:core::f64::INFINITY',
                                            'path:core::f64::<impl f64>::INFINITY', 'path:std::f64::<impl f64>::INFINITY'):
                continue   # the uninitialised-planner fallback: never cheaper than anything
            if n[0] == 'binop' and n[1] == 'Add':
                for (x, y) in ((n[2], n[3]), (n[3], n[2])):
                    if len(x) == 1 and len(y) == 1:
                        xn, yn = next(iter(x)), next(iter(y))
                        if xn[0] == 'field' and xn[2] == cf and all(q[0] == 'param' for q in xn[1]) and \
                                yn[0] == 'call' and yn[1] == DISTANCE and len(yn[2]) == 3:
                            par = next(iter(xn[1]))[1]
                            ch = [q for q in node_params if q != par]
                            sa, sb = strip_clone(yn[2][1]), strip_clone(yn[2][2])
                            exp_p = T(('field', T(('param', par, b.local_name(par))), c['state_field']))
                            exp_c = T(('field', T(('param', ch[0], b.local_name(ch[0]))), c['state_field'])) if ch else None
                            if {sa, sb} == {exp_p, exp_c}:
                                good = (ch[0], par)
                            else:
                                bad = 'distance is taken between %s and %s, not between the node and its parent' % (
                                    fmt_terms(sa)[:40], fmt_terms(sb)[:40])
                if good is None and bad is None:
                    bad = 'result is not <parent>.%s + distance(child, parent)' % cf
            else:
                bad = 'result %s is not <parent>.%s + distance(child, parent)' % (fmt_terms(T(n))[:60], cf)
        if good is not None and bad is None:
            out[b.path] = good
        else:
            problems[b.path] = bad or 'no additive cost term found'
    return out, problems


def _cost_call(ctx, cfs, ts):
    """ts is exactly {call cost_fn(self, child node, parent node)} -> (child terms, parent terms) list, else None"""
    res = []
    if not ts:
        return None
    for n in ts:
        if n[0] == 'call' and n[1] in cfs:
            ch, par = cfs[n[1]]
            res.append((n[2][ch - 1], n[2][par - 1]))
            continue
        # written inline, or through a helper with another signature (states and the parent's cost as arguments)
        fields = cfs.get('__fields__')
        sub = P.cost_pairs(ctx, cfs.get('__planner__'), T(n), fields[0], fields[1]) if fields else None
        if sub is None:
            return None
        res.extend(sub)
    return res


def run(ctx, tier):
    r_cost = RuleResult('C17.cost', 'recorded cost = cost_fn(node, its parent), written together with the parent link')
    r_choose = RuleResult('C17.choose', 'parent candidates are nearest U neighbours; replacement only under strict cost improvement')
    r_rew = RuleResult('C17.rewire', 'only the rewire block writes existing nodes; its candidates are the neighbours of the new node')
    r_sib = RuleResult('C17.sibling', 'RRT and RRT* consume the generator identically per iteration')
    cps = cost_planners(ctx)
    if len(cps) < 1:
        r_cost.violations.append(Violation('C17', 'C17.cost', 'oxmpl', 'floor', 'no planner with a recorded node cost found (floor 1)'))
    for (p, cname, c, cf, pf) in cps:
        cfs, cprobs = cost_functions(ctx, p, c, cf)
        for path, why in cprobs.items():
            r_cost.violations.append(Violation('C17', 'C17.cost', path, 'cost-fn', why))
        for path in cfs:
            r_cost.inst('%s = parent.%s + distance(child.state, parent.state)' % (path, cf), ok=True)
        sf = c['state_field']
        n_fns = len(cfs)
        cfs['__fields__'] = (cf, sf)
        cfs['__planner__'] = p
        cont = T(('field', T(('param', 1, 'self')), cname))
        links, _pr = P.collect_links(ctx, p)
        # ---- push: cost field of the pushed literal
        for pu in P.pushes(ctx, p):
            if pu['in_setup']:
                # root: cost must be the constant 0
                cst = P.node_field(pu['node'], cf)
                ok = cst is not None and all(n[0] == 'const' and n[1] in ('0.0f', '0f', '-0.0f') for n in cst)
                r_cost.inst('%s: root cost is 0' % pu['body'].path, ok=ok, nontrivial=False)
                if not ok:
                    r_cost.violations.append(Violation('C17', 'C17.cost', pu['body'].path, 'root-cost', 'the root is not installed with cost 0', loc=pu['body'].loc(pu['block'])))
                continue
            fn, b, bi = pu['fn'], pu['body'], pu['block']
            lits, other = P.find_literals(fn, pu['term']['args'][1], (bi, fn.nstmts(bi)), lambda rv: rv.get('adt') == c['node'])
            for (lb, li, lst) in lits:
                cop = P._field_operand(lst, cf)
                pop = P._field_operand(lst, pf)
                st_terms = strip_clone(fn.op_terms(P._field_operand(lst, sf), (lb, li)))
                cdefs = fn.split_defs(cop, (lb, li))
                somes, _o = P.find_literals(fn, pop, (lb, li), lambda rv: rv.get('variant_name') in ('Some', 'None'))
                pdefs = []
                for (sb, si, sst) in somes:
                    if sst['rv']['variant_name'] == 'Some':
                        pdefs += fn.split_defs(sst['rv']['fields'][0], (sb, si))
                # pair cost definitions with parent definitions
                used = set()
                for k, (cb, ci, cts) in enumerate(cdefs):
                    cc = _cost_call(ctx, cfs, cts)
                    ok = False
                    why = ''
                    if cc is None:
                        why = 'stored cost %s is not produced by the cost function' % fmt_terms(cts)[:70]
                    else:
                        sig_c = guard_signature(fn, cb)
                        for j, (pb, pi_, pts) in enumerate(pdefs):
                            exp_parent = T(('index', cont, pts))
                            if all(strip_clone(par) == exp_parent and
                                   P.norm_state(ctx, p, fn, fn._field(ch, sf)) == P.norm_state(ctx, p, fn, st_terms)
                                   for (ch, par) in cc) and guard_signature(fn, pb) == sig_c:
                                ok = True
                                used.add(j)
                        if not ok:
                            why = 'cost definition at %s = cost(%s) has no parent-index definition made under the same ' \
                                  'conditions for that same parent (cost and parent can diverge)' % (
                                      fn.loc(cb, ci), ', '.join('%s <- %s' % (fmt_terms(ch)[:30], fmt_terms(par)[:40]) for ch, par in cc))
                    r_cost.inst('%s: pushed node cost definition %d pairs with its parent definition' % (b.path, k), ok=ok, site=fn.loc(cb, ci))
                    if not ok:
                        r_cost.violations.append(Violation('C17', 'C17.cost', b.path, 'push-cost', why, loc=fn.loc(cb, ci), ordinal=k))
                for j, (pb, pi_, pts) in enumerate(pdefs):
                    if j not in used:
                        r_cost.violations.append(Violation('C17', 'C17.cost', b.path, 'push-parent-unpaired',
                                                           'parent definition %s at %s has no matching cost definition' % (fmt_terms(pts)[:50], fn.loc(pb, pi_)),
                                                           loc=fn.loc(pb, pi_), ordinal=j))
                # ---- C17.choose: strictness and candidate sets
                _choose(ctx, p, fn, b, cfs, cdefs, pdefs, cont, st_terms, sf, r_choose)
        # ---- stores into existing nodes
        stores = P.stores_to_node_field(ctx, p)
        by_block = {}
        for stw in stores:
            by_block.setdefault((stw['fn'].path, stw['block']), []).append(stw)
        for (fpath, blk), lst in by_block.items():
            fields = {s['field'] for s in lst}
            fn, b = lst[0]['fn'], lst[0]['body']
            ok = {cf, pf} <= fields
            r_rew.inst('%s: existing node written at %s: fields %s' % (b.path, fn.loc(blk), sorted(fields)), ok=ok, site=fn.loc(blk))
            if not ok:
                r_rew.violations.append(Violation('C17', 'C17.rewire', b.path, 'partial-write',
                                                  'an existing node has %s written without %s (cost and parent must change together)' % (
                                                      sorted(fields), sorted({cf, pf} - fields)), loc=fn.loc(blk)))
                continue
            cs = [s for s in lst if s['field'] == cf][0]
            ps = [s for s in lst if s['field'] == pf][0]
            cc = _cost_call(ctx, cfs, cs['value'])
            okc = False
            why = 'the stored cost is not cost_fn(rewired node, new parent)'
            new_parents = set()
            for n in ps['value']:
                if n[0] == 'agg' and n[2] == 'Some':
                    new_parents |= n[3][0][1]
            if cc is not None:
                J = cs['J']
                okc = all(strip_clone(ch) == T(('index', cs['cont'], J)) and strip_clone(par) == T(('index', cs['cont'], frozenset(new_parents)))
                          for (ch, par) in cc) and ps['J'] == J
            r_cost.inst('%s: rewired node cost = cost_fn(node, new parent)' % b.path, ok=okc, site=fn.loc(blk))
            if not okc:
                r_cost.violations.append(Violation('C17', 'C17.cost', b.path, 'rewire-cost', why, loc=fn.loc(blk)))
            # candidates: J drawn from the neighbour list of the new node (the node whose index is the new parent)
            src = P.iter_source(cs['J'])
            okn = False
            if src is not None:
                for n in src:
                    if n[0] == 'call' and ctx.core.body(n[1]) is not None:
                        summ = neighbour_summary(ctx, p, ctx.fn(ctx.core.body(n[1])))
                        if summ is not None:
                            pidx, R, _c = summ
                            actual = n[2][pidx - 1]
                            ast = P.norm_state(ctx, p, fn, fn._field(actual, sf))
                            newst = set()
                            for np_ in new_parents:
                                newst |= P.norm_state(ctx, p, fn, P.node_state_term(cs['cont'], T(np_), sf))
                            if ast == frozenset(newst):
                                okn = True
                if not okn:
                    from .c05 import inbody_neighbour_centre
                    centre = inbody_neighbour_centre(ctx, p, fn, src)
                    newst = set()
                    for np_ in new_parents:
                        newst |= P.norm_state(ctx, p, fn, P.node_state_term(cs['cont'], T(np_), sf))
                    if centre is not None and centre == frozenset(newst):
                        okn = True
            r_rew.inst('%s: rewire candidates are the neighbours of the new node' % b.path, ok=okn, site=fn.loc(blk))
            if not okn:
                r_rew.violations.append(Violation('C17', 'C17.rewire', b.path, 'candidates',
                                                  'the re-parented node is not drawn from the neighbour list of the new node', loc=fn.loc(blk)))
            # every neighbour is considered: inside the loop over the neighbour list the re-parenting is skipped only by
            # the failing edge of the cost comparison, the failing edge of the motion check, or the test "this neighbour is
            # the new node's own parent"
            loops = [L for L in fn.loops() if blk in L['body']]
            if loops:
                L = min(loops, key=lambda l: len(l['body']))
                allowed = set()
                for m in P.motion_calls(ctx, p):
                    if m['fn'] is fn and m['block'] in L['body']:
                        allowed |= set(m['false_edges'])
                for sb_ in L['body']:
                    si = fn.switch_info(sb_)
                    if si is None or len(si[0]) != 1 or set(si[1].keys()) != {'0'}:
                        continue
                    q = next(iter(si[0]))
                    neg = False
                    while q[0] == 'unop' and q[1] == 'Not' and len(q[2]) == 1:
                        q = next(iter(q[2]))
                        neg = not neg
                    f_t, t_t = si[1]['0'], si[2]
                    if neg:
                        f_t, t_t = t_t, f_t
                    if q[0] == 'binop' and q[1] in ('Lt', 'Le', 'Gt', 'Ge') and (_cost_call(ctx, cfs, q[2]) is not None or _cost_call(ctx, cfs, q[3]) is not None):
                        allowed.add((sb_, f_t))                 # not cheaper: skip
                    elif (q[0] == 'call' and q[1] in ('std::cmp::PartialEq::eq', 'std::cmp::PartialEq::ne') and len(q[2]) == 2) or \
                            (q[0] == 'binop' and q[1] in ('Eq', 'Ne')):
                        sides = (q[2][0], q[2][1]) if q[0] == 'call' else (q[2], q[3])
                        is_ne = q[1].endswith('ne') or q[1] == 'Ne'
                        # one side reads the parent link of the node just pushed (or the value stored there)
                        parentish = False
                        parent_vals = set()
                        for pu_ in P.pushes(ctx, p):
                            if pu_['fn'] is fn and not pu_['in_setup']:
                                pv_ = P.node_field(pu_['node'], pf)
                                for x_ in (pv_ or ()):
                                    if x_[0] == 'agg' and x_[2] == 'Some' and x_[3]:
                                        parent_vals |= set(x_[3][0][1])
                        def _inner(sd):
                            out_ = set()
                            for n_ in sd:
                                out_ |= set(n_[3][0][1]) if (n_[0] == 'agg' and n_[2] == 'Some' and n_[3]) else {n_}
                            return out_

                        def _is_new_parent(sd):
                            # the parent link of the node just pushed, or the very value stored there
                            inn = _inner(sd)
                            if inn and parent_vals and inn == parent_vals:
                                return True
                            if not sd:
                                return False
                            for n_ in sd:
                                if not (n_[0] == 'field' and n_[2] == pf and len(n_[1]) == 1):
                                    return False
                                ix_ = next(iter(n_[1]))
                                if ix_[0] != 'index' or P.pushed_node_for_index(ctx, p, fn, ix_[1], ix_[2]) is None:
                                    return False
                            return True

                        def _is_candidate(sd):
                            return bool(sd) and frozenset(_inner(sd)) == frozenset(cs['J'])
                        # "this neighbour IS the new node's parent": one side is the new node's parent, the other the candidate itself
                        parentish = (_is_new_parent(sides[0]) and _is_candidate(sides[1])) or \
                                    (_is_new_parent(sides[1]) and _is_candidate(sides[0]))
                        if parentish:
                            allowed.add((sb_, f_t if is_ne else t_t))   # it is the parent: skip
                # `let worthwhile = cheaper && self.check_motion(..); if worthwhile { re-parent }`: the flag is false either because the
                # literal was stored (that path took the failing edge of `cheaper`, judged above) or because the motion check, the
                # flag's computed part, said no: the way from that call into the flag test is a "motion invalid" skip
                motion_sites = {(m['fn'].path, m['block']) for m in P.motion_calls(ctx, p) if m['fn'] is fn}
                for sb_ in L['body']:
                    if fn.blocks[sb_]['term']['k'] != 'switch':
                        continue
                    fi_ = fn.flag_info(sb_)
                    if fi_ is None or fi_[0] != 'false':
                        continue
                    si_ = fn.switch_info(sb_)
                    comp_ = [n for n in (si_[0] if si_ else ()) if not (n[0] == 'const' and n[1] in ('true', 'false'))]
                    if len(comp_) == 1 and comp_[0][0] == 'call' and comp_[0][3] in motion_sites and comp_[0][3][1] == fi_[1]:
                        tgt_ = fn.blocks[fi_[1]]['term'].get('target')
                        if tgt_ is not None:
                            allowed.add((fi_[1], tgt_))
                outside = frozenset(x for x in range(fn.nb) if x not in L['body'])
                rr = fn.reachable(L['header'], removed=frozenset(allowed), stop=outside | frozenset([blk]))
                skipped = any(src_ in rr and src_ != blk for (src_, _d) in L['back_edges'])
                r_rew.inst('%s: every neighbour is considered for rewiring (skipped only when not cheaper, not reachable, or the new node\'s parent)' % b.path,
                           ok=not skipped, site=fn.loc(blk))
                if skipped:
                    r_rew.violations.append(Violation(
                        'C17', 'C17.rewire', b.path, 'excluded',
                        'a neighbour can be excluded from rewiring by a condition other than "not cheaper", "motion invalid" or "is the new '
                        'node\'s parent": a node that would become strictly cheaper through the new node keeps its old parent', loc=fn.loc(blk)))
        if not stores:
            r_rew.violations.append(Violation('C17', 'C17.rewire', p['adt'], 'no-rewire', 'no write to an existing node found in %s (no rewiring?)' % p['name']))
        # ---- every node that is added gets its rewire pass: on every way from the push to the end of the iteration (the
        # way back to the head of the main loop, or a return) the rewire loop - or the call of the helper that holds it - is
        # passed.  An early exit between the push and the pass (returning as soon as the new node satisfies the goal, say)
        # leaves neighbours that would be cheaper through that node with their old parent and cost.
        store_fns = {}
        for stw in stores:
            store_fns.setdefault(stw['fn'].path, []).append(stw)
        for pu in P.pushes(ctx, p):
            if pu['in_setup']:
                continue
            fn, b, bi = pu['fn'], pu['body'], pu['block']
            sites = set()
            for stw in store_fns.get(fn.path, []):
                Ls = [L for L in fn.loops() if stw['block'] in L['body'] and bi not in L['body']]
                if Ls:
                    sites.add(min(Ls, key=lambda l: len(l['body']))['header'])
            for cb_, t_ in b.calls():
                callee = t_['func'].get('resolved', {}).get('path') or t_['func'].get('path')
                if callee in store_fns and callee != fn.path:
                    sites.add(cb_)
            if not sites:
                if stores:
                    r_rew.inst('%s: the rewire pass is not in the function that adds the node, nor in a helper it calls (decided in the inlined view)' % b.path,
                               ok=True, nontrivial=False)
                continue
            main = [L for L in fn.loops() if bi in L['body']]
            heads = {min(main, key=lambda l: len(l['body']))['header']} if main else set()
            start = fn.blocks[bi]['term'].get('target')
            # going round the rewire loop because the neighbour list is empty is no skipped pass (`if !neighbours.is_empty() { .. }`)
            empt, _ef, _es = fn.bool_edges(lambda m: m[0] == 'call' and str(m[1]).endswith(('::is_empty',)) and 'Vec' in str(m[1]))
            e2, _f2, _s2 = fn.bool_edges(lambda m: m[0] == 'binop' and m[1] == 'Eq' and any(
                q[0] == 'call' and str(q[1]).endswith('::len') for side in (m[2], m[3]) for q in side) and any(
                q[0] == 'const' and str(q[1]).rstrip('usize_').strip() in ('0',) for side in (m[2], m[3]) for q in side))
            reach = fn.reachable(start, removed=frozenset(set(empt) | set(e2)), stop=frozenset(sites)) if start is not None else set()
            ends = (set(fn.return_blocks()) | heads) - sites
            # a return that reports an error (timeout) is not the end of an iteration that added a node... it is still after the
            # push, so it counts: the property speaks of every node that is added
            bad = sorted(x for x in reach if x in ends)
            okp = not bad
            r_rew.inst('%s: the node pushed at %s gets its rewire pass before the iteration ends' % (b.path, fn.loc(bi)), ok=okp, site=fn.loc(bi))
            if not okp:
                r_rew.violations.append(Violation(
                    'C17', 'C17.rewire', b.path, 'pass-skipped',
                    'after the node is pushed at %s the iteration can end (at %s) without the rewire pass over its neighbours: nodes that '
                    'would be strictly cheaper through the new node keep their old parent and cost' % (fn.loc(bi), ', '.join(fn.loc(x) for x in bad[:3])),
                    loc=fn.loc(bi)))

    # ---------------------------------------------------------------- sibling
    sig = {}
    for p in ctx.planners():
        tree = [c for c in p['containers'].values() if any('parent' in l for l in c['links'])]
        if len(p['containers']) != 1 or not tree:
            continue
        for b in p['methods']:
            if b.name == 'solve' and b.impl_trait:
                sig[p['name']] = (b, _rng_signature(ctx, p, b))
    names = sorted(sig)
    if len(names) < 2:
        r_sib.violations.append(Violation('C17', 'C17.sibling', 'oxmpl', 'floor', 'fewer than two single-tree planners to compare'))
    else:
        base = names[0]
        for other in names[1:]:
            a, bsig = sig[base][1], sig[other][1]
            ok = a == bsig
            r_sib.inst('%s and %s draw from the generator in the same order: %s' % (base, other, a), ok=ok)
            if not ok:
                r_sib.violations.append(Violation('C17', 'C17.sibling', sig[other][0].path, 'rng-order',
                                                  'generator consumption differs: %s has %s, %s has %s' % (base, a, other, bsig),
                                                  loc=sig[other][0].loc(0)))
    return [r_cost, r_choose, r_rew, r_sib]


def _rng_signature(ctx, p, b):
    """ordered list of (rng consumer, guard polarity wrt random_bool, parameter field) in the main loop, plus steer shape"""
    from .c07 import rng_arg_index
    fn = ctx.fn(b)
    items = []
    bias_blocks = [bi for bi, t in b.calls() if t['func'].get('path') == 'rand::Rng::random_bool']
    te, fe = (set(), set())
    if bias_blocks:
        te, fe = P.call_true_edges(fn, bias_blocks[0])
    dom = fn.dominators()
    cons = []
    for bi, t in b.calls():
        f = t['func']
        k = rng_arg_index(f)
        if k is None or not user_call(b, bi):
            continue
        pol = 'T' if P.guarded(fn, bi, te) else ('F' if P.guarded(fn, bi, fe) else '-')
        extra = ''
        if f.get('path') == 'rand::Rng::random_bool':
            extra = fmt_terms(fn.arg_terms(t, 1, bi))
        in_loop = any(bi in L['body'] for L in fn.loops())
        cons.append((len(dom.get(bi, ())), f.get('path'), pol, extra, in_loop))
    cons.sort()
    items = [(c[1], c[2], c[3], c[4]) for c in cons]
    steer = []
    for (sfn, sb, sbi, st) in steer_sites(ctx, p):
        if sfn is fn:
            info, probs = analyze_steer(ctx, p, sfn, sb, sbi, st)
            steer.append((info['max'], not probs))
    return (tuple(items), tuple(steer))


def _choose(ctx, p, fn, b, cfs, cdefs, pdefs, cont, st_terms, sf, r_choose):
    """strict improvement for every non-initial candidate; candidates = nearest + neighbour list of the new state"""
    if len(pdefs) < 2:
        r_choose.violations.append(Violation('C17', 'C17.choose', b.path, 'no-candidates',
                                             'the parent of a new node has a single definition: neighbours are never considered', loc=b.loc(0)))
        return
    # identify the running-best-cost variable's terms at each comparison: all cost defs merged
    all_costs = frozenset().union(*[cts for (_cb, _ci, cts) in cdefs])
    n_strict = 0
    for k, (pb, pi_, pts) in enumerate(pdefs):
        src = P.iter_source(pts)
        if src is None:
            # the initial candidate: must be the nearest node (the node steered from / motion-checked first)
            r_choose.inst('%s: initial parent candidate %s' % (b.path, fmt_terms(pts)[:50]), ok=True, nontrivial=False)
            continue
        # a neighbour candidate: list from a summarised helper applied to the new state
        okl = False
        for n in src:
            if n[0] == 'call' and ctx.core.body(n[1]) is not None:
                summ = neighbour_summary(ctx, p, ctx.fn(ctx.core.body(n[1])))
                if summ is not None:
                    pidx, R, _c = summ
                    ast = P.norm_state(ctx, p, fn, fn._field(n[2][pidx - 1], sf))
                    if ast == P.norm_state(ctx, p, fn, st_terms):
                        okl = True
        if not okl and src is not None:
            from .c05 import inbody_neighbour_centre
            centre = inbody_neighbour_centre(ctx, p, fn, src)
            if centre is not None and centre == P.norm_state(ctx, p, fn, st_terms):
                okl = True
        # guarded by strict  cost(new, candidate) < running best
        facts = cmp_facts(fn, pb)
        oks = False
        for (a, c, rel, _blk) in facts:
            for (x, y, r) in ((a, c, rel), (c, a, {FLIP[q] for q in rel})):
                cc = _cost_call(ctx, cfs, x)
                if cc is None:
                    continue
                if not all(strip_clone(par) == T(('index', cont, pts)) for (_ch, par) in cc):
                    continue
                if not (y <= all_costs and y):
                    continue
                # `<` or `<=`: either way the cheapest candidate wins (ties do not change the cost)
                if (r - {'un'}) <= {'lt', 'eq'} and 'lt' in r:
                    oks = True
        n_strict += 1
        # every neighbour is a candidate: the candidate definition sits in a loop that iterates over the whole list
        oke = P.iter_source(pts, pickers_only_next=True) is not None and any(pb in L['body'] for L in fn.loops())
        if oke:
            L = min([L for L in fn.loops() if pb in L['body']], key=lambda l: len(l['body']))
            # no exit from that loop other than the iterator's end
            for (src, dst) in L['exits']:
                si = fn.switch_info(src)
                if not (si and all(x[0] == 'discr' for x in si[0])) and fn.blocks[dst]['term']['k'] != 'unreachable':
                    oke = False
        if not oke:
            r_choose.violations.append(Violation('C17', 'C17.choose', b.path, 'not-exhaustive',
                                                 'not every neighbour is tried as a parent (a single pre-selected candidate, or a loop that can stop early): '
                                                 'when the cheapest neighbour is blocked, cheaper reachable neighbours are never considered',
                                                 loc=fn.loc(pb, pi_), ordinal=k))
        r_choose.inst('%s: candidate %s replaces the best only if strictly cheaper; drawn from neighbours(new state)' % (b.path, fmt_terms(pts)[:50]),
                      ok=okl and oks and oke, site=fn.loc(pb, pi_))
        if not oks:
            r_choose.violations.append(Violation('C17', 'C17.choose', b.path, 'not-strict',
                                                 'a neighbour becomes the parent without a `cost via neighbour < best cost so far` test',
                                                 loc=fn.loc(pb, pi_), ordinal=k))
        if not okl:
            r_choose.violations.append(Violation('C17', 'C17.choose', b.path, 'candidates',
                                                 'parent candidates are not drawn from the neighbour list of the new state',
                                                 loc=fn.loc(pb, pi_), ordinal=k))
