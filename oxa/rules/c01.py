"""C01 — every state on a returned path is valid (structural clause).

C01.prov    states pushed into a returned path are clones of tree/roadmap node states or start states
C01.admit   a node enters a container only under the true edge of a motion check *to that state*
            (or of a validity query on that state)
C01.kernel  a motion checker answers true only after the checker accepted `to` (directly, or as the t=1
            iterate of a fully validated interpolation loop)
C01.gate    solve returns Ok only after the start state was accepted; a rejected start => InvalidStartState
C01.root    tree roots are start states (covered by the gate) or were validated
"""
from ..core import RuleResult, Violation, IS_VALID, VEC_PUSH, user_call
from ..engine import walk, fmt_terms, strip_clone, T
from .. import planner as P
from ..motion import analyze

META = {
    'explanation': 'C01: no state can reach a returned Path unless the user\'s checker was asked about that very value '
                   '(or about the end point of a motion check to it) and answered true on every path: provenance of '
                   'path states, admission of tree/roadmap nodes under the true edge of the motion check, the motion '
                   'checker kernel (t=1 iterate validated, no unvalidated true exit), the start gate and root '
                   'provenance. Rounding inside interpolate at t=1 is assumed exact (C10).',
    'assumptions': ['S: Clone is value preserving', 'interpolate(a,b,1) yields b (C10, not decided)',
                    'node states are never mutated after insertion (checked by C15.noremove/C15.frozen)'],
}


def run(ctx, tier):
    r_prov = RuleResult('C01.prov', 'path states are clones of container node states or start states')
    r_admit = RuleResult('C01.admit', 'non-root nodes are pushed only under the true edge of a motion check to / validity query on that state')
    r_kern = RuleResult('C01.kernel', 'motion checkers answer true only after the end point was accepted')
    r_gate = RuleResult('C01.gate', 'Ok is returned only after the start state was accepted; rejection => InvalidStartState')
    r_root = RuleResult('C01.root', 'tree roots are start states or validated states')
    r_rechk = RuleResult('C01.recheck', 'replacing the validity checker discards every node accepted by the previous checker')
    planners = ctx.planners()
    if len(planners) < 4:
        r_admit.violations.append(Violation('C01', 'C01.admit', 'oxmpl', 'floor', 'only %d planners discovered (floor 4)' % len(planners)))

    # ---------------------------------------------------------------- C01.kernel
    mcs = ctx.motion_checkers()
    if len(mcs) < 1:
        r_kern.violations.append(Violation('C01', 'C01.kernel', 'oxmpl', 'floor', 'no motion checker discovered'))
    for m in mcs:
        a = analyze(ctx, m)
        for o, e in enumerate(a['exits']):
            if e['kind'] == 'const_false':
                continue
            r_kern.inst('%s: exit %s at %s' % (m.path, e['kind'], m.loc(e['block'], e['idx'])), ok=e['ok'],
                        site=m.loc(e['block'], e['idx']))
            if not e['ok']:
                r_kern.violations.append(Violation('C01', 'C01.kernel', m.path, e['kind'], e['why'],
                                                   loc=m.loc(e['block'], e['idx']), ordinal=o))
        for o, pr in enumerate(a['problems']):
            r_kern.violations.append(Violation('C01', 'C01.kernel', m.path, 'shape', pr, loc=m.loc(0), ordinal=o))
        for L in a['loops']:
            r_kern.inst('%s: interpolation loop at bb%d validated every iterate incl. t=1' % (m.path, L['header']),
                        ok=not L['problems'], site=m.loc(L['header']))
            # loop problems are reported through the const_true exit they feed; report orphan loops too
            if L['problems'] and not any(e['kind'] == 'const_true' for e in a['exits']):
                for o, pr in enumerate(L['problems']):
                    r_kern.violations.append(Violation('C01', 'C01.kernel', m.path, 'loop', pr, loc=m.loc(L['header']), ordinal=o))

    for p in planners:
        pushes = P.pushes(ctx, p)
        mcalls = P.motion_calls(ctx, p)
        vqs = P.validity_queries(ctx, p)
        n_admit = 0
        # ------------------------------------------------------------ C01.admit / C01.root
        for k, pu in enumerate(pushes):
            fn, b, bi = pu['fn'], pu['body'], pu['block']
            sfield = pu['cinfo']['state_field']
            st = P.node_field(pu['node'], sfield)
            if st is None:
                r_admit.violations.append(Violation('C01', 'C01.admit', b.path, 'node-literal',
                                                    'pushed node is not a struct literal (unrecognised shape): %s' % fmt_terms(pu['node'])[:80],
                                                    loc=b.loc(bi), ordinal=k))
                continue
            links = {l: P.node_field(pu['node'], l) for l in pu['cinfo']['links']}
            is_root = pu['in_setup'] and all(v is None or P.is_none(v) or _is_zero(v) or _is_empty_vec(v) for v in links.values())
            by_mc = [m for m in mcalls if m['fn'] is fn and P.same_value(m['to'], st) and P.guarded(fn, bi, m['true_edges'])]
            by_vq = [q for q in vqs if q['fn'] is fn and P.same_value(q['state'], st) and P.guarded(fn, bi, q['true_edges'])]
            if is_root:
                ok = P.is_start_origin(st) or bool(by_vq) or bool(by_mc)
                if not ok:
                    # accepted idiom: the root is validated at query time — every Ok of solve is behind the true
                    # edge of is_valid(self.<container>[0].state) whose false edge only reaches Err returns
                    cnames = {n[2] for n in pu['cont'] if n[0] == 'field'}
                    ok = bool(cnames) and _root_gated_in_solve(ctx, p, vqs, cnames)
                r_root.inst('%s: root pushed at %s has origin %s' % (b.path, b.loc(bi), fmt_terms(strip_clone(st))[:70]),
                            ok=ok, site=b.loc(bi))
                if not ok:
                    r_root.violations.append(Violation(
                        'C01', 'C01.root', b.path, 'root:' + _short_origin(st),
                        'a tree root with origin %s is installed without the validity checker having accepted it '
                        '(it is neither a start state covered by the start gate nor validated)' % fmt_terms(strip_clone(st))[:100],
                        loc=b.loc(bi)))
                continue
            n_admit += 1
            ok = bool(by_mc) or bool(by_vq)
            how = ('motion check at %s' % b.loc(by_mc[0]['block'])) if by_mc else \
                  (('validity query at %s' % b.loc(by_vq[0]['block'])) if by_vq else 'NOTHING')
            r_admit.inst('%s: node pushed at %s admitted by %s' % (b.path, b.loc(bi), how), ok=ok, site=b.loc(bi),
                         guard=how)
            if not ok:
                # diagnose
                near = [m for m in mcalls if m['fn'] is fn and P.guarded(fn, bi, m['true_edges'])]
                if near:
                    why = 'the dominating motion check validates %s but the node stores %s' % (
                        fmt_terms(strip_clone(near[0]['to']))[:80], fmt_terms(strip_clone(st))[:80])
                else:
                    why = 'no motion check / validity query on the pushed state dominates the push'
                r_admit.violations.append(Violation('C01', 'C01.admit', b.path, 'push', why, loc=b.loc(bi), ordinal=k))
        if n_admit < 1:
            r_admit.violations.append(Violation('C01', 'C01.admit', p['adt'], 'floor', 'no admission site found in planner %s (floor 1)' % p['name']))

        # ------------------------------------------------------------ C01.gate
        solves = [b for b in p['methods'] if b.impl_trait and b.name == 'solve']
        for b in solves:
            fn = ctx.fn(b)
            oks = _ok_blocks(fn)
            if not oks:
                r_gate.violations.append(Violation('C01', 'C01.gate', b.path, 'no-ok', 'solve has no Ok return (unrecognised shape)', loc=b.loc(0)))
            root_conts = _start_rooted_containers(ctx, p)
            gates = []
            for q in vqs:
                if q['fn'] is not fn:
                    continue
                s = strip_clone(q['state'])
                if P.is_start_origin(s) or _is_root_of(s, root_conts):
                    gates.append(q)
            for o, (ob, osi) in enumerate(oks):
                dom = [g for g in gates if P.guarded(fn, ob, g['true_edges'])]
                ok = bool(dom)
                why = ''
                if ok:
                    g = dom[0]
                    errs = _errs_from(fn, [d for (_s, d) in g['false_edges']])
                    if errs != {'InvalidStartState'}:
                        ok = False
                        why = 'a rejected start state leads to %s instead of Err(InvalidStartState)' % sorted(errs)
                else:
                    why = 'Ok(path) is reachable without the validity checker having accepted the start state'
                r_gate.inst('%s: Ok at %s is behind the start gate' % (b.path, fn.loc(ob, osi)), ok=ok, site=fn.loc(ob, osi))
                if not ok:
                    r_gate.violations.append(Violation('C01', 'C01.gate', b.path, 'ok-return', why, loc=fn.loc(ob, osi), ordinal=o))

        # ------------------------------------------------------------ C01.recheck
        vcf = [f['name'] for f in p['fields'] if 'StateValidityChecker' in f['ty']]
        n_w = 0
        for b in p['methods']:
            if b.name == 'new':
                continue
            fn = ctx.fn(b)
            writes = []
            for bi, blk in enumerate(b.blocks):
                if blk['cleanup']:
                    continue
                for si, st in enumerate(blk['stmts']):
                    if st['k'] == 'assign' and st['place']['l'] == 1 and any(e == 'deref' for e in st['place']['p']):
                        names = [e.get('name') for e in st['place']['p'] if isinstance(e, dict) and 'f' in e]
                        if len(names) == 1 and names[0] in vcf:
                            writes.append((bi, si))
            if not writes:
                continue
            n_w += 1
            for cname in p['containers']:
                cont = T(('field', T(('param', 1, 'self')), cname))
                clears = {bi for bi, t in b.calls() if t['func'].get('path') == 'std::vec::Vec::<T, A>::clear' and
                          fn.place_terms((t['args'][0].get('move') or t['args'][0].get('copy')), (bi, fn.nstmts(bi)), mut_kills=False) == cont}
                # every path from entry to a return passes a clear of this container
                reach = fn.reachable(0, stop=frozenset(clears))
                ok = bool(clears) and not any(rb in reach and rb not in clears for rb in fn.return_blocks())
                r_rechk.inst('%s: installing a checker clears self.%s on every path' % (b.path, cname), ok=ok, site=b.loc(writes[0][0], writes[0][1]))
                if not ok:
                    r_rechk.violations.append(Violation(
                        'C01', 'C01.recheck', b.path, 'keep:' + cname,
                        'the validity checker is replaced while nodes accepted by the previous checker can stay in self.%s '
                        '(no unconditional clear): a later query can return states the current checker never saw' % cname,
                        loc=b.loc(writes[0][0], writes[0][1])))
        if n_w < 1:
            r_rechk.violations.append(Violation('C01', 'C01.recheck', p['adt'], 'floor', 'no function installs a validity checker in %s' % p['name']))

        # ------------------------------------------------------------ C01.prov
        _prov(ctx, p, r_prov)
    return [r_prov, r_admit, r_kern, r_gate, r_root, r_rechk]


def _root_gated_in_solve(ctx, p, vqs, cnames):
    solves = [b for b in p['methods'] if b.impl_trait and b.name == 'solve']
    if not solves:
        return False
    for b in solves:
        fn = ctx.fn(b)
        gates = [q for q in vqs if q['fn'] is fn and _is_root_of(strip_clone(q['state']), cnames)]
        oks = _ok_blocks(fn)
        if not oks:
            return False
        for (ob, _osi) in oks:
            dom = [g for g in gates if P.guarded(fn, ob, g['true_edges'])]
            if not dom:
                return False
            errs = _errs_from(fn, [d for (_s, d) in dom[0]['false_edges']])
            if not errs or 'Ok' in errs or 'fallthrough' in errs or any(e.startswith('call:') for e in errs):
                return False
    return True


def _short_origin(st):
    for n in strip_clone(st):
        for m in walk(T(n)):
            if m[0] == 'call':
                return m[1].rsplit('::', 1)[-1]
    return 'unknown'


def _is_zero(ts):
    return bool(ts) and all(n[0] == 'const' and n[1] in ('0', '0.0f') for n in ts)


def _is_empty_vec(ts):
    return bool(ts) and all(n[0] == 'call' and n[1] == 'std::vec::Vec::<T>::new' for n in ts)


def _ok_blocks(fn):
    """sites (block, stmt) where the Ok value the function returns is built: `_0 = Ok(..)`, or `x = Ok(..)` for a local x whose
    only use is being moved into the return place (`let outcome = loop { .. break Ok(path) .. }; outcome`)"""
    out = []
    carriers = {0}
    for _ in range(3):
        for bi, blk in enumerate(fn.blocks):
            if blk['cleanup']:
                continue
            for st in blk['stmts']:
                if st['k'] == 'assign' and st['place']['l'] in carriers and not st['place']['p'] and st['rv']['k'] == 'use':
                    src = st['rv']['op'].get('move')
                    if src is not None and not src['p'] and src['l'] not in carriers and \
                            fn.b.local_ty(src['l']).startswith('std::result::Result<'):
                        # the local is read nowhere else
                        reads = 0
                        for blk2 in fn.blocks:
                            if blk2['cleanup']:
                                continue
                            for st2 in blk2['stmts']:
                                if st2['k'] == 'assign' and _reads_local(st2['rv'], src['l']):
                                    reads += 1
                            t2 = blk2['term']
                            if t2['k'] == 'call' and any(_reads_local(a, src['l']) for a in t2['args']):
                                reads += 1
                            if t2['k'] == 'switch' and _reads_local(t2['discr'], src['l']):
                                reads += 1
                        if reads == 1:
                            carriers.add(src['l'])
    for bi, blk in enumerate(fn.blocks):
        if blk['cleanup']:
            continue
        for si, st in enumerate(blk['stmts']):
            if st['k'] == 'assign' and st['place']['l'] in carriers and not st['place']['p'] and \
                    st['rv']['k'] == 'agg' and st['rv'].get('variant_name') == 'Ok':
                out.append((bi, si))
    return out


def _reads_local(x, l):
    if isinstance(x, dict):
        if 'l' in x and 'p' in x and isinstance(x['p'], list):
            return x['l'] == l
        return any(_reads_local(v, l) for k, v in x.items() if k not in ('span',))
    if isinstance(x, list):
        return any(_reads_local(v, l) for v in x)
    return False


def _err_name_of(m):
    """the error a residual carries when it is not a literal: the Err payload of `x.ok_or(E)` / `x.ok_or_else(|| E)` is E"""
    if m[0] == 'payload' and m[2] == 'Err' and m[1]:
        names = set()
        for q in m[1]:
            if q[0] == 'call' and q[1] == 'std::option::Option::<T>::ok_or' and len(q[2]) == 2 and q[2][1] and all(e[0] == 'agg' for e in q[2][1]):
                names |= {e[2] for e in q[2][1]}
            else:
                return '?'
        if len(names) == 1:
            return next(iter(names))
    return '?'


def _errs_from(fn, starts):
    """names of the result variants assigned to _0 on paths from the given blocks (Err(X) -> X, Ok -> 'Ok').
    Path-sensitive for Result/Option literals that flow through `?` on the way (the shape a helper's
    `return Err(X)` takes once the helper is analysed in its caller's context): a local known to hold Err(X) makes
    `Try::branch` take its Break edge only, and the following from_residual return counts as Err(X)."""
    errs = set()
    seen = set()
    st = [(b, ()) for b in starts]

    def lit_kind(rv, pt):
        if rv['k'] != 'agg' or rv.get('agg') != 'adt':
            return None
        vn = rv.get('variant_name')
        if vn in ('Err', 'None'):
            names = set()
            if vn == 'Err':
                for n in fn.rvalue_terms(rv, pt):
                    if n[0] == 'agg' and n[2] == 'Err':
                        for m in n[3][0][1]:
                            names.add(m[2] if m[0] == 'agg' else '?')
            return ('res', frozenset(names) if names else frozenset(['None' if vn == 'None' else '?']))
        if vn in ('Ok', 'Some'):
            return ('ok', frozenset())
        return None

    while st:
        b, kn = st.pop()
        if (b, kn) in seen:
            continue
        seen.add((b, kn))
        known = dict(kn)
        stop = False
        for si, s in enumerate(fn.blocks[b]['stmts']):
            if s['k'] != 'assign':
                continue
            pl, rv = s['place'], s['rv']
            if pl['l'] == 0 and not pl['p']:
                if rv['k'] == 'agg':
                    for n in fn.rvalue_terms(rv, (b, si)):
                        if n[0] == 'agg' and n[2] == 'Err':
                            for m in n[3][0][1]:
                                errs.add(m[2] if m[0] == 'agg' else _err_name_of(m))
                            if not n[3][0][1]:
                                # the residual of a `?` written out (view 3) whose payload the terms cannot name (`x.ok_or(E)?`: ok_or is
                                # transparent in terms): reported like the from_residual call it stands for
                                errs.add('call:std::ops::FromResidual::from_residual')
                        elif n[0] == 'agg' and n[2] == 'Ok':
                            errs.add('Ok')
                    stop = True
                    break
                if rv['k'] == 'use':
                    src = rv['op'].get('move') or rv['op'].get('copy')
                    if src is not None and not src['p'] and src['l'] in known:
                        k = known[src['l']]
                        errs.update(k[1] if k[0] == 'res' else ['Ok'])
                        stop = True
                        break
            if pl['p']:
                continue
            lk = lit_kind(rv, (b, si))
            if lk is not None:
                known[pl['l']] = lk
            elif rv['k'] == 'use' and (rv['op'].get('move') or rv['op'].get('copy')) is not None:
                src = rv['op'].get('move') or rv['op'].get('copy')
                if src['l'] in known and not src['p']:
                    known[pl['l']] = known[src['l']]
                elif src['l'] in known and known[src['l']][0] in ('branch-res',) and src['p']:
                    known[pl['l']] = ('res', known[src['l']][1])       # the residual moved out of Break(..)
                else:
                    known.pop(pl['l'], None)
            elif rv['k'] == 'discr' and not rv['place']['p'] and rv['place']['l'] in known:
                k = known[rv['place']['l']]
                if k[0] in ('branch-res', 'branch-ok'):
                    known[pl['l']] = ('disc', k[0])
                elif k[0] in ('res', 'ok'):
                    known[pl['l']] = ('disc-lit', k[0])
                else:
                    known.pop(pl['l'], None)
            else:
                known.pop(pl['l'], None)
        if stop:
            continue
        t = fn.blocks[b]['term']
        if t['k'] == 'return':
            errs.add('fallthrough')
            continue
        if t['k'] == 'call':
            path = t['func'].get('path')
            a0 = (t['args'][0].get('move') or t['args'][0].get('copy')) if t['args'] else None
            ka = known.get(a0['l']) if a0 is not None and not a0['p'] else None
            if t['dest']['l'] == 0 and not t['dest']['p']:
                if path == 'std::ops::FromResidual::from_residual' and ka is not None and ka[0] == 'res':
                    errs.update(ka[1])
                elif path == 'std::ops::FromResidual::from_residual' and t['args']:
                    # `?` written out (view 3): the residual is an Err literal whose payload the terms name
                    names = set()
                    for n in fn.arg_terms(t, 0, b):
                        if n[0] == 'agg' and n[2] == 'Err' and n[3] and n[3][0][1] and all(m[0] == 'agg' for m in n[3][0][1]):
                            names |= {m[2] for m in n[3][0][1]}
                        else:
                            names = None
                            break
                    if names:
                        errs.update(names)
                    else:
                        errs.add('call:' + str(path))
                else:
                    errs.add('call:' + str(path))
                continue
            if not t['dest']['p']:
                if path == 'std::ops::Try::branch' and ka is not None and ka[0] in ('res', 'ok'):
                    known[t['dest']['l']] = ('branch-res' if ka[0] == 'res' else 'branch-ok', ka[1])
                else:
                    known.pop(t['dest']['l'], None)
        nxt = fn.succs(b)
        if t['k'] == 'switch':
            d = t['discr'].get('move') or t['discr'].get('copy')
            k = known.get(d['l']) if d is not None and not d['p'] else None
            if k is not None and k[0] == 'disc':
                want = '1' if k[1] == 'branch-res' else '0'        # ControlFlow::Continue = 0, Break = 1
                tm = {str(v): tg for v, tg in t['targets']}
                nxt = [tm[want]] if want in tm else [t['otherwise']]
        kn2 = tuple(sorted(known.items()))
        for s in nxt:
            st.append((s, kn2))
    return errs


def _start_rooted_containers(ctx, p):
    """names of containers whose setup root is a start origin"""
    out = set()
    for pu in P.pushes(ctx, p):
        if not pu['in_setup']:
            continue
        st = P.node_field(pu['node'], pu['cinfo']['state_field'])
        if st is not None and P.is_start_origin(st):
            for n in pu['cont']:
                if n[0] == 'field':
                    out.add(n[2])
    return out


def _is_root_of(s, conts):
    """term set is self.<cont>[0].state for a start-rooted container"""
    if not s:
        return False
    for n in s:
        if n[0] != 'field':
            return False
        for m in n[1]:
            if m[0] != 'index':
                return False
            if not all(c[0] == 'field' and c[2] in conts and all(q[0] == 'param' and q[1] == 1 for q in c[1]) for c in m[1]):
                return False
            if not all(i[0] == 'const' and i[1] == '0' for i in m[2]):
                return False
    return True


def _prov(ctx, p, r_prov):
    """every element that enters a Vec<S> in planner code is a clone of a node state, a start state, or an &S
    parameter whose actuals are start states"""
    n = 0
    param_obls = []   # (callee body, param index) to be checked at call sites
    for b in P.planner_bodies(p):
        fn = ctx.fn(b)
        for bi, t in b.calls():
            path = t['func'].get('path')
            if not user_call(b, bi):
                # vec![x] expands to box/array code: handled through aggregates below
                continue
            if path == VEC_PUSH:
                pl = t['args'][0].get('move') or t['args'][0].get('copy')
                ty = b.local_ty(pl['l']) if pl is not None else ''
                if 'std::vec::Vec<S>' not in ty:
                    continue
                x = fn.arg_terms(t, 1, bi)
                n += 1
                ok, why = _state_origin_ok(ctx, p, b, x, param_obls)
                r_prov.inst('%s: path element pushed at %s has origin %s' % (b.path, b.loc(bi), fmt_terms(strip_clone(x))[:70]),
                            ok=ok, site=b.loc(bi))
                if not ok:
                    r_prov.violations.append(Violation('C01', 'C01.prov', b.path, 'push', why, loc=b.loc(bi), ordinal=n))
        # a path collected lazily: `.. .map(|i| CONT[i].state.clone()).collect::<Vec<S>>()`
        for bi, t in b.calls():
            if t['func'].get('path') != 'std::iter::Iterator::collect' or not user_call(b, bi) or t['dest']['p']:
                continue
            if 'std::vec::Vec<S>' not in b.local_ty(t['dest']['l']):
                continue
            n += 1
            ok, why = _collected_origin_ok(ctx, p, b, fn, fn.arg_terms(t, 0, bi), param_obls)
            r_prov.inst('%s: path states collected at %s are node / start states' % (b.path, b.loc(bi)), ok=ok, site=b.loc(bi))
            if not ok:
                r_prov.violations.append(Violation('C01', 'C01.prov', b.path, 'collect', why, loc=b.loc(bi), ordinal=n))
        # every other way an element can enter a Vec<S>: extend / append / insert / resize / .. and `v[i] = x`
        for bi, t in b.calls():
            path = t['func'].get('path') or ''
            name = path.rsplit('::', 1)[-1]
            if not user_call(b, bi) or path == VEC_PUSH or name not in ELEMENT_ADDERS or not t['args']:
                continue
            pl = t['args'][0].get('move') or t['args'][0].get('copy')
            ty = b.local_ty(pl['l']) if pl is not None else ''
            if not ('std::vec::Vec<S>' in ty or 'VecDeque<S>' in ty or ty.lstrip('&mut ').strip() == '[S]'):
                continue
            n += 1
            src = fn.arg_terms(t, ELEMENT_ADDERS[name], bi) if ELEMENT_ADDERS[name] < len(t['args']) else frozenset()
            ok, why = _elements_origin_ok(ctx, p, b, fn, src, param_obls)
            r_prov.inst('%s: elements added by %s at %s have origin %s' % (b.path, name, b.loc(bi), fmt_terms(strip_clone(src))[:70]),
                        ok=ok, site=b.loc(bi))
            if not ok:
                r_prov.violations.append(Violation('C01', 'C01.prov', b.path, 'add:' + name, why, loc=b.loc(bi), ordinal=n))
        for bi, blk in enumerate(b.blocks):
            if blk['cleanup']:
                continue
            for si, st in enumerate(blk['stmts']):
                if st['k'] != 'assign' or not st['place']['p'] or b.local_ty(st['place']['l']).find('Vec<S>') < 0:
                    continue
                if not any(isinstance(e, dict) and ('idx' in e or 'cidx' in e) for e in st['place']['p']):
                    continue
                n += 1
                x = fn.rvalue_terms(st['rv'], (bi, si))
                ok, why = _state_origin_ok(ctx, p, b, x, param_obls)
                r_prov.inst('%s: path element overwritten at %s with origin %s' % (b.path, b.loc(bi, si), fmt_terms(strip_clone(x))[:70]),
                            ok=ok, site=b.loc(bi, si))
                if not ok:
                    r_prov.violations.append(Violation('C01', 'C01.prov', b.path, 'store', why, loc=b.loc(bi, si), ordinal=n))
        # array literals of S (vec![start.clone()])
        for bi, blk in enumerate(b.blocks):
            if blk['cleanup']:
                continue
            for si, st in enumerate(blk['stmts']):
                if st['k'] == 'assign' and st['rv']['k'] == 'agg' and st['rv'].get('agg') == 'array' and st['rv'].get('ty') == 'S':
                    for f in st['rv']['fields']:
                        x = fn.op_terms(f, (bi, si))
                        n += 1
                        ok, why = _state_origin_ok(ctx, p, b, x, param_obls)
                        r_prov.inst('%s: path element in literal at %s has origin %s' % (b.path, b.loc(bi, si), fmt_terms(strip_clone(x))[:70]),
                                    ok=ok, site=b.loc(bi, si))
                        if not ok:
                            r_prov.violations.append(Violation('C01', 'C01.prov', b.path, 'literal', why, loc=b.loc(bi, si), ordinal=n))
    # parameters that were accepted as sources: every actual must be a start origin
    for (callee, pidx) in param_obls:
        for b in P.planner_bodies(p):
            fn = ctx.fn(b)
            for bi, t in b.calls():
                if t['func'].get('path') == callee.path:
                    a = fn.arg_terms(t, pidx - 1, bi)
                    ok = P.is_start_origin(a)
                    r_prov.inst('%s: actual for path-state parameter `%s` of %s is %s' % (
                        b.path, callee.local_name(pidx), callee.path, fmt_terms(strip_clone(a))[:60]), ok=ok, site=b.loc(bi))
                    if not ok:
                        r_prov.violations.append(Violation('C01', 'C01.prov', b.path, 'actual',
                                                           'a state that is neither a node state nor a start state is handed to path construction',
                                                           loc=b.loc(bi)))
    if n < 1:
        r_prov.violations.append(Violation('C01', 'C01.prov', p['adt'], 'floor', 'no path element site found in planner %s' % p['name']))


# methods through which elements enter a Vec<S> / VecDeque<S> -> index of the argument that carries them
ELEMENT_ADDERS = {'extend': 1, 'extend_from_slice': 1, 'append': 1, 'insert': 2, 'resize': 2, 'resize_with': 2, 'push_front': 1,
                  'push_back': 1, 'splice': 2, 'fill': 1, 'extend_from_within': 1, 'push_within_capacity': 1}
_SEQ_ADAPTORS = ('skip', 'rev', 'take', 'cloned', 'copied', 'into_iter', 'iter', 'drain', 'skip_while', 'take_while', 'step_by',
                 'by_ref', 'peekable', 'fuse')


def _elements_origin_ok(ctx, p, b, fn, src, param_obls, depth=0):
    """src: the iterator / collection / value whose elements are added to a path vector.  Accepted: the states of another
    extracted path (`<extractor>(..).0`, possibly skipped / reversed), a Vec<S> built in this planner (its own pushes are
    checked), an Option / value whose payload is an accepted state origin"""
    if not src or depth > 4:
        return False, 'elements of unknown origin are added to the returned path'
    for n in strip_clone(src):
        if n[0] == 'call' and n[1].rsplit('::', 1)[-1] in _SEQ_ADAPTORS and n[2]:
            ok, why = _elements_origin_ok(ctx, p, b, fn, n[2][0], param_obls, depth + 1)
            if not ok:
                return ok, why
            continue
        if n[0] == 'out' and len(n) > 3 and n[3]:
            # the collection after an in-place operation (reverse, sort, truncate): same elements
            if n[1].rsplit('::', 1)[-1] in ('reverse', 'truncate', 'pop', 'remove', 'swap', 'dedup', 'retain', 'clear', 'deref_mut', 'as_mut_slice',
                                             'rotate_left', 'rotate_right', 'sort_by', 'sort_unstable_by') or n[1] == VEC_PUSH or \
                    n[1].rsplit('::', 1)[-1] in ELEMENT_ADDERS:
                ok, why = _elements_origin_ok(ctx, p, b, fn, n[3][0], param_obls, depth + 1)
                if not ok:
                    return ok, why
                continue
        if n[0] == 'field' and n[2] == '0' and n[1] and all(
                m[0] == 'call' and ctx.core.body(m[1]) is not None and (ctx.core.body(m[1]).j.get('ret_ty') or '').startswith('base::planner::Path<')
                for m in n[1]):
            continue                        # the states of a path built by a path extractor of this crate
        if n[0] == 'call' and n[1] in ('std::vec::Vec::<T>::new', 'std::vec::Vec::<T>::with_capacity'):
            continue                        # a vector built here: what is pushed into it is checked at the pushes
        if n[0] == 'call' and n[1] == 'std::iter::Iterator::collect' and n[2]:
            ok, why = _collected_origin_ok(ctx, p, b, fn, n[2][0], param_obls)     # a lazily collected vector of node states
            if not ok:
                return ok, why
            continue
        if n[0] == 'agg' and n[2] == 'None':
            continue
        if n[0] == 'agg' and n[2] == 'Some' and n[3]:
            ok, why = _state_origin_ok(ctx, p, b, n[3][0][1], param_obls)
            if not ok:
                return ok, why
            continue
        if n[0] == 'call' and n[1].rsplit('::', 1)[-1] in ('map', 'rev', 'into_iter', 'skip', 'cloned', 'copied', 'inspect', 'take'):
            # a lazy chain handed to `extend`: the elements are what its innermost `map` closure returns
            ok, why = _collected_origin_ok(ctx, p, b, ctx.fn(b), T(n), param_obls)
            if ok:
                continue
        ok, why = _state_origin_ok(ctx, p, b, T(n), param_obls)
        if not ok:
            return False, 'elements with origin %s (not the states of an extracted path, not node / start states) are added to the ' \
                          'returned path' % fmt_terms(T(n))[:100]
    return True, ''


def _collected_origin_ok(ctx, p, b, fn, src, param_obls):
    """the elements of a lazily collected path: the innermost `map` closure must return (a clone of) the state of a node of a
    planner container read through what the closure captured (self, or the node slice handed to a helper)"""
    sfs = {c['state_field'] for c in p['containers'].values()}
    for _ in range(6):
        if len(src) != 1:
            break
        q = next(iter(src))
        if q[0] == 'call' and q[1].rsplit('::', 1)[-1] in ('rev', 'into_iter', 'inspect', 'skip', 'take', 'cloned', 'copied') and q[2]:
            src = q[2][0]
            continue
        if q[0] == 'call' and q[1] == 'std::iter::Iterator::map' and len(q[2]) == 2 and len(q[2][1]) == 1 and next(iter(q[2][1]))[0] == 'closure':
            cl = next(iter(q[2][1]))
            cb = ctx.core.body(cl[1])
            if cb is None:
                break
            cf = ctx.fn(cb)
            rt = set()
            for rb in cf.return_blocks():
                rt |= cf.local_terms(0, (rb, cf.nstmts(rb)))
            caps = cl[2]

            def resolve(ts, depth=0):
                # closure-environment reads -> what was captured
                out = set()
                for n in ts:
                    if n[0] == 'field' and n[2].isdigit() and n[1] and all(z[0] == 'param' and z[1] == 1 for z in n[1]) and int(n[2]) < len(caps):
                        out |= set(caps[int(n[2])])
                    elif n[0] in ('field',) and depth < 6:
                        out.add((n[0], frozenset(resolve(n[1], depth + 1)), n[2]))
                    elif n[0] == 'index' and depth < 6:
                        out.add((n[0], frozenset(resolve(n[1], depth + 1)), n[2]))
                    elif n[0] in ('clone', 'unwrap') and depth < 6:
                        out.add((n[0], frozenset(resolve(n[1], depth + 1))))
                    else:
                        out.add(n)
                return out
            x = frozenset(resolve(rt))
            return _state_origin_ok(ctx, p, b, x, param_obls)
        break
    return False, 'the collected path states are not produced by a map over node indices that reads the nodes\' states (unrecognised shape)'


def _state_origin_ok(ctx, p, b, x, param_obls):
    s = strip_clone(x)
    if not s:
        return False, 'empty origin'
    for nd in s:
        one = T(nd)
        if P.is_start_origin(one):
            continue
        cs = P.container_state(one)
        if cs is not None and nd[0] == 'field' and nd[2] in {c['state_field'] for c in p['containers'].values()}:
            # container must be a node container: self.<cont> or a parameter of node-vec type
            okc = True
            for (cont, _idx) in cs:
                for c in cont:
                    if c[0] == 'field' and c[2] in p['containers']:
                        continue
                    if c[0] == 'param' and P.node_vec_ty(p, b.local_ty(c[1])):
                        continue
                    okc = False
            if okc:
                continue
        if nd[0] == 'param' and b.local_ty(nd[1]) in ('&S', "&'_ S"):
            param_obls.append((b, nd[1]))
            continue
        return False, 'a state with origin %s (not a tree/roadmap node state, not a start state) enters the returned path' % fmt_terms(one)[:100]
    return True, ''
