"""C07 — seeded planning is reproducible (non-interference, decided statically for every call history).

Rules: C07.source (who may call nondeterminism sources), C07.flow (every rng consumer draws from the
planner's generator / forwards its caller's generator), C07.restore (take/restore pairing of the seeded
generator on every normal exit), C07.clock (clock values reach only the deadline comparison),
C07.seed (PlannerConfig.seed -> seed_from_u64 -> rng field, unmodified).
"""
import re

from ..core import (RuleResult, Violation, SAMPLE_UNIFORM, SAMPLE_GOAL, user_call)
from ..engine import walk, fmt_terms, strip_clone, T as T
from ..retval import Leaves

META = {
    'explanation': 'C07: static non-interference from the nondeterminism sources present in the crate (OS/thread '
                   'randomness, wall clock, hash iteration order, pointer addresses) to planner decisions when a seed '
                   'is configured: who-may-call rule over every function reachable from the planner API, '
                   'generator-identity flow at every rng consumer, take/restore pairing of the seeded generator on '
                   'every exit path, clock taint confined to the deadline test, and seed provenance in constructors. '
                   'Does not compare two executions.',
    'assumptions': ['StdRng::seed_from_u64 and the rand adaptors are deterministic functions of generator state',
                    'user callbacks are deterministic', 'Instant is only a clock (no other side channel)'],
}

DENY_EXACT = {
    'rand::rng', 'rand::thread_rng', 'rand::random', 'rand::random_range', 'rand::random_bool',
    'rand::random_ratio', 'rand::random_iter', 'rand::fill',
    'rand::SeedableRng::from_os_rng', 'rand::SeedableRng::try_from_os_rng', 'rand::SeedableRng::from_entropy',
    'std::time::SystemTime::now', 'std::thread::spawn', 'std::thread::current', 'std::process::id',
    'std::hash::RandomState::new', 'std::collections::hash_map::RandomState::new',
    'std::env::var', 'std::env::vars', 'std::env::args',
}
FALLBACK_OK = {'rand::SeedableRng::from_os_rng', 'rand::SeedableRng::try_from_os_rng',
               'rand::SeedableRng::from_entropy'}
HASH_ITER = re.compile(r'^std::collections::(HashMap|HashSet|hash_map::HashMap|hash_set::HashSet)::<.*>::'
                       r'(iter|iter_mut|keys|values|values_mut|drain|retain|into_keys|into_values|extract_if)$')
RNG_SELF_TRAITS = ('rand::Rng', 'rand::RngCore', 'rand::RngExt', 'rand::TryRngCore', 'rand::seq::SliceRandom',
                   'rand::seq::IndexedRandom', 'rand::seq::IteratorRandom', 'rand::distr::Distribution')


def is_source(f):
    p = f.get('path', '')
    if p in DENY_EXACT:
        return True
    if f.get('krate') in ('getrandom',):
        return True
    if 'ThreadRng' in p or 'OsRng' in p:
        return True
    if HASH_ITER.match(p):
        return True
    if p == 'std::iter::IntoIterator::into_iter':
        st = f.get('self_ty', '')
        if 'HashMap<' in st or 'HashSet<' in st:
            return True
    return False


def is_planner_rng(ts, field='rng'):
    """term set denotes (the contents of) the planner's own generator field"""
    if not ts:
        return False
    for n in ts:
        k = n[0]
        if k == 'field' and n[2] == field and all(m[0] == 'param' and m[1] == 1 for m in n[1]):
            continue
        if k in ('unwrap', 'clone') and is_planner_rng(n[1], field):
            continue
        if k == 'call' and n[1].startswith('std::option::Option::<T>::') and n[2] and is_planner_rng(n[2][0], field):
            continue
        return False
    return True


def _gen_or_fallback(ts, rf, fn, fb_blocks):
    """`match self.rng.take() { Some(g) => g, None => Box::new(StdRng::from_os_rng()) }`: every alternative is the planner's own
    generator or an OS generator created in a block that only runs when the field was None"""
    if not ts or not any(is_planner_rng(T(n), rf) for n in ts):
        return False
    for n in ts:
        if is_planner_rng(T(n), rf):
            continue
        if n[0] == 'call' and n[1] in ({'rand::rng', 'rand::thread_rng'} | FALLBACK_OK) and n[3][0] == fn.path and n[3][1] in fb_blocks:
            continue
        return False
    return True


def param_derived(ts):
    if not ts:
        return False
    for n in ts:
        k = n[0]
        if k == 'param':
            continue
        if k in ('field', 'unwrap', 'clone') and param_derived(n[1]):
            continue
        if k == 'agg' and all(param_derived(t) for _f, t in n[3]):
            continue
        return False
    return True


def rng_arg_index(f):
    """index of the generator argument if the callee consumes randomness, else None"""
    p = f.get('path', '')
    if p in (SAMPLE_UNIFORM, SAMPLE_GOAL):
        return 1
    if p.endswith('::sample_uniform_dyn') or p.endswith('::sample_uniform') or p.endswith('::sample_goal'):
        return 1
    tr = f.get('trait') or f.get('impl_trait')
    if tr in RNG_SELF_TRAITS:
        if tr == 'rand::distr::Distribution':
            return 1
        return 0
    return None


def rng_field_of(planner):
    for f in planner['fields']:
        if 'Rng' in f['ty'] and f['ty'].startswith('std::option::Option<'):
            return f['name']
    return None


def _consts_in(node):
    """every constant operand inside a statement / terminator"""
    out = []
    if isinstance(node, dict):
        if 'const' in node and isinstance(node['const'], dict):
            out.append(node['const'])
        for v in node.values():
            out += _consts_in(v)
    elif isinstance(node, list):
        for v in node:
            out += _consts_in(v)
    return out


def run(ctx, tier):
    r_src = RuleResult('C07.source', 'nondeterminism sources are called only in the unseeded fallback of the rng field')
    r_flow = RuleResult('C07.flow', 'every rng consumer draws from the planner generator (entry points) or forwards its caller\'s (elsewhere)')
    r_rest = RuleResult('C07.restore', 'a generator taken out of the rng field is stored back on every normal exit')
    r_clock = RuleResult('C07.clock', 'clock values flow only into the deadline comparison')
    r_seed = RuleResult('C07.seed', 'PlannerConfig.seed reaches seed_from_u64 unmodified and lands in the rng field')
    planners = ctx.planners()
    if len(planners) < 4:
        r_src.violations.append(Violation('C07', 'C07.source', 'oxmpl', 'floor',
                                          'only %d planners discovered (floor 4)' % len(planners)))
    entries = [b for p in planners for b in p['entry']]
    entry_paths = {b.path for b in entries}
    reach = ctx.reach_set(entries)
    # constructors are not entry points for the flow rules but belong to the planner API
    all_planner_bodies = [b for p in planners for b in p['methods'] + p['closures']]
    scope = {b.path: b for b in reach + all_planner_bodies}
    # StateSpace impls are reachable through the abstract SP calls
    r_src.notes.append('%d functions reachable from %d planner entry points' % (len(scope), len(entries)))

    planner_of = {}
    for p in planners:
        for b in p['methods'] + p['closures']:
            planner_of[b.path] = p

    # ---------------------------------------------------------------- C07.source
    # closures that are the unseeded fallback: 2nd argument of Option::unwrap_or_else / get_or_insert_with
    # whose receiver is the planner's rng field
    fallback_closures = set()
    for b in scope.values():
        p = planner_of.get(b.path)
        if p is None:
            continue
        rf = rng_field_of(p)
        fn = ctx.fn(b)
        for bi, t in b.calls():
            path = t['func'].get('path', '')
            if path in ('std::option::Option::<T>::unwrap_or_else', 'std::option::Option::<T>::get_or_insert_with'):
                recv = fn.arg_terms(t, 0, bi)
                clo = fn.arg_terms(t, 1, bi)
                if rf and is_planner_rng(recv, rf):
                    for n in clo:
                        if n[0] == 'closure':
                            fallback_closures.add(n[1])
    def fallback_blocks(b):
        """blocks of a planner method that run only when the rng field is None (unseeded fallback)"""
        p = planner_of.get(b.path)
        if p is None or rng_field_of(p) is None:
            return set()
        rf = rng_field_of(p)
        fn = ctx.fn(b)
        de = fn.discr_edges(lambda ts: is_planner_rng(ts, rf))
        none_edges = de.get('0', set())
        if not none_edges:
            return set()
        reach = fn.reachable(0)
        cut = fn.reachable(0, removed=frozenset(none_edges))
        return reach - cut

    n_src = 0
    for b in scope.values():
        fn = ctx.fn(b)
        ordn = {}
        fb = None
        for bi, t in b.calls():
            f = t['func']
            if not is_source(f):
                continue
            n_src += 1
            path = f['path']
            k = ordn.get(path, 0)
            ordn[path] = k + 1
            if fb is None:
                fb = fallback_blocks(b)
            ok = (b.path in fallback_closures and path in FALLBACK_OK) or \
                 (bi in fb and (path in FALLBACK_OK or path in ('rand::rng', 'rand::thread_rng')))
            r_src.inst('%s calls %s at %s%s' % (b.path, path, b.loc(bi), ' (unseeded fallback)' if ok else ''),
                       ok=ok, site=b.loc(bi))
            if not ok:
                r_src.violations.append(Violation(
                    'C07', 'C07.source', b.path, path,
                    'nondeterminism source %s called on a planning path outside the unseeded fallback of the '
                    'rng field' % path, loc=b.loc(bi), ordinal=k))
        # pointer-to-integer casts (address-dependent decisions)
        for bi, blk in enumerate(b.blocks):
            if blk['cleanup']:
                continue
            for si, st in enumerate(blk['stmts']):
                if st['k'] == 'assign' and st['rv']['k'] == 'cast' and 'PointerExposeProvenance' in st['rv']['cast'] \
                        and not st['span'].get('mac'):
                    r_src.violations.append(Violation(
                        'C07', 'C07.source', b.path, 'ptr-to-int',
                        'pointer address converted to an integer on a planning path', loc=b.loc(bi, si)))
    # process-global mutable state (a `static` with interior mutability, `static mut`, a thread-local): what one planner
    # instance does then depends on what any other instance did before in the same process, not on the seed
    import re as _re
    n_glob = 0
    for b in scope.values():
        ordg = {}
        for bi, blk in enumerate(b.blocks):
            if blk['cleanup']:
                continue
            items = [(si, st) for si, st in enumerate(blk['stmts'])] + [(None, blk['term'])]
            for si, node in items:
                if isinstance(node, dict) and node.get('span', {}).get('mac') if isinstance(node.get('span'), dict) else False:
                    continue
                for c in _consts_in(node):
                    dbg = c.get('dbg') or ''
                    m = _re.match(r'^\{alloc\d+(?:<imm>)?: (&|\*mut |\*const )(.*)\}$', dbg)
                    if not m:
                        continue
                    ty = m.group(2)
                    mutable = m.group(1) == '*mut ' or any(w in ty for w in (
                        'atomic::Atomic', 'sync::Mutex', 'sync::RwLock', 'OnceLock', 'OnceCell', 'LazyLock', 'LazyCell', 'cell::Cell',
                        'cell::RefCell', 'UnsafeCell', 'sync::Once', 'sync::poison::mutex::Mutex', 'sync::poison::rwlock::RwLock'))
                    if not mutable:
                        continue
                    n_glob += 1
                    k = ordg.get(ty, 0)
                    ordg[ty] = k + 1
                    r_src.inst('%s reads a process-global `%s` at %s' % (b.path, ty, b.loc(bi, si)), ok=False, site=b.loc(bi, si))
                    r_src.violations.append(Violation(
                        'C07', 'C07.source', b.path, 'global:' + ty,
                        'process-global mutable state (`static` of type %s) is used on a planning path: what this planner instance does '
                        'depends on what other instances did earlier in the process, not only on its seed' % ty, loc=b.loc(bi, si), ordinal=k))
        for bi, t in b.calls():
            pth = t['func'].get('path', '')
            if pth.startswith('std::thread::LocalKey') or pth.startswith('std::thread::local::LocalKey'):
                n_glob += 1
                r_src.violations.append(Violation('C07', 'C07.source', b.path, 'thread-local',
                                                  'thread-local state is used on a planning path (%s)' % pth, loc=b.loc(bi)))
    r_src.inst('process-global mutable state scan of %d functions: %d uses' % (len(scope), n_glob), ok=True, nontrivial=False)
    if not fallback_closures:
        r_src.notes.append('no unseeded-fallback closure found')
    r_src.inst('who-may-call scan of %d functions, %d source call sites' % (len(scope), n_src), ok=True,
               nontrivial=False)

    # ---------------------------------------------------------------- C07.flow
    n_cons = {}
    for b in scope.values():
        fn = ctx.fn(b)
        p = planner_of.get(b.path)
        ordn = {}
        for bi, t in b.calls():
            f = t['func']
            k = rng_arg_index(f)
            if k is None or k >= len(t['args']):
                continue
            if not user_call(b, bi):
                continue
            path = f['path']
            o = ordn.get(path, 0)
            ordn[path] = o + 1
            terms = fn.arg_terms(t, k, bi)
            # identity mode for the generator regardless of how it is passed
            a = t['args'][k]
            pl = a.get('move') or a.get('copy')
            if pl is not None:
                terms = fn.place_terms(pl, (bi, fn.nstmts(bi)), mut_kills=False)
            if p is not None:
                n_cons[p['name']] = n_cons.get(p['name'], 0) + 1
                rf = rng_field_of(p)
                # inside planner code: the planner generator, or a parameter being forwarded by a helper,
                # or (only in the unseeded fallback region) a fresh OS/thread generator
                ok = (rf is not None and is_planner_rng(terms, rf)) or \
                     (b.path not in entry_paths and param_derived(terms) and b.kind != 'Closure') or \
                     (bi in fallback_blocks(b) and all(
                         n[0] == 'call' and n[1] in ({'rand::rng', 'rand::thread_rng'} | FALLBACK_OK) for n in terms)) or \
                     (rf is not None and _gen_or_fallback(terms, rf, fn, fallback_blocks(b)))
                what = 'planner generator'
            else:
                ok = param_derived(terms)
                what = "caller's generator"
            r_flow.inst('%s: %s draws from %s at %s' % (b.path, path, fmt_terms(terms)[:120], b.loc(bi)), ok=ok,
                        site=b.loc(bi))
            if not ok:
                r_flow.violations.append(Violation(
                    'C07', 'C07.flow', b.path, path,
                    'rng consumer %s draws from %s, not from the %s' % (path, fmt_terms(terms)[:160], what),
                    loc=b.loc(bi), ordinal=o))
    for p in planners:
        floor = 1
        if n_cons.get(p['name'], 0) < floor:
            r_flow.violations.append(Violation('C07', 'C07.flow', p['adt'], 'floor',
                                               'no rng consumer found in planner %s (floor %d)' % (p['name'], floor)))
    # RngCore forwarders (type-erasure wrappers): each method forwards to the same-named method of a
    # param-derived generator and returns its result unmodified
    for b in ctx.lib_bodies():
        if b.impl_trait != 'rand::RngCore' or b.kind != 'AssocFn':
            continue
        fn = ctx.fn(b)
        lv = Leaves(ctx, b.crate)
        calls = [(bi, t) for bi, t in b.calls() if t['func'].get('path') == 'rand::RngCore::' + b.name]
        ok = len(calls) == 1
        why = 'must forward to RngCore::%s exactly once' % b.name
        if ok:
            bi, t = calls[0]
            ok = param_derived(fn.place_terms((t['args'][0].get('move') or t['args'][0].get('copy')),
                                              (bi, fn.nstmts(bi)), mut_kills=False))
            why = 'forwarded generator is not derived from self'
            if ok and len(t['args']) > 1:
                ok = all(param_derived(fn.arg_terms(t, j, bi)) for j in range(1, len(t['args'])))
                why = 'extra arguments are not the caller\'s'
            if ok and b.j.get('ret_ty') not in ('()',):
                rt = lv.ret_terms(fn)
                ok = all(n[0] == 'call' and n[1] == 'rand::RngCore::' + b.name for n in rt) and bool(rt)
                why = 'result of the wrapped generator is modified before being returned'
        r_flow.inst('%s forwards faithfully' % b.path, ok=ok, site=b.loc(0))
        if not ok:
            r_flow.violations.append(Violation('C07', 'C07.flow', b.path, 'forwarder',
                                               'RngCore wrapper method: ' + why, loc=b.loc(0)))

    # ---------------------------------------------------------------- C07.restore
    n_take = 0
    for p in planners:
        rf = rng_field_of(p)
        if rf is None:
            r_rest.violations.append(Violation('C07', 'C07.restore', p['adt'], 'no-rng-field',
                                               'planner has no Option<..Rng..> field (unrecognised shape)'))
            continue
        for b in p['methods']:
            fn = ctx.fn(b)
            takes = []
            for bi, t in b.calls():
                path = t['func'].get('path', '')
                if path in ('std::option::Option::<T>::take', 'std::mem::take', 'std::mem::replace',
                            'std::option::Option::<T>::replace'):
                    recv = fn.place_terms((t['args'][0].get('move') or t['args'][0].get('copy')),
                                          (bi, fn.nstmts(bi)), mut_kills=False)
                    if is_planner_rng(recv, rf):
                        takes.append((bi, t))
            # direct moves out of the field:  _x = move (*self).rng
            for bi, blk in enumerate(b.blocks):
                if blk['cleanup']:
                    continue
                for si, st in enumerate(blk['stmts']):
                    if st['k'] == 'assign' and st['rv']['k'] == 'use' and 'move' in st['rv']['op']:
                        pl = st['rv']['op']['move']
                        if pl['l'] == 1 and [e for e in pl['p'] if e != 'deref'] and \
                                [e.get('name') for e in pl['p'] if e != 'deref'][:1] == [rf]:
                            takes.append((bi, None))
            if not takes:
                continue
            # stores of Some(..) into self.<rf>
            stores = []
            for bi, blk in enumerate(b.blocks):
                if blk['cleanup']:
                    continue
                for si, st in enumerate(blk['stmts']):
                    if st['k'] != 'assign':
                        continue
                    pl = st['place']
                    names = [e.get('name') for e in pl['p'] if e != 'deref' and isinstance(e, dict)]
                    if pl['l'] == 1 and names == [rf]:
                        stores.append((bi, si, st))
                t = blk['term']
                if t['k'] == 'call' and t['func'].get('path') in ('std::option::Option::<T>::insert',
                                                                  'std::option::Option::<T>::replace',
                                                                  'std::option::Option::<T>::get_or_insert'):
                    recv = fn.place_terms((t['args'][0].get('move') or t['args'][0].get('copy')),
                                          (bi, fn.nstmts(bi)), mut_kills=False)
                    if is_planner_rng(recv, rf) and (bi, t) not in takes:
                        stores.append((bi, fn.nstmts(bi), None))
            for ti, (tb, tt) in enumerate(takes):
                n_take += 1
                # every return reachable from the take must pass through a restoring store located after it:
                # self.<rf> = Some(<the generator whose identity is the taken one>)
                good_store_blocks = set()
                for (sb, si, st) in stores:
                    if st is None:
                        good_store_blocks.add(sb)
                        continue
                    val = fn.rvalue_terms(st['rv'], (sb, si), mut_kills=False)
                    if val and all(n[0] == 'agg' and n[2] == 'Some' and (is_planner_rng(n[3][0][1], rf) or
                                                                       _gen_or_fallback(n[3][0][1], rf, fn, fallback_blocks(b))) for n in val):
                        good_store_blocks.add(sb)
                after = fn.reachable(tb)
                bad_exits = []
                for rb in fn.return_blocks():
                    if rb not in after:
                        continue
                    # is there a path take -> return avoiding all restoring blocks?
                    if rb in fn.reachable(tb, stop=frozenset(good_store_blocks)) and rb not in good_store_blocks:
                        # find which exits: report offending predecessor chains by the Err/Ok aggregates
                        bad_exits.append(rb)
                ok = not bad_exits
                r_rest.inst('%s: generator taken at %s is restored on every exit (%d restoring stores)' % (
                    b.path, b.loc(tb), len(good_store_blocks)), ok=ok, site=b.loc(tb))
                if not ok:
                    r_rest.violations.append(Violation(
                        'C07', 'C07.restore', b.path, 'take-without-restore',
                        'the seeded generator is taken out of self.%s and a normal return is reachable without '
                        'storing it back: later calls run on OS entropy' % rf, loc=b.loc(tb), ordinal=ti))
    if n_take == 0:
        r_rest.notes.append('no take of the rng field found (generator is borrowed in place)')
        r_rest.inst('no planner method moves the generator out of its field', ok=True, nontrivial=False)

    # ---------------------------------------------------------------- C07.clock
    CLOCK_SRC = {'std::time::Instant::now', 'std::time::Instant::elapsed', 'std::time::SystemTime::now',
                 'web_time::Instant::now', 'web_time::Instant::elapsed'}
    CLOCK_OK_CALLS = {'std::time::Instant::elapsed', 'std::time::Instant::duration_since',
                      'std::time::Instant::saturating_duration_since', 'std::time::Instant::checked_duration_since',
                      'std::time::Duration::as_secs_f64', 'std::time::Duration::as_secs_f32',
                      'std::time::Duration::as_secs', 'std::time::Duration::as_millis',
                      'std::time::Duration::as_micros', 'std::time::Duration::as_nanos',
                      'std::time::Duration::subsec_nanos', 'std::clone::Clone::clone',
                      # an absolute deadline: <Instant> + timeout is still only a clock value
                      'std::ops::Add::add', 'std::ops::Sub::sub', 'std::time::Instant::checked_add', 'std::time::Instant::checked_sub',
                      'std::option::Option::<T>::unwrap', 'std::option::Option::<T>::expect', 'std::option::Option::<T>::unwrap_or'}
    CLOCK_CMP_CALLS = {'std::cmp::PartialOrd::gt', 'std::cmp::PartialOrd::ge', 'std::cmp::PartialOrd::lt',
                       'std::cmp::PartialOrd::le'}
    n_clock = 0
    for b in scope.values():
        srcs = [(bi, t) for bi, t in b.calls() if t['func'].get('path') in CLOCK_SRC]
        if not srcs:
            continue
        fn = ctx.fn(b)
        tainted = {}   # local -> 'clock' | 'cmp'
        for bi, t in srcs:
            if not t['dest']['p']:
                tainted[t['dest']['l']] = 'clock'
        changed = True
        viol = []

        def op_local(o):
            pl = o.get('move') or o.get('copy')
            return pl['l'] if pl is not None else None

        rounds = 0
        while changed and rounds < 20:
            changed = False
            rounds += 1
            for bi, blk in enumerate(b.blocks):
                if blk['cleanup']:
                    continue
                for si, st in enumerate(blk['stmts']):
                    if st['k'] != 'assign':
                        continue
                    rv = st['rv']
                    used = []
                    if rv['k'] in ('use', 'cast'):
                        used = [op_local(rv['op'])]
                    elif rv['k'] == 'unop':
                        used = [op_local(rv['a'])]
                    elif rv['k'] in ('ref', 'rawptr', 'discr'):
                        used = [rv['place']['l']]
                    elif rv['k'] == 'binop':
                        used = [op_local(rv['a']), op_local(rv['b'])]
                    elif rv['k'] == 'agg':
                        used = [op_local(f) for f in rv['fields']]
                    kinds = [tainted[u] for u in used if u in tainted]
                    if not kinds:
                        continue
                    is_fmt = bool([m for m in st['span'].get('mac', []) if m != '?'])
                    dest = st['place']
                    if dest['p'] and not is_fmt:
                        viol.append((bi, si, 'clock-derived value stored into %s' % _pl(b, dest)))
                        continue
                    newk = None
                    if rv['k'] in ('use', 'ref', 'rawptr'):
                        newk = kinds[0]
                    elif rv['k'] == 'cast':
                        newk = kinds[0]
                    elif rv['k'] == 'unop' and rv['op'] == 'Not' and kinds[0] == 'cmp':
                        newk = 'cmp'
                    elif rv['k'] == 'binop' and rv['op'] in ('Gt', 'Ge', 'Lt', 'Le') and 'clock' in kinds:
                        newk = 'cmp'
                    elif is_fmt:
                        newk = 'fmt'
                    elif rv['k'] == 'agg' and rv.get('agg') == 'closure' and 'cmp' not in kinds:
                        newk = 'clock'      # a closure that captures the start instant (`let expired = move || start.elapsed() > timeout`)
                    elif rv['k'] == 'agg' and rv.get('agg') == 'adt' and 'cmp' not in kinds and \
                            (b.crate.adts.get(rv.get('adt')) or {}).get('pub') is False:
                        # a private helper struct of this crate that carries the start instant (`Deadline { started_at, budget }`):
                        # the whole value counts as a clock value, so it may only be read by clock operations and comparisons
                        newk = 'clock'
                    else:
                        viol.append((bi, si, 'clock-derived value used in %s' % (rv.get('op') or rv['k'])))
                        continue
                    if tainted.get(dest['l']) != newk and not dest['p']:
                        tainted[dest['l']] = newk
                        changed = True
                t = blk['term']
                if t['k'] == 'call':
                    used = [(j, op_local(a)) for j, a in enumerate(t['args'])]
                    hit = [(j, u) for j, u in used if u in tainted]
                    if hit:
                        path = t['func'].get('path', 'indirect')
                        is_fmt = not user_call(b, bi)
                        kinds = [tainted[u] for _j, u in hit]
                        newk = None
                        if path in CLOCK_OK_CALLS and 'cmp' not in kinds:
                            newk = 'clock'
                        elif path in CLOCK_CMP_CALLS and 'cmp' not in kinds:
                            newk = 'cmp'
                        elif is_fmt or 'fmt' in kinds:
                            newk = 'fmt'
                        else:
                            v = (bi, fn.nstmts(bi), 'clock-derived value passed to %s' % path)
                            if v not in viol:
                                viol.append(v)
                        if newk and not t['dest']['p'] and tainted.get(t['dest']['l']) != newk:
                            tainted[t['dest']['l']] = newk
                            changed = True
                elif t['k'] == 'switch':
                    u = op_local(t['discr'])
                    if u in tainted and tainted[u] == 'clock':
                        v = (bi, fn.nstmts(bi), 'switch on a raw clock value')
                        if v not in viol:
                            viol.append(v)
                    elif u in tainted and tainted[u] == 'cmp':
                        # time may only decide how many iterations complete: one edge of a deadline test must leave the
                        # outermost loop around it for good (break of the planning loop / return); a deadline test that
                        # merely cuts an inner loop short changes which decisions are taken
                        around = [L for L in fn.loops() if bi in L['body']]
                        if around:
                            Lout = max(around, key=lambda l: len(l['body']))
                            leaves = [s for s in fn.succs(bi) if Lout['header'] not in fn.reachable(s)]
                            if not leaves:
                                v = (bi, fn.nstmts(bi), 'deadline test inside the planning loop does not leave it: wall-clock time decides the '
                                     'rest of the iteration (an inner loop is cut short, a step skipped) instead of only how many iterations complete')
                                if v not in viol:
                                    viol.append(v)
        # returning a clock value
        if 0 in tainted:
            viol.append((0, 0, 'clock-derived value returned'))
        n_clock += len(srcs)
        seen = set()
        uniq = []
        for v in viol:
            if v not in seen:
                seen.add(v)
                uniq.append(v)
        r_clock.inst('%s: %d clock reads, taint reaches only comparisons' % (b.path, len(srcs)), ok=not uniq,
                     site=b.loc(srcs[0][0]))
        for o, (bi, si, msg) in enumerate(uniq):
            r_clock.violations.append(Violation('C07', 'C07.clock', b.path, msg.split(' ')[0] + ':' + msg.split(' ')[-1],
                                                msg, loc=b.loc(bi, si), ordinal=o))
    if n_clock == 0:
        r_clock.notes.append('no clock reads on planning paths')
        r_clock.inst('no clock reads found', ok=True, nontrivial=False)

    # ---------------------------------------------------------------- C07.seed
    for p in planners:
        rf = rng_field_of(p)
        ctors = [b for b in p['methods'] if b.impl_trait is None and b.j.get('ret_ty', '').startswith(p['adt'])]
        seeded = 0
        for b in p['methods'] + p['closures']:
            fn = ctx.fn(b)
            for bi, t in b.calls():
                if t['func'].get('path') != 'rand::SeedableRng::seed_from_u64':
                    continue
                seeded += 1
                arg = fn.arg_terms(t, 0, bi)
                ok = False
                how = fmt_terms(arg)
                if b.kind == 'Closure':
                    # closure |s| ... seed_from_u64(s): argument must be the closure parameter, and the closure
                    # must be mapped over config.seed in the constructor
                    if all(n[0] == 'param' and n[1] == 2 for n in arg):
                        for c in ctors:
                            cfn = ctx.fn(c)
                            for cbi, ct in c.calls():
                                if ct['func'].get('path') in ('std::option::Option::<T>::map',
                                                              'std::option::Option::<T>::and_then'):
                                    recv = cfn.arg_terms(ct, 0, cbi)
                                    clo = cfn.arg_terms(ct, 1, cbi)
                                    if any(n[0] == 'closure' and n[1] == b.path for n in clo) and _is_seed(recv):
                                        # and the mapped value lands in the rng field of the returned aggregate
                                        if _ctor_rng_from(cfn, rf, cbi):
                                            ok = True
                else:
                    ok = _is_seed_payload(arg) and b in ctors and _ctor_rng_has_seedcall(ctx.fn(b), rf, bi)
                r_seed.inst('%s: seed_from_u64(%s)' % (b.path, how[:80]), ok=ok, site=b.loc(bi))
                if not ok:
                    r_seed.violations.append(Violation(
                        'C07', 'C07.seed', b.path, 'seed_from_u64',
                        'the generator is not seeded with PlannerConfig.seed unmodified, or the seeded generator '
                        'does not reach the planner\'s rng field (argument: %s)' % how[:120], loc=b.loc(bi)))
        if seeded == 0:
            r_seed.violations.append(Violation('C07', 'C07.seed', p['adt'], 'no-seeding',
                                               'planner %s never calls seed_from_u64 (floor 1)' % p['name']))
    return [r_src, r_flow, r_rest, r_clock, r_seed]


def _pl(b, pl):
    from ..facts import fmt_place
    return fmt_place(b, pl)


def _is_seed(ts):
    return bool(ts) and all(n[0] == 'field' and n[2] == 'seed' and all(m[0] == 'param' for m in n[1]) for n in ts)


def _is_seed_payload(ts):
    return bool(ts) and all(n[0] == 'unwrap' and _is_seed(n[1]) for n in ts)


def _ctor_rng_from(cfn, rf, map_block):
    """the constructor returns an aggregate whose `rf` field is the result of the call in map_block"""
    for rb in cfn.return_blocks():
        for n in cfn.local_terms(0, (rb, cfn.nstmts(rb))):
            if n[0] != 'agg':
                return False
            hit = [t for (f, t) in n[3] if f == rf]
            if not hit:
                return False
            for m in hit[0]:
                if not (m[0] == 'call' and m[3][1] == map_block):
                    return False
    return True


def _ctor_rng_has_seedcall(cfn, rf, block):
    for rb in cfn.return_blocks():
        for n in cfn.local_terms(0, (rb, cfn.nstmts(rb))):
            if n[0] != 'agg':
                return False
            hit = [t for (f, t) in n[3] if f == rf]
            if not hit:
                return False
            from ..engine import walk
            if not any(m[0] == 'call' and m[1] == 'rand::SeedableRng::seed_from_u64' for m in walk(hit[0])):
                return False
    return True
