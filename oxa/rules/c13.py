"""C13 — compound spaces compose their components by the documented law (delegation fidelity and dependence).

C13.match    StateSpace::m of CompoundStateSpace calls AnyStateSpace::m_dyn; the blanket m_dyn calls StateSpace::m on
             the same self with the down-cast arguments in order; SE2/SE3 m call m_dyn / m on self.0 with state.0
C13.index    inside each compound method subspaces[i], components[i] (of every state argument) and weights[i] use the
             same induction variable of a loop over all subspaces; no early exit other than `false` / `?`
C13.depends  distance and resolution are sqrt(sum((x_i * w_i)^2)) over the component results; interpolate forwards
             the same t; sample_uniform forwards the same generator and collects the components in order
C13.se       SE2/SE3 build the compound as [RealVector(n), SO2|SO3] with weights [1.0, weight], matching the component
             order of SE2State::new / SE3State::new
"""
from ..core import RuleResult, Violation, user_call
from ..engine import walk, fmt_terms, strip_clone, T
from .. import planner as P

META = {
    'explanation': 'C13: each compound operation uses every component, the matching operation, the same index for '
                   'subspace, component state and weight, and its result depends on the ingredients the law names '
                   '(weighted L2 shape recognised with two accepted spellings); SE2/SE3 are the compound of '
                   '(translation, rotation) with weights (1, w) in the order their state constructors use.',
    'assumptions': ['f64::powi(x, 2) / x*x / sqrt compute what they say', 'Box<dyn State> deref yields the component state'],
}

SS = 'base::space::StateSpace'
ANY = 'base::spaces::any_state_space::AnyStateSpace'
METHODS = ['distance', 'interpolate', 'enforce_bounds', 'satisfies_bounds', 'sample_uniform', 'get_longest_valid_segment_length']
COMPOUND = 'base::spaces::compound_state_space::CompoundStateSpace'


def _impl_bodies(ctx, trait, adt=None, blanket=False):
    out = {}
    for b in ctx.lib_bodies():
        if b.kind != 'AssocFn' or b.impl_trait != trait:
            continue
        if blanket:
            if b.j.get('impl_self') in ('T',):
                out[b.name] = b
        elif b.j.get('impl_adt') == adt:
            out[b.name] = b
    return out


def _calls_to(b, trait):
    return [(bi, t) for bi, t in b.calls() if t['func'].get('trait') == trait or
            (t['func'].get('path', '').startswith(trait + '::'))]


def run(ctx, tier):
    r_match = RuleResult('C13.match', 'every forwarding method calls the matching operation of the layer below with its arguments in order')
    r_index = RuleResult('C13.index', 'compound loops cover all subspaces and index subspace, components and weight with the same variable')
    r_dep = RuleResult('C13.depends', 'distance/resolution = sqrt(sum((x_i w_i)^2)); interpolate forwards t; sampling collects components in order')
    r_se = RuleResult('C13.se', 'SE2/SE3 = compound [translation, rotation] with weights [1, w], same order as the state constructors')

    comp = _impl_bodies(ctx, SS, COMPOUND)
    blanket = _impl_bodies(ctx, ANY, blanket=True)
    newtypes = {}
    for adt, a in ctx.core.adts.items():
        fs = a['variants'][0]['fields'] if a['variants'] else []
        if len(fs) == 1 and fs[0]['ty'] == COMPOUND and any(i.get('trait') == SS and i.get('self_adt') == adt for i in ctx.core.impls):
            newtypes[adt] = _impl_bodies(ctx, SS, adt)
    n_fw = 0
    # ---------------------------------------------------------------- match
    for m in METHODS:
        # compound -> m_dyn
        b = comp.get(m)
        if b is None:
            r_match.violations.append(Violation('C13', 'C13.match', COMPOUND, m, 'CompoundStateSpace has no %s' % m))
        else:
            n_fw += 1
            dyn = _calls_to(b, ANY)
            names = sorted({t['func'].get('name') for _bi, t in dyn})
            ok = names == [m + '_dyn']
            r_match.inst('%s forwards to %s' % (b.path, names), ok=ok, site=b.loc(0))
            if not ok:
                r_match.violations.append(Violation('C13', 'C13.match', b.path, m, 'compound %s forwards to %s instead of %s_dyn' % (m, names, m), loc=b.loc(0)))
        # blanket m_dyn -> m
        b = blanket.get(m + '_dyn')
        if b is None:
            r_match.violations.append(Violation('C13', 'C13.match', ANY, m + '_dyn', 'no blanket %s_dyn' % m))
        else:
            n_fw += 1
            fn = ctx.fn(b)
            ss = _calls_to(b, SS)
            names = sorted({t['func'].get('name') for _bi, t in ss})
            ok = names == [m]
            why = 'blanket %s_dyn forwards to %s instead of %s' % (m, names, m)
            if ok:
                bi, t = ss[0]
                # receiver is self; remaining arguments derive from the parameters in the same order
                a0 = fn.arg_terms(t, 0, bi)
                if not all(n[0] == 'param' and n[1] == 1 for n in a0):
                    ok, why = False, 'receiver is not self'
                for j in range(1, len(t['args'])):
                    aj = fn.arg_terms(t, j, bi)
                    ps = {n[1] for n in walk(aj) if n[0] == 'param'}
                    if m == 'sample_uniform':
                        if ps != {2}:
                            ok, why = False, 'generator argument does not wrap the caller\'s generator'
                    elif ps != {j + 1}:
                        ok, why = False, 'argument %d of %s derives from parameter(s) %s instead of parameter %d (order changed)' % (j, m, sorted(ps), j + 1)
            r_match.inst('%s forwards to StateSpace::%s with arguments in order' % (b.path, m), ok=ok, site=b.loc(0))
            if not ok:
                r_match.violations.append(Violation('C13', 'C13.match', b.path, m, why, loc=b.loc(0)))
        # newtypes -> self.0
        for adt, ms in newtypes.items():
            b = ms.get(m)
            if b is None:
                r_match.violations.append(Violation('C13', 'C13.match', adt, m, 'newtype space has no %s' % m))
                continue
            n_fw += 1
            fn = ctx.fn(b)
            calls = [(bi, t) for bi, t in b.calls() if t['func'].get('name') in (m, m + '_dyn') and
                     (t['func'].get('trait') in (SS, ANY) or t['func'].get('path', '').startswith((SS, ANY)))]
            ok = len(calls) == 1
            why = 'newtype %s does not forward exactly once to %s / %s_dyn (found %s)' % (
                m, m, m, [t['func'].get('name') for bi, t in b.calls() if t['func'].get('trait') in (SS, ANY)])
            if ok:
                bi, t = calls[0]
                a0 = fn.arg_terms(t, 0, bi)
                if not all(n[0] == 'field' and n[2] == '0' and all(q[0] == 'param' and q[1] == 1 for q in n[1]) for n in a0):
                    ok, why = False, 'receiver is not self.0'
                for j in range(1, len(t['args'])):
                    aj = fn.arg_terms(t, j, bi)
                    pty = b.local_ty(j + 1) if j + 1 <= b.arg_count else ''
                    if pty == 'f64' or 'Rng' in pty or pty.startswith('&mut impl'):
                        good = all(n[0] == 'param' and n[1] == j + 1 for n in aj)
                    else:
                        good = all(n[0] == 'field' and n[2] == '0' and all(q[0] == 'param' and q[1] == j + 1 for q in n[1]) for n in aj) or \
                            all(n[0] == 'param' and n[1] == j + 1 for n in aj)
                    if not good:
                        ok, why = False, 'argument %d is %s, not parameter %d (.0)' % (j, fmt_terms(aj)[:50], j + 1)
            r_match.inst('%s forwards to self.0.%s with arguments in order' % (b.path, m), ok=ok, site=b.loc(0))
            if not ok:
                r_match.violations.append(Violation('C13', 'C13.match', b.path, m, why, loc=b.loc(0)))
    if n_fw < 6 + 6 + 12:
        r_match.violations.append(Violation('C13', 'C13.match', 'oxmpl', 'floor', 'only %d forwarding methods found (floor 24)' % n_fw))

    # ---------------------------------------------------------------- index / depends
    for m in METHODS:
        b = comp.get(m)
        if b is None:
            continue
        fn = ctx.fn(b)
        dyn = _calls_to(b, ANY)
        probs = []
        for bi, t in dyn:
            recv = fn.arg_terms(t, 0, bi)
            I = None
            for n in recv:
                if n[0] == 'index' and all(c[0] == 'field' and c[2] == 'subspaces' and all(q[0] == 'param' and q[1] == 1 for q in c[1]) for c in n[1]):
                    I = n[2]
                elif n[0] == 'field' and n[2] == '1' and len(n[1]) == 1 and next(iter(n[1]))[0] == 'unwrap':
                    # `for (i, subspace) in self.subspaces.iter().enumerate()`: element i of self.subspaces, index = E.0
                    base_ = P.enumerate_base(n[1])
                    u_ = next(iter(n[1]))
                    nx_ = next(iter(u_[1])) if len(u_[1]) == 1 else None
                    direct = nx_ is not None and nx_[0] == 'call' and len(nx_[2][0]) == 1 and \
                        next(iter(nx_[2][0]))[1] == 'std::iter::Iterator::enumerate'
                    if base_ is not None and direct and all(c[0] == 'field' and c[2] == 'subspaces' for c in base_):
                        I = ('enum', T(('field', n[1], '0')))
                elif n[0] == 'unwrap':
                    # `for subspace in &self.subspaces`
                    src = P.iter_source(T(n))
                    if src is not None and all(c[0] == 'field' and c[2] == 'subspaces' for c in src):
                        I = 'iter'
                elif n[0] == 'field' and n[2] == '0' and len(n[1]) == 1 and next(iter(n[1]))[0] == 'unwrap':
                    # `for (subspace, comp) in self.subspaces.iter().zip(state.components.iter[_mut]())`
                    src = P.iter_source(n[1])
                    if src is not None and len(src) == 1:
                        z = next(iter(src))
                        if z[0] == 'call' and z[1] == 'std::iter::Iterator::zip' and len(z[2]) == 2:
                            def _base(ts):
                                ts2 = ts
                                for _ in range(4):
                                    if len(ts2) == 1 and next(iter(ts2))[0] == 'call' and next(iter(ts2))[2]:
                                        ts2 = next(iter(ts2))[2][0]
                                return ts2
                            a_src, b_src = _base(z[2][0]), _base(z[2][1])
                            if all(c[0] == 'field' and c[2] == 'subspaces' for c in a_src):
                                I = ('zip', n[1], b_src)
            if I is None:
                probs.append('receiver %s is not an element of self.subspaces' % fmt_terms(recv)[:60])
                continue
            if isinstance(I, tuple) and I[0] == 'zip':
                # the zipped partner must be the components of a state parameter, used as `.1`
                for j in range(1, len(t['args'])):
                    aj = strip_clone(fn.arg_terms(t, j, bi))
                    for n in aj:
                        if n[0] == 'field' and n[2] == '1' and n[1] == I[1]:
                            if not all(c[0] == 'field' and c[2] == 'components' for c in I[2]):
                                probs.append('the subspaces are zipped with %s, not with the state components' % fmt_terms(I[2])[:50])
                        elif n[0] == 'param' and b.local_ty(n[1]) in ('f64',):
                            pass
                        else:
                            probs.append('argument %d is not the component zipped with its subspace' % j)
                continue
            if isinstance(I, tuple) and I[0] == 'enum':
                I = I[1]            # whole-collection enumerate: covers 0..len by construction
            elif I != 'iter':
                src = P.iter_source(I)
                okr = False
                if src is not None and len(src) == 1:
                    q = next(iter(src))
                    if q[0] == 'agg' and q[1] == 'std::ops::Range':
                        d = dict(q[3])
                        lo, end = d.get('start'), d.get('end')
                        if lo == T(('const', '0')) and end and all(e[0] == 'call' and e[1].endswith('::len') and
                                                                  all(c[0] == 'field' and c[2] == 'subspaces' for c in e[2][0]) for e in end):
                            okr = True
                if not okr:
                    probs.append('the loop does not run over 0..self.subspaces.len() (%s)' % fmt_terms(I)[:70])
            # state arguments index components with the same variable
            for j in range(1, len(t['args'])):
                aj = strip_clone(fn.arg_terms(t, j, bi))
                for n in aj:
                    if n[0] == 'index' and any(c[0] == 'field' and c[2] == 'components' for c in n[1]):
                        if I == 'iter' or n[2] != I:
                            probs.append('component index %s differs from the subspace index' % fmt_terms(n[2])[:60])
                        # which parameter's components
                        ps = {q[1] for c in n[1] for q in walk(T(c)) if q[0] == 'param'}
                        if ps != {j + 1}:
                            probs.append('argument %d takes the component of parameter %s' % (j, sorted(ps)))
                    elif n[0] == 'param':
                        if m == 'interpolate' and b.local_ty(n[1]) == 'f64' and n[1] == j + 1:
                            continue
                        if m == 'sample_uniform':
                            continue
                        probs.append('argument %d is passed whole instead of its i-th component' % j)
            # weights use the same index
        for n in walk(_ret_terms(fn)):
            if n[0] == 'index' and any(c[0] == 'field' and c[2] == 'weights' for c in n[1]):
                dynI = [x[2] for bi, t in dyn for x in fn.arg_terms(t, 0, bi) if x[0] == 'index']
                if dynI and n[2] not in dynI:
                    probs.append('weight index %s differs from the subspace index' % fmt_terms(n[2])[:60])
        # loop exits
        for L in fn.loops():
            if not any(bi in L['body'] for bi, _t in dyn):
                continue
            for (src, dst) in L['exits']:
                t = fn.blocks[src]['term']
                is_none = False
                if t['k'] == 'switch':
                    si = fn.switch_info(src)
                    if si and all(x[0] == 'discr' for x in si[0]):
                        # iterator None edge or the `?` break edge
                        is_none = True
                if is_none:
                    continue
                if fn.blocks[dst]['term']['k'] == 'unreachable':
                    continue
                if m == 'satisfies_bounds':
                    from .c11 import _only_false
                    if _only_false(fn, dst):
                        continue
                probs.append('the loop can be left early at %s' % fn.loc(src))
        # no iteration skips its component: every path header -> back edge passes through the component call; the only
        # accepted skip is the exact test `weights[i] == 0.0` in the two weighted sums (a zero term)
        for L in fn.loops():
            cbs = [bi for bi, _t in dyn if bi in L['body']]
            if not cbs:
                continue
            allowed = set()
            if m in ('distance', 'get_longest_valid_segment_length'):
                def _wz(x, y):
                    return all(n[0] == 'index' and any(c[0] == 'field' and c[2] == 'weights' for c in n[1]) for n in strip_clone(x)) and \
                        bool(x) and all(n[0] == 'const' and n[1] in ('0.0f', '0f', '-0.0f') for n in y) and bool(y)
                te, _fe, _sb = fn.bool_edges(lambda q: q[0] == 'binop' and q[1] == 'Eq' and (_wz(q[2], q[3]) or _wz(q[3], q[2])))
                _te2, fe2, _sb2 = fn.bool_edges(lambda q: q[0] == 'binop' and q[1] == 'Ne' and (_wz(q[2], q[3]) or _wz(q[3], q[2])))
                allowed = set(te) | set(fe2)
            outside = frozenset(x for x in range(fn.nb) if x not in L['body'])
            r = fn.reachable(L['header'], removed=frozenset(allowed), stop=outside | frozenset(cbs))
            for (src, dst) in L['back_edges']:
                if src in r and src not in cbs:
                    probs.append('an iteration can skip the component operation (component i is left out of the result '
                                 'for some inputs other than an exactly-zero weight)')
        # no shortcut around the component loop: every normal return is reached through the loop over the components
        # (a fast path such as `if t == 1.0 { out.clone_from(to); return }` skips the components' own canonicalisation)
        for L in fn.loops():
            if not any(bi in L['body'] for bi, _t in dyn):
                continue
            around = fn.reachable(0, stop=frozenset([L['header']]))
            if any(rb in around and rb != L['header'] for rb in fn.return_blocks()):
                probs.append('the method can return without running the loop over its components (a shortcut bypasses the component '
                             'operations for some inputs)')
        if not dyn:
            probs.append('no component operation is called')
        r_index.inst('%s indexes subspace/components/weights consistently over all subspaces' % b.path, ok=not probs, site=b.loc(0))
        for o, pr in enumerate(dict.fromkeys(probs)):
            r_index.violations.append(Violation('C13', 'C13.index', b.path, m, pr, loc=b.loc(0), ordinal=o))

        # ---- depends
        dprobs = []
        rt = _ret_terms(fn)
        if m in ('distance', 'get_longest_valid_segment_length'):
            ok = False
            for n in rt:
                if n[0] == 'call' and n[1].endswith('::sqrt'):
                    acc = n[2][0]
                    adds = [a for a in acc if a[0] == 'binop' and a[1] == 'Add']
                    zero = [a for a in acc if a[0] == 'const' and a[1] in ('0.0f', '0f')]
                    if adds and zero and len(adds) + len(zero) == len(acc):
                        good = True
                        for a in adds:
                            term = None
                            for (x, y) in ((a[2], a[3]), (a[3], a[2])):
                                if all(q[0] in ('const', 'rec', 'binop') for q in x):
                                    term = y
                            if term is None or len(term) != 1:
                                good = False
                                continue
                            sq = next(iter(term))
                            base = None
                            if sq[0] == 'call' and sq[1].endswith('::powi') and sq[2][1] == T(('const', '2')):
                                base = sq[2][0]
                            elif sq[0] == 'binop' and sq[1] == 'Mul' and sq[2] == sq[3]:
                                base = sq[2]
                            if base is None or len(base) != 1:
                                good = False
                                continue
                            pr = next(iter(base))
                            if not (pr[0] == 'binop' and pr[1] == 'Mul'):
                                dprobs.append('the summed term is not (component * weight)^2')
                                good = False
                                continue
                            sides = [pr[2], pr[3]]
                            has_dyn = any(all(q[0] == 'call' and q[1].endswith(m + '_dyn') for q in s_) and s_ for s_ in sides)
                            has_w = any(all(q[0] == 'index' and any(c[0] == 'field' and c[2] == 'weights' for c in q[1]) for q in s_) and s_ for s_ in sides)
                            if not has_dyn:
                                dprobs.append('the summed term does not contain the component %s' % m)
                                good = False
                            if not has_w:
                                dprobs.append('the summed term does not contain the component weight')
                                good = False
                        ok = good
            if not ok and not dprobs:
                dprobs.append('result is not sqrt of a sum starting at 0 of squared weighted component values: %s' % fmt_terms(rt)[:100])
        elif m == 'interpolate':
            for bi, t in dyn:
                tj = [j for j in range(len(t['args'])) if b.local_ty((t['args'][j].get('move') or t['args'][j].get('copy') or {'l': 0})['l']) == 'f64']
                for j in tj:
                    a = fn.arg_terms(t, j, bi)
                    if not all(n[0] == 'param' and b.local_ty(n[1]) == 'f64' for n in a):
                        dprobs.append('interpolation parameter is modified before being forwarded: %s' % fmt_terms(a)[:50])
        elif m == 'sample_uniform':
            # Ok(CompoundState{components: V}) with V filled by pushes of the dyn results in loop order
            okc = False
            for n in walk(rt):
                if n[0] == 'agg' and n[1].endswith('CompoundState'):
                    d = dict(n[3])
                    comps = d.get('components', frozenset())
                    cr = P.list_creations(comps)
                    pushes = P.list_pushes(fn, cr) if cr else []
                    if pushes and all(all(q[0] == 'unwrap' and all(c[0] == 'call' and c[1].endswith('sample_uniform_dyn') for c in q[1]) for q in x) for (_pb, x, _t) in pushes):
                        okc = True
            if not okc:
                dprobs.append('the sampled components are not collected in subspace order from sample_uniform_dyn')
        if m in ('distance', 'get_longest_valid_segment_length', 'interpolate', 'sample_uniform'):
            r_dep.inst('%s combines its components by the documented law' % b.path, ok=not dprobs, site=b.loc(0))
            for o, pr in enumerate(dict.fromkeys(dprobs)):
                r_dep.violations.append(Violation('C13', 'C13.depends', b.path, m, pr, loc=b.loc(0), ordinal=o))

    # ---------------------------------------------------------------- se
    n_se = 0
    for adt in newtypes:
        ctor = [b for b in ctx.lib_bodies() if b.j.get('impl_adt') == adt and b.impl_trait is None and b.name == 'new']
        sadt = None
        # the state type of this space: look at its StateSpace impl's distance parameter type
        dm = newtypes[adt].get('distance')
        if dm is not None:
            sty = dm.local_ty(2).lstrip('&')
            sadt = sty
        sctor = [b for b in ctx.lib_bodies() if b.j.get('impl_adt') == sadt and b.impl_trait is None and b.name == 'new']
        if not ctor or not sctor:
            r_se.violations.append(Violation('C13', 'C13.se', adt, 'ctor', 'cannot find the space / state constructors (unrecognised shape)'))
            continue
        n_se += 1
        b, sb = ctor[0], sctor[0]
        fn, sfn = ctx.fn(b), ctx.fn(sb)
        probs = []
        space_kinds, weights = None, None
        for bi, t in b.calls():
            if t['func'].get('path') == COMPOUND + '::new':
                subs = fn.arg_terms(t, 0, bi)
                ws = fn.arg_terms(t, 1, bi)
                for n in subs:
                    if n[0] == 'array':
                        space_kinds = [_kind(x) for x in n[1]]
                for n in ws:
                    if n[0] == 'array':
                        weights = n[1]
        state_kinds = None
        for n in walk(_ret_terms(sfn)):
            if n[0] == 'agg' and n[1].endswith('CompoundState'):
                comps = dict(n[3]).get('components', frozenset())
                for a in comps:
                    if a[0] == 'array':
                        state_kinds = [_kind(x, sb) for x in a[1]]
            elif n[0] == 'call' and n[1].endswith('CompoundState::new') and len(n[2]) == 1 and state_kinds is None:
                # `CompoundState::new(vec![..])`: the compound state's own constructor only assembles its argument
                cb = ctx.core.body(n[1])
                assembles = False
                if cb is not None:
                    for m in walk(_ret_terms(ctx.fn(cb))):
                        if m[0] == 'agg' and m[1].endswith('CompoundState'):
                            cf = dict(m[3]).get('components', frozenset())
                            assembles = bool(cf) and all(q[0] == 'param' and q[1] == 1 for q in cf)
                if assembles:
                    for a in n[2][0]:
                        if a[0] == 'array':
                            state_kinds = [_kind(x, sb) for x in a[1]]
        if space_kinds is None or weights is None:
            probs.append('the compound is not built from literal vectors of subspaces and weights (unrecognised shape)')
        else:
            if state_kinds is None:
                probs.append('the state constructor does not build a literal component vector (unrecognised shape)')
            elif space_kinds != state_kinds:
                probs.append('subspace order %s differs from the state component order %s' % (space_kinds, state_kinds))
            if not (space_kinds and space_kinds[0] == 'real_vector' and len(space_kinds) == 2 and space_kinds[1] in ('so2', 'so3')):
                probs.append('subspaces are %s, expected [real_vector, so2|so3]' % space_kinds)
            if len(weights) != 2 or weights[0] != T(('const', '1.0f')) or not all(n[0] == 'param' and b.local_ty(n[1]) == 'f64' for n in weights[1]):
                probs.append('weights are %s, expected [1.0, <weight parameter>]' % [fmt_terms(w)[:20] for w in weights])
        probs += _bounds_forwarded(ctx, b, fn)
        r_se.inst('%s: subspaces %s weights %s; state components %s' % (b.path, space_kinds, [fmt_terms(w)[:12] for w in (weights or [])], state_kinds),
                  ok=not probs, site=b.loc(0))
        for o, pr in enumerate(probs):
            r_se.violations.append(Violation('C13', 'C13.se', b.path, 'layout', pr, loc=b.loc(0), ordinal=o))
    if n_se < 2:
        r_se.violations.append(Violation('C13', 'C13.se', 'oxmpl', 'floor', 'only %d newtype-over-compound spaces found (floor 2)' % n_se))
    return [r_match, r_index, r_dep, r_se]


def _bounds_forwarded(ctx, b, fn):
    """the wrapper hands the given bounds to its component constructors as they are: every Option argument of a component
    space constructor is `Some(<elements of the given vector, no arithmetic>)` or, only when no bounds were given at all,
    `None`.  A wrapper that decides on the bound VALUES itself (drops, widens, reorders by value) no longer behaves as the
    compound of its documented parts."""
    from .c12 import space_adts
    from .. import planner as P
    probs = []
    spaces = set(space_adts(ctx))
    opt_params = [i for i in range(1, b.arg_count + 1) if b.local_ty(i).startswith('std::option::Option<')]
    if not opt_params:
        return probs
    pi = opt_params[0]
    de = fn.discr_edges(lambda ts: bool(ts) and all(n[0] == 'param' and n[1] == pi for n in ts))
    none_edges = set(de.get('0', set()))
    if '1' in de and '0' not in de:
        none_edges |= de.get('otherwise', set())
    n_calls = 0
    # a component that is never given bounds (the rotation part of SE(3)) is unbounded by design: None is then not a drop
    bounded = set()
    for bi, t in b.calls():
        cb = ctx.core.body(t['func'].get('path') or '')
        if cb is None or cb.name != 'new' or cb.j.get('impl_adt') not in spaces:
            continue
        for j, a in enumerate(t['args']):
            if cb.local_ty(j + 1).startswith('std::option::Option<') and any(
                    n[0] == 'agg' and n[2] == 'Some' for (_db, _di, ts) in fn.split_defs(a, (bi, fn.nstmts(bi))) for n in ts):
                bounded.add(cb.j.get('impl_adt'))
    for bi, t in b.calls():
        cb = ctx.core.body(t['func'].get('path') or '')
        if cb is None or cb.name != 'new' or cb.j.get('impl_adt') not in spaces or cb.j.get('impl_adt') == b.j.get('impl_adt'):
            continue
        if cb.j.get('impl_adt') not in bounded:
            continue
        for j, a in enumerate(t['args']):
            if not cb.local_ty(j + 1).startswith('std::option::Option<'):
                continue
            n_calls += 1
            pl = a.get('move') or a.get('copy')
            if pl is None:
                continue
            for (db, di, ts) in fn.split_defs(a, (bi, fn.nstmts(bi))):
                for n in ts:
                    if n[0] == 'agg' and n[2] == 'None':
                        if not none_edges or not P.guarded(fn, db, none_edges):
                            probs.append('%s can be given None although bounds were supplied (decided at %s): the wrapper drops the given '
                                         'bounds instead of forwarding them' % (cb.path.rsplit('::', 2)[-2], fn.loc(db, di)))
                    elif n[0] == 'agg' and n[2] == 'Some' and n[3]:
                        bad = [m for m in walk(n[3][0][1]) if m[0] in ('binop', 'unop') or
                               (m[0] == 'call' and m[1].startswith(('core::f64::', 'std::f64::')))]
                        src = [m for m in walk(n[3][0][1]) if m[0] == 'param']
                        if bad or not src or any(m[1] != pi for m in src):
                            probs.append('%s is given bounds computed by the wrapper (%s), not the elements of the given vector' % (
                                cb.path.rsplit('::', 2)[-2], fmt_terms(n[3][0][1])[:60]))
                    elif n[0] == 'param' and n[1] == pi:
                        continue
                    else:
                        probs.append('the bounds argument of %s is %s (unrecognised shape: neither Some(<given elements>) nor None)' % (
                            cb.path.rsplit('::', 2)[-2], fmt_terms(T(n))[:60]))
    return list(dict.fromkeys(probs))


def _ret_terms(fn):
    rt = set()
    for rb in fn.return_blocks():
        rt |= fn.local_terms(0, (rb, fn.nstmts(rb)))
    return frozenset(rt)


def _kind(ts, body=None):
    s = ' '.join(n[1] for n in walk(ts) if n[0] == 'call')
    if body is not None:
        s += ' ' + ' '.join(body.local_ty(n[1]).lower().replace('realvector', 'real_vector') for n in ts if n[0] == 'param')
    for k in ('real_vector', 'so2', 'so3', 'compound'):
        if k in s:
            return k
    s2 = ' '.join(str(n[1]) for n in walk(ts) if n[0] == 'agg')
    for k in ('real_vector', 'so2', 'so3'):
        if k in s2:
            return k
    # parameters typed as states (SE3State::new(x, y, z, rotation: SO3State))
    return '?'
