"""C02 — a returned path starts at the start state and ends in the goal.

C02.reroot      every function that installs a problem definition clears every tree container before pushing exactly
                one root per container, whose origin is the start state (or a goal sample) of the value just stored;
                roadmap planners read the start at query time and clear the roadmap in setup
C02.parentless  outside root initialisation every pushed node has a parent (so the parent walk ends at the root)
C02.goal        every Ok return is guarded by a goal query on the state of the terminal node handed to path
                extraction (or the terminal node is the goal-sampled root of the goal tree)
C02.nonempty    path extraction pushes at least one state
Ordering of the vector (reverse / junction skip) is not re-checked: every integration test asserts both end points.
"""
from ..core import RuleResult, Violation, VEC_CLEAR, VEC_PUSH, VEC_LEN, SAMPLE_GOAL, IS_SATISFIED, user_call
from ..engine import walk, fmt_terms, strip_clone, T
from .. import planner as P
from .c01 import _ok_blocks

META = {
    'explanation': 'C02: for every history of setup / set_problem_definition calls the tree roots are clones of the '
                   'start state (goal sample) of the problem most recently installed (clear-before-reroot, single root, '
                   'origin read after the store); non-root nodes always have a parent; every Ok is guarded by the goal '
                   'predicate on the terminal node given to path extraction; extracted paths are non-empty.',
    'assumptions': ['S: Clone is value preserving', 'sample_goal returns a state satisfying the goal (contract)',
                    'vector ordering (reverse, junction skip) is asserted by the existing tests'],
}


def _stores_field(b, fname):
    """(block, idx, stmt|None) of every store into self.<fname>: assignments and Option::insert/replace/get_or_insert calls"""
    out = []
    for bi, t in b.calls():
        if t['func'].get('path') in P.OPT_INSERT + P.OPT_COND_INSERT and t['args']:
            pl = t['args'][0].get('move') or t['args'][0].get('copy')
            if pl is None:
                continue
            root = pl
            # the receiver is `&mut (*self).f` held in a temporary: resolve through the engine in the caller; here a cheap
            # syntactic resolution of the defining statement of the temporary is enough
            for st in b.blocks[bi]['stmts']:
                if st['k'] == 'assign' and st['place']['l'] == pl['l'] and not st['place']['p'] and st['rv']['k'] == 'ref':
                    root = st['rv']['place']
            names = [e.get('name') for e in root['p'] if isinstance(e, dict) and 'f' in e]
            if root['l'] == 1 and names == [fname]:
                out.append((bi, len(b.blocks[bi]['stmts']), None))
    for bi, blk in enumerate(b.blocks):
        if blk['cleanup']:
            continue
        for si, st in enumerate(blk['stmts']):
            if st['k'] != 'assign':
                continue
            pl = st['place']
            names = [e.get('name') for e in pl['p'] if isinstance(e, dict) and 'f' in e]
            if pl['l'] == 1 and names == [fname] and any(e == 'deref' for e in pl['p']):
                out.append((bi, si, st))
    return out


def _pd_field(p):
    for f in p['fields']:
        if 'ProblemDefinition<' in f['ty'] and f['ty'].startswith('std::option::Option<'):
            return f['name']
    return None


def is_goal_sample_origin(ts):
    ts = strip_clone(ts)
    if not ts:
        return False
    for n in ts:
        m = n
        if m[0] == 'unwrap' and len(m[1]) >= 1:
            ok = all(q[0] == 'call' and q[1] == SAMPLE_GOAL and
                     all(g[0] == 'field' and g[2] == 'goal' for g in q[2][0]) for q in m[1])
            if ok:
                continue
        return False
    return True


def run(ctx, tier):
    r_re = RuleResult('C02.reroot', 'installing a problem clears the trees and roots them at the new start (goal sample); roadmaps read the start at query time')
    r_par = RuleResult('C02.parentless', 'non-root nodes always have a parent')
    r_goal = RuleResult('C02.goal', 'Ok is guarded by the goal predicate on the terminal node handed to path extraction')
    r_ne = RuleResult('C02.nonempty', 'path extraction yields at least one state')
    planners = ctx.planners()
    if len(planners) < 4:
        r_re.violations.append(Violation('C02', 'C02.reroot', 'oxmpl', 'floor', 'only %d planners (floor 4)' % len(planners)))
    for p in planners:
        pdf = _pd_field(p)
        is_tree = any(any('parent' in l for l in c['links']) for c in p['containers'].values())
        pushes = P.pushes(ctx, p)
        writers = [b for b in p['methods'] if pdf and _stores_field(b, pdf) and b.name != 'new']
        if not writers:
            r_re.violations.append(Violation('C02', 'C02.reroot', p['adt'], 'no-writer', 'no function installs a problem definition (unrecognised shape)'))
        for b in writers:
            fn = ctx.fn(b)
            for s in P.install_sites(fn, pdf):
                if s['kind'] == 'conditional':
                    r_re.violations.append(Violation(
                        'C02', 'C02.reroot', b.path, 'conditional-install',
                        'self.%s is installed with get_or_insert: the new problem definition is stored only when none was '
                        'installed before, so a second setup keeps (and roots the trees at) the previous problem' % pdf,
                        loc=b.loc(s['block'])))
            store_blocks = [bi for (bi, _si, _st) in _stores_field(b, pdf)]
            store_pts = [(bi, si) for (bi, si, _st) in _stores_field(b, pdf)]
            # every read of self.<pdf> in an installing function happens after the store (it sees the new problem)
            dom = fn.dominators()
            for bi, blk in enumerate(b.blocks):
                if blk['cleanup']:
                    continue
                for si, st in enumerate(blk['stmts']):
                    if st['k'] != 'assign' or st['rv']['k'] not in ('ref', 'use', 'discr', 'rawptr'):
                        continue
                    rp = st['rv'].get('place') or st['rv']['op'].get('copy') or st['rv']['op'].get('move') if st['rv']['k'] != 'use' or 'const' not in st['rv']['op'] else None
                    if rp is None or rp['l'] != 1:
                        continue
                    names = [e.get('name') for e in rp['p'] if isinstance(e, dict) and 'f' in e]
                    if not names or names[0] != pdf:
                        continue
                    tt = blk['term']
                    if tt['k'] == 'call' and tt['func'].get('path') in P.OPT_INSERT + P.OPT_COND_INSERT and tt['args'] and \
                            (tt['args'][0].get('move') or tt['args'][0].get('copy') or {}).get('l') == st['place']['l']:
                        continue        # the receiver borrow of the installing call itself
                    after = any((sb == bi and ssi < si) or (sb != bi and sb in dom.get(bi, ())) for (sb, ssi) in store_pts)
                    if not after:
                        r_re.violations.append(Violation('C02', 'C02.reroot', b.path, 'stale-read',
                                                         'self.%s is read before the new problem definition is stored: a root derived from it '
                                                         'belongs to the previous problem' % pdf, loc=b.loc(bi, si)))
            if is_tree:
                for cname, c in p['containers'].items():
                    cont = T(('field', T(('param', 1, 'self')), cname))
                    clears = [bi for bi, t in b.calls() if t['func'].get('path') == VEC_CLEAR and
                              fn.place_terms((t['args'][0].get('move') or t['args'][0].get('copy')), (bi, fn.nstmts(bi)), mut_kills=False) == cont]
                    mine = [pu for pu in pushes if pu['fn'] is fn and pu['cont'] == cont]
                    probs = []
                    if not clears:
                        probs.append('self.%s is not cleared when a new problem is installed: the old root (and tree) survive a second setup' % cname)
                    if len(mine) != 1:
                        probs.append('%d roots are pushed into self.%s (expected exactly one)' % (len(mine), cname))
                    for pu in mine:
                        if any(pu['block'] in L['body'] for L in fn.loops()):
                            probs.append('the root push into self.%s sits in a loop' % cname)
                        dom = fn.dominators().get(pu['block'], set())
                        if clears and not any(cb in dom for cb in clears):
                            probs.append('the root is pushed into self.%s on a path that does not clear it first' % cname)
                        if not any(sb in dom for sb in store_blocks):
                            probs.append('the root of self.%s is computed before the new problem definition is stored' % cname)
                        st = P.node_field(pu['node'], c['state_field'])
                        if st is None or not (P.is_start_origin(st) or is_goal_sample_origin(st)):
                            probs.append('the root of self.%s has origin %s, not the start state / a goal sample of the installed problem' % (
                                cname, fmt_terms(strip_clone(st or frozenset()))[:80]))
                        else:
                            # origin must read the planner's own problem_def field (the value just stored), not a cache
                            reads_field = any(n[0] == 'field' and n[2] == pdf for n in walk(st))
                            if not reads_field:
                                probs.append('the root of self.%s is not taken from the stored problem definition' % cname)
                        for l in c['links']:
                            if 'parent' in l:
                                v = P.node_field(pu['node'], l)
                                if v is None or not P.is_none(v):
                                    probs.append('the root of self.%s is installed with a parent' % cname)
                    r_re.inst('%s: self.%s is cleared and re-rooted at the installed problem' % (b.path, cname), ok=not probs, site=b.loc(0))
                    for o, pr in enumerate(probs):
                        r_re.violations.append(Violation('C02', 'C02.reroot', b.path, 'reroot:' + cname, pr, loc=b.loc(0), ordinal=o))
            else:
                # roadmap planner: a Planner::setup must clear the roadmap; other writers must not touch it
                for cname in p['containers']:
                    cont = T(('field', T(('param', 1, 'self')), cname))
                    touches = [(bi, t) for bi, t in b.calls() if t['args'] and
                               (t['args'][0].get('move') or t['args'][0].get('copy')) is not None and
                               fn.place_terms((t['args'][0].get('move') or t['args'][0].get('copy')), (bi, fn.nstmts(bi)), mut_kills=False) == cont]
                    if b.impl_trait:
                        clears = {bi for bi, t in touches if t['func'].get('path') == VEC_CLEAR}
                        reach_nc = fn.reachable(0, stop=frozenset(clears))
                        ok = bool(clears) and not any(rb in reach_nc and rb not in clears for rb in fn.return_blocks()) and \
                            not any(pu['fn'] is fn for pu in pushes)
                        r_re.inst('%s clears self.%s' % (b.path, cname), ok=ok, site=b.loc(0))
                        if not ok:
                            r_re.violations.append(Violation('C02', 'C02.reroot', b.path, 'reroot:' + cname,
                                                             'setup does not clear self.%s on every path (a roadmap built for another problem / checker survives)' % cname, loc=b.loc(0)))
                    else:
                        ok = not touches
                        r_re.inst('%s leaves self.%s untouched' % (b.path, cname), ok=ok, site=b.loc(0))
                        if not ok:
                            r_re.violations.append(Violation('C02', 'C02.reroot', b.path, 'touch:' + cname,
                                                             'replacing the problem modifies self.%s' % cname, loc=b.loc(0)))
                # no stored state derives from the start state
                for pu in pushes:
                    st = P.node_field(pu['node'], pu['cinfo']['state_field'])
                    if st is not None and P.is_start_origin(st):
                        r_re.violations.append(Violation('C02', 'C02.reroot', pu['body'].path, 'start-in-roadmap',
                                                         'a start-derived state is stored in the roadmap (it would survive problem replacement)', loc=pu['body'].loc(pu['block'])))
        # ------------------------------------------------------------ parentless
        if is_tree:
            n = 0
            for pu in pushes:
                if pu['in_setup']:
                    continue
                n += 1
                for l in pu['cinfo']['links']:
                    if 'parent' not in l:
                        continue
                    v = P.node_field(pu['node'], l)
                    ok = v is not None and P.is_some(v)
                    r_par.inst('%s: node pushed at %s has a parent' % (pu['body'].path, pu['body'].loc(pu['block'])), ok=ok, site=pu['body'].loc(pu['block']))
                    if not ok:
                        r_par.violations.append(Violation('C02', 'C02.parentless', pu['body'].path, 'no-parent',
                                                          'a non-root node can be pushed without a parent: the parent walk would stop at it',
                                                          loc=pu['body'].loc(pu['block'])))
            if n < 1:
                r_par.violations.append(Violation('C02', 'C02.parentless', p['adt'], 'floor', 'no non-root push in %s' % p['name']))
        # ------------------------------------------------------------ goal
        _goal(ctx, p, r_goal)
        # ------------------------------------------------------------ nonempty
        _nonempty(ctx, p, r_ne)
    return [r_re, r_par, r_goal, r_ne]


def _extractors(p):
    return {b.path: b for b in p['methods'] if b.j.get('ret_ty', '').startswith('base::planner::Path<') and not b.impl_trait}


def _helper_returned_index(ctx, p, fn, idx):
    """idx == field(unwrap(call helper(cont_arg, ..)), k) where the helper returns the index of the node it pushes:
    returns (helper call node, container arg terms, pushed state terms in helper as function of params) or None"""
    if len(idx) != 1:
        return None
    n = next(iter(idx))
    if n[0] != 'field' or len(n[1]) != 1:
        return None
    u = next(iter(n[1]))
    if u[0] != 'unwrap' or len(u[1]) != 1:
        return None
    c = next(iter(u[1]))
    if c[0] != 'call':
        return None
    hb = ctx.core.body(c[1])
    if hb is None or hb not in p['methods']:
        return None
    hfn = ctx.fn(hb)
    # the helper's pushes and what it returns in tuple position n[2]
    hp = [pu for pu in P.pushes(ctx, p) if pu['fn'] is hfn]
    if len(hp) != 1:
        return None
    pu = hp[0]
    # returned Some((.., idx)) : idx must be len(cont) read just before the push
    rt = set()
    for rb in hfn.return_blocks():
        rt |= hfn.local_terms(0, (rb, hfn.nstmts(rb)))
    ok = False
    for r in rt:
        if r[0] == 'agg' and r[2] == 'Some':
            for tup in r[3][0][1]:
                if tup[0] == 'tuple' and n[2].isdigit() and int(n[2]) < len(tup[1]):
                    it = tup[1][int(n[2])]
                    if P.pushed_node_for_index(ctx, p, hfn, pu['cont'], it) is pu:
                        ok = True
    if not ok:
        return None
    # container argument position
    cpos = None
    for cn in pu['cont']:
        if cn[0] == 'param':
            cpos = cn[1]
    return c, (c[2][cpos - 1] if cpos else None), pu


CUTTERS = ('take', 'take_while', 'map_while', 'filter', 'filter_map', 'step_by', 'skip_while', 'truncate', 'drain', 'split_off', 'pop', 'retain', 'dedup', 'nth', 'last', 'next_back', 'split_at', 'split_first', 'split_last')


def _branch_helpers(p):
    """private helpers of the planner that return the states of one branch as a plain vector (`fn branch(tree, idx) -> Vec<S>`)"""
    return {b.path: b for b in p['methods'] if 'Vec<S' in (b.j.get('ret_ty') or '') and not b.impl_trait and b.kind == 'AssocFn' and
            any(b.local_ty(i) == 'usize' for i in range(1, b.arg_count + 1))}


def _goal(ctx, p, r_goal):
    exts = dict(_branch_helpers(p))
    exts.update(_extractors(p))
    gqs = P.goal_queries(ctx, p)
    solves = [b for b in p['methods'] if b.name == 'solve' and b.impl_trait]
    for b in solves:
        fn = ctx.fn(b)
        oks = _ok_blocks(fn)
        if not oks:
            r_goal.violations.append(Violation('C02', 'C02.goal', b.path, 'no-ok', 'no Ok return (unrecognised shape)', loc=b.loc(0)))
        for o, (ob, osi) in enumerate(oks):
            st = fn.blocks[ob]['stmts'][osi]
            val = fn.op_terms(st['rv']['fields'][0], (ob, osi))
            # terminal extraction call(s): the last extractor call feeding the value
            calls = [n for n in walk(val) if n[0] == 'call' and n[1] in exts]
            ok = False
            why = 'the returned path is not produced by path extraction (unrecognised shape)'
            if calls:
                # the branch that ends the path is the one extracted last / appended: check each terminal candidate
                verdicts = []
                for c in calls:
                    eb = exts[c[1]]
                    # container and index arguments of the extractor
                    idx_pos = [i for i in range(1, eb.arg_count + 1) if eb.local_ty(i) == 'usize']
                    cont_pos = [i for i in range(1, eb.arg_count + 1) if P.node_vec_ty(p, eb.local_ty(i))]
                    if not idx_pos:
                        verdicts.append((False, 'extractor has no index parameter'))
                        continue
                    idx = c[2][idx_pos[0] - 1]
                    if cont_pos:
                        cont = c[2][cont_pos[0] - 1]
                    else:
                        cname = list(p['containers'].keys())[0]
                        cont = T(('field', T(('param', 1, 'self')), cname))
                    verdicts.append(_terminal_ok(ctx, p, fn, ob, cont, idx, gqs))
                # a path made of two extracted branches ends with the branch of the goal-rooted container
                if len(calls) == 1:
                    ok, why = verdicts[0]
                else:
                    good = [v for v in verdicts if v[0]]
                    ok = bool(good)
                    why = '; '.join(v[1] for v in verdicts if not v[0])
            # the branch that ends the path is used whole: an adaptor that can drop elements between the extraction and the
            # returned vector (`take(n)`, `take_while`, `filter`, `step_by`, ..) may cut off the goal-satisfying end of the branch
            cut = sorted({n[1].rsplit('::', 1)[-1] for n in walk(val) if n[0] == 'call' and n[1].rsplit('::', 1)[-1] in CUTTERS and
                          n[1].startswith(('std::iter::', 'core::iter::', 'std::vec::', 'std::slice::', 'core::slice::'))})
            if ok and calls and cut:
                ok = False
                why = 'the returned path is passed through %s after the extraction: the end of the branch (the node the goal query was made on) can be cut off' % ', '.join(cut)
            r_goal.inst('%s: Ok at %s ends in a goal-satisfying node' % (b.path, fn.loc(ob, osi)), ok=ok, site=fn.loc(ob, osi))
            if not ok:
                r_goal.violations.append(Violation('C02', 'C02.goal', b.path, 'ok-return', why, loc=fn.loc(ob, osi), ordinal=o))


def _terminal_ok(ctx, p, fn, ob, cont, idx, gqs):
    if not idx:
        # every definition that reaches the extractor's index here is a literal of another variant (`Ok(None)` on the copy of
        # the path where the search came back empty): this Ok return cannot be taken on this copy
        return True, ''
    sfs = {c['state_field'] for c in p['containers'].values()}
    sf = list(sfs)[0]
    # (1) container rooted at a goal sample: the walk ends there (sample_goal contract)
    cnames = {n[2] for n in cont if n[0] == 'field'}
    for pu in P.pushes(ctx, p):
        if pu['in_setup'] and {n[2] for n in pu['cont'] if n[0] == 'field'} == cnames and cnames:
            st = P.node_field(pu['node'], pu['cinfo']['state_field'])
            if st is not None and is_goal_sample_origin(st):
                return True, ''
    # (2) goal query on the terminal node state dominates the Ok
    term_state = P.norm_state(ctx, p, fn, P.node_state_term(cont, idx, sf))
    for q in gqs:
        if q['fn'] is not fn:
            continue
        qs = P.norm_state(ctx, p, fn, q['state'])
        if qs == term_state and P.guarded(fn, ob, q['true_edges']):
            return True, ''
        # same index, container merged over correlated definitions (tree_a): accept when the containers overlap
        if len(qs) == 1 and len(term_state) == 1:
            a, c = next(iter(qs)), next(iter(term_state))
            if a[0] == 'field' and c[0] == 'field' and len(a[1]) == 1 and len(c[1]) == 1:
                ia, ic = next(iter(a[1])), next(iter(c[1]))
                if ia[0] == 'index' and ic[0] == 'index' and ia[2] == ic[2] and ic[1] <= ia[1] and P.guarded(fn, ob, q['true_edges']):
                    # the query was made on a container chosen among several (tree_a): the Ok must also be guarded
                    # by the flag value of the arm in which that container is the one handed to path extraction
                    if _flag_selects(fn, ob, ic[1]):
                        return True, ''
                    return False, 'the goal was tested on a node of %s but the path is extracted from %s without the selecting flag' % (
                        fmt_terms(ia[1])[:60], fmt_terms(ic[1])[:40])
    # (3) index taken from a list of goal-satisfying milestones: idx = unwrap(Some(cur)) set under contains(L, cur)
    cands = []
    for n in idx:
        if n[0] == 'unwrap':
            for m in n[1]:
                if m[0] == 'agg' and m[2] == 'Some':
                    cands.append((m[3][0][1], n[1]))
    for li in range(len(fn.b.locals)):
        if not fn.b.local_ty(li).startswith('std::option::Option<usize>'):
            continue
        lt = fn.local_terms(li, (ob, 0))
        if any(m[0] == 'agg' and m[2] == 'Some' for m in lt) and fn._payload(lt, 'Some', 0) == idx:
            cands.append((idx, lt))
    cands.append((idx, None))          # the index itself is tested: `if goals.contains(&cur) { return Ok(extract(cur)) }`
    for (cur, inner0) in cands:
        n = ('unwrap', inner0)
        for sb in range(fn.nb):
            si = fn.switch_info(sb)
            if si is None or fn.blocks[sb]['cleanup']:
                continue
            terms, tmap, other = si
            if len(terms) != 1 or set(tmap.keys()) != {'0'}:
                continue
            c = next(iter(terms))
            if c[0] == 'index' and c[2] == cur and P.goal_mask_info(ctx, p, c[1]) == cont:
                # `is_goal[cur]` with is_goal[i] = goal.is_satisfied(CONT[i].state) for every milestone
                if inner0 is None:
                    if P.guarded(fn, ob, {(sb, other)}):
                        return True, ''
                    continue
                some_blocks = []
                for li in range(len(fn.b.locals)):
                    if not fn.b.local_ty(li).startswith('std::option::Option<usize>') or fn.local_terms(li, (ob, 0)) != inner0:
                        continue
                    lits, _oth = P.find_literals(fn, {'copy': {'l': li, 'p': []}}, (ob, 0), lambda rv: rv.get('variant_name') in ('Some', 'None'))
                    some_blocks += [lb for (lb, _lidx, lst) in lits if lst['rv']['variant_name'] == 'Some']
                if some_blocks and all(P.guarded(fn, sbk, {(sb, other)}) for sbk in some_blocks):
                    return True, ''
                continue
            if c[0] == 'call' and c[1].endswith('::contains') and len(c[2]) == 2 and c[2][1] == cur:
                cr = P.list_creations(c[2][0])
                if not cr:
                    continue
                allq = True
                for (pb, x, _t) in P.list_pushes(fn, cr):
                    want = P.norm_state(ctx, p, fn, P.node_state_term(cont, x, sf))
                    if not any(q['fn'] is fn and P.norm_state(ctx, p, fn, q['state']) == want and P.guarded(fn, pb, q['true_edges']) for q in gqs):
                        allq = False
                if inner0 is None:
                    if allq and P.guarded(fn, ob, {(sb, other)}):
                        return True, ''
                    continue
                # the Some(cur) definition that reaches the extractor is on the true edge of the membership test
                some_blocks = []
                inner = n[1]
                for li in range(len(fn.b.locals)):
                    if not fn.b.local_ty(li).startswith('std::option::Option<usize>'):
                        continue
                    if fn.local_terms(li, (ob, 0)) != inner:
                        continue
                    lits, _oth = P.find_literals(fn, {'copy': {'l': li, 'p': []}}, (ob, 0),
                                                 lambda rv: rv.get('variant_name') in ('Some', 'None'))
                    for (lb, lidx, lst) in lits:
                        if lst['rv']['variant_name'] == 'Some':
                            some_blocks.append(lb)
                if allq and some_blocks and all(P.guarded(fn, sbk, {(sb, other)}) for sbk in some_blocks):
                    return True, ''
    return False, 'no goal query on the terminal node %s dominates the Ok return' % fmt_terms(term_state)[:90]


def _flag_selects(fn, ob, cont):
    """some switch on component k of a tuple (c0, c1, .., flag) guards `ob` on the edge whose flag value belongs to the
    tuple definition whose component 0 is `cont`"""
    from .c16 import _operand_source
    want = {n[2] for n in cont if n[0] == 'field'}
    for sb in range(fn.nb):
        t = fn.blocks[sb]['term']
        if t['k'] != 'switch' or fn.blocks[sb]['cleanup']:
            continue
        pl = t['discr'].get('move') or t['discr'].get('copy')
        if pl is None:
            continue
        src = _operand_source(fn, pl, sb)
        if not src[1] or not str(src[1][-1]).isdigit():
            continue
        k = int(src[1][-1])
        arms = []
        for e in fn.events(src[0]):
            if e.kind == 'assign' and not e.path and e.data['k'] == 'assign' and e.data['rv']['k'] == 'agg' and e.data['rv']['agg'] == 'tuple':
                rv = e.data['rv']
                if k >= len(rv['fields']):
                    continue
                fl = fn.op_terms(rv['fields'][k], (e.block, e.idx))
                c0 = fn.op_terms(rv['fields'][0], (e.block, e.idx), mut_kills=False)
                if len(fl) == 1 and next(iter(fl))[0] == 'const':
                    arms.append((next(iter(fl))[1], {n[2] for n in c0 if n[0] == 'field'}))
        if len(arms) < 2:
            continue
        good_vals = {v for (v, names) in arms if names == want}
        bad_vals = {v for (v, names) in arms if names != want}
        if not good_vals or (good_vals & bad_vals):
            continue
        tmap = {v: tg for v, tg in t['targets']}
        for v in good_vals:
            key = '1' if v == 'true' else '0'
            tgt = tmap.get(key, t['otherwise'])
            if P.guarded(fn, ob, {(sb, tgt)}):
                return True
    return False


SHRINKERS = ('clear', 'truncate', 'pop', 'drain', 'retain', 'remove', 'swap_remove', 'split_off', 'dedup', 'take')


def _body_nonempty(ctx, b):
    """the vector of states the body builds has at least one element (shapes (a)-(c) below)"""
    if True:
        fn = ctx.fn(b)
        ok = False
        # (a) a non-empty literal vec![x]
        for bi, blk in enumerate(b.blocks):
            if blk['cleanup']:
                continue
            for st in blk['stmts']:
                if st['k'] == 'assign' and st['rv']['k'] == 'agg' and st['rv'].get('agg') == 'array' and st['rv'].get('ty') == 'S' and st['rv']['fields']:
                    if bi in fn.dominators().get(fn.return_blocks()[0], set()) or True:
                        ok = True
        # (b) the walk loop is entered with Some(index): the cursor's definition reaching the header from outside is Some
        if not ok:
            for L in fn.loops():
                h = L['header']
                # the discriminant switch of the cursor
                for (src, dst) in L['exits']:
                    t = fn.blocks[src]['term']
                    if t['k'] != 'switch':
                        continue
                    pl = t['discr'].get('move') or t['discr'].get('copy')
                    if pl is None:
                        continue
                    # find the local whose discriminant is read
                    for st in fn.blocks[src]['stmts']:
                        if st['k'] == 'assign' and st['place']['l'] == pl['l'] and st['rv']['k'] == 'discr':
                            cur = st['rv']['place']['l']
                            # definitions of the cursor outside the loop
                            outside = [e for e in fn.events(cur) if e.block not in L['body']]
                            if outside and all(e.kind == 'assign' and e.data['rv']['k'] == 'agg' and
                                               e.data['rv'].get('variant_name') == 'Some' for e in outside):
                                # and a push happens in the loop body on the Some edge
                                if any(t2['func'].get('path') == VEC_PUSH for bi2, t2 in b.calls() if bi2 in L['body']):
                                    ok = True
        # (c) the states are collected from `successors(Some(i), ..)` (its first item is i whatever the closure says),
        #     mapped one to one (map / rev / cloned keep the count)
        if not ok:
            for bi, t in b.calls():
                if t['func'].get('path') != 'std::iter::Iterator::collect' or not t['args']:
                    continue
                src = fn.arg_terms(t, 0, bi)
                for _ in range(6):
                    if len(src) != 1:
                        break
                    q = next(iter(src))
                    if q[0] == 'call' and q[1].rsplit('::', 1)[-1] in ('map', 'rev', 'cloned', 'copied', 'into_iter', 'inspect', 'enumerate') and q[2]:
                        src = q[2][0]
                        continue
                    if q[0] == 'call' and q[1] == 'std::iter::successors' and q[2] and q[2][0] and \
                            all(x[0] == 'agg' and x[2] == 'Some' for x in q[2][0]):
                        ok = True
                    break
        return ok


def _nonempty(ctx, p, r_ne):
    for path, b in _extractors(p).items():
        why = 'cannot show that the extracted path has at least one state'
        ok = _body_nonempty(ctx, b)
        # (d) the walk lives in one helper of the planner that returns the vector of states; the extractor only reorders it
        if not ok:
            helpers = [ctx.core.body(t['func'].get('path') or '') for _, t in b.calls()]
            helpers = [h for h in helpers if h is not None and h in p['methods'] and 'Vec<' in (h.j.get('ret_ty') or '')]
            shrinks = [t for _, t in b.calls() if (t['func'].get('path') or '').rsplit('::', 1)[-1] in SHRINKERS]
            if len(helpers) == 1 and not shrinks and not ctx.fn(b).loops() and _body_nonempty(ctx, helpers[0]):
                ok = True
        r_ne.inst('%s returns a non-empty path' % path, ok=ok, site=b.loc(0))
        if not ok:
            r_ne.violations.append(Violation('C02', 'C02.nonempty', path, 'empty', why, loc=b.loc(0)))
