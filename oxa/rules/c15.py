"""C15 — search trees are well-formed after every iteration (structural half of the inductive invariant).

C15.range     a parent index written at push time is an index of the same container obtained before the push
              (scan induction variable, neighbour-list element, constant 0) => parent < child
C15.noremove  outside setup/new, nodes are never removed, reordered or replaced in a node container
C15.frozen    a node's state is never written after insertion
C15.acyclic   re-parenting an existing node is guarded by a strict `<` between the cost through the new parent
              (as computed by the planner's cost function on (node, new parent)) and the node's recorded cost
C15.walk      path extraction follows the parent link only and stops at the parentless node
Every node / edge additionally obeys C01.admit, C03.link, C05 (those rules range over all container writes).
"""
from ..core import RuleResult, Violation, VEC_LEN, user_call
from ..engine import walk, fmt_terms, strip_clone, T
from .. import planner as P
from .c12 import cmp_facts, relation_for

META = {
    'explanation': 'C15: the tree invariant is an invariant of each write, so it is decided for every reachable tree: '
                   'parent indices at push time come from a scan of the same container made before the push; the only '
                   'write that can point a node at a later node (rewiring) is guarded by a strict cost improvement '
                   'computed on (node, new parent); containers only grow outside setup; node states are immutable; path '
                   'extraction walks parent links to the parentless node. Validity / resolution / step bound of every '
                   'node and edge are C01.admit / C03.link / C05, which already range over all writes.',
    'assumptions': ['cost = parent.cost + distance >= parent.cost (distance non-negative, C09 not decided)',
                    'C17.cost: recorded cost is written only together with the parent link'],
}

REMOVERS = ('clear', 'pop', 'remove', 'swap_remove', 'truncate', 'drain', 'insert', 'retain', 'retain_mut',
            'split_off', 'dedup', 'dedup_by', 'dedup_by_key', 'sort', 'sort_by', 'sort_by_key', 'sort_unstable',
            'sort_unstable_by', 'reverse', 'swap', 'rotate_left', 'rotate_right', 'append', 'splice', 'resize',
            'resize_with', 'set_len', 'extend_from_within', 'fill')
MEM_FNS = ('std::mem::take', 'std::mem::replace', 'std::mem::swap')


def index_in_range(ctx, p, fn, cont, idx, push_block, depth=0):
    """is every node of idx an index < len(cont) at the time of the push?  returns (ok, why)"""
    for n in idx:
        one = T(n)
        if n[0] == 'const':
            if n[1] != '0':
                return False, 'constant parent index %s' % n[1]
            continue   # index 0 exists: the root pushed by setup (C02.reroot) is never removed (C15.noremove)
        am = P.argmin_info(ctx, one)
        if am is not None and am['comp'] == am['idx_comp'] and am['cont'] == cont:
            continue   # the index component of an arg-min over enumerate(iter(cont)): an existing index
        src = P.iter_source(one)
        if src is None:
            # enumerate element: field(unwrap(next(enumerate(iter(cont)))), '0')
            if n[0] == 'field' and n[2] == '0':
                src = P.iter_source(n[1])
                if src is not None and len(src) == 1:
                    q = next(iter(src))
                    # skip(enumerate(iter(cont)), k) / enumerate(iter(cont))
                    while q[0] == 'call' and q[1] in ('std::iter::Iterator::skip', 'std::iter::Iterator::enumerate',
                                                     'core::slice::<impl [T]>::iter', 'std::iter::Iterator::take') and q[2] and len(q[2][0]) == 1:
                        inner = q[2][0]
                        if inner == cont:
                            break
                        q = next(iter(inner))
                    if q[0] in ('param', 'field') and T(q) == cont or (q[0] == 'call' and q[2] and q[2][0] == cont):
                        continue
            return False, 'parent index %s is not obtained from a scan of the container' % fmt_terms(one)[:80]
        if len(src) == 1:
            q = next(iter(src))
            if q[0] == 'agg' and q[1] == 'std::ops::Range':
                d = dict(q[3])
                end = d.get('end')
                if end and all(e[0] == 'call' and e[1] == VEC_LEN and e[2][0] == cont for e in end):
                    continue
                return False, 'scan range end %s is not len() of the same container' % fmt_terms(end or frozenset())[:60]
            if q[0] == 'call':
                # neighbour list from a helper: its pushed values must be in range inside the helper
                cb = ctx.core.body(q[1])
                if cb is not None and depth < 2:
                    cfn = ctx.fn(cb)
                    rt = set()
                    for rb in cfn.return_blocks():
                        rt |= cfn.local_terms(0, (rb, cfn.nstmts(rb)))
                    cr = P.list_creations(frozenset(rt))
                    if cr:
                        okall = True
                        for (pb, x, _t) in P.list_pushes(cfn, cr):
                            # container inside the helper: self.<name> with the same field name
                            names = [c[2] for c in cont if c[0] == 'field']
                            hc = T(('field', T(('param', 1, 'self')), names[0])) if names else cont
                            ok2, why2 = index_in_range(ctx, p, cfn, hc, x, pb, depth + 1)
                            if not ok2:
                                return False, 'neighbour helper %s: %s' % (q[1], why2)
                        if okall:
                            continue
        cr = P.list_creations(src)
        if cr:
            ok = True
            for (pb, x, _t) in P.list_pushes(fn, cr):
                ok2, why2 = index_in_range(ctx, p, fn, cont, x, pb, depth + 1)
                if not ok2:
                    return False, why2
            continue
        return False, 'parent index %s is not obtained from a scan of the container' % fmt_terms(one)[:80]
    return True, ''


def run(ctx, tier):
    r_range = RuleResult('C15.range', 'parent indices written at push time index existing nodes of the same container')
    r_norm = RuleResult('C15.noremove', 'outside setup/new node containers only grow')
    r_frozen = RuleResult('C15.frozen', 'node states are never written after insertion')
    r_acyc = RuleResult('C15.acyclic', 're-parenting is guarded by a strict cost improvement computed on (node, new parent)')
    r_walk = RuleResult('C15.walk', 'path extraction follows parent links only and stops at the parentless node')
    planners = [p for p in ctx.planners()]
    tree_planners = [p for p in planners if any(any('parent' in l for l in c['links']) for c in p['containers'].values())]
    if len(tree_planners) < 3:
        r_range.violations.append(Violation('C15', 'C15.range', 'oxmpl', 'floor', 'only %d tree planners (floor 3)' % len(tree_planners)))
    for p in planners:
        is_tree = p in tree_planners
        links, problems = P.collect_links(ctx, p)
        if is_tree:
            n_push = 0
            for L in links:
                fn, b = L['fn'], L['body']
                if L['kind'] == 'push-parent':
                    n_push += 1
                    for (db, idx) in L['defs']:
                        ok, why = index_in_range(ctx, p, fn, L['cont'], idx, L['block'])
                        r_range.inst('%s: parent %s of node pushed at %s is an existing index' % (b.path, fmt_terms(idx)[:60], b.loc(L['block'])),
                                     ok=ok, site=b.loc(L['block']))
                        if not ok:
                            r_range.violations.append(Violation('C15', 'C15.range', b.path, 'parent-index', why, loc=b.loc(L['block'])))
                elif L['kind'] == 'rewire':
                    _acyclic(ctx, p, L, r_acyc, r_range)
            if n_push < 1:
                r_range.violations.append(Violation('C15', 'C15.range', p['adt'], 'floor', 'no parent link written at push time in %s' % p['name']))
            for (b, bi, msg) in problems:
                r_range.violations.append(Violation('C15', 'C15.range', b.path, 'shape', msg + ' (unrecognised shape)', loc=b.loc(bi)))

        # ---------------------------------------------------------------- noremove / frozen
        n_calls = 0
        for b in P.planner_bodies(p):
            if b.name in ('setup', 'new') and b.kind == 'AssocFn':
                continue
            fn = ctx.fn(b)
            ordn = 0
            for bi, t in b.calls():
                path = t['func'].get('path', '')
                if not t['args'] or not user_call(b, bi):
                    continue
                a0 = t['args'][0]
                pl = a0.get('move') or a0.get('copy')
                if pl is None:
                    continue
                ty = b.local_ty(pl['l'])
                name = path.rsplit('::', 1)[-1]
                is_mut = ty.startswith('&mut ')
                cinfo = P.node_vec_ty(p, ty)
                if cinfo is not None and is_mut:
                    n_calls += 1
                    bad = name in REMOVERS or path in MEM_FNS
                    if bad:
                        r_norm.violations.append(Violation(
                            'C15', 'C15.noremove', b.path, name,
                            'node container is modified by %s outside setup: nodes may be removed, reordered or replaced' % path,
                            loc=b.loc(bi), ordinal=ordn))
                        ordn += 1
                # &mut to a node state handed to a call
                if is_mut and ty in ('&mut S',):
                    idt = fn.place_terms(pl, (bi, fn.nstmts(bi)), mut_kills=False)
                    sfields = {c['state_field'] for c in p['containers'].values()}
                    if any(n[0] == 'field' and n[2] in sfields and any(m[0] == 'index' for m in n[1]) for n in idt):
                        r_frozen.violations.append(Violation('C15', 'C15.frozen', b.path, name,
                                                             'a stored node state is passed by &mut to %s' % path, loc=b.loc(bi)))
            # whole-container assignment  (*self).tree = ...
            for bi, blk in enumerate(b.blocks):
                if blk['cleanup']:
                    continue
                for si, st in enumerate(blk['stmts']):
                    if st['k'] != 'assign':
                        continue
                    pl = st['place']
                    names = [e.get('name') for e in pl['p'] if isinstance(e, dict) and 'f' in e]
                    if pl['l'] == 1 and len(names) == 1 and names[0] in p['containers'] and any(e == 'deref' for e in pl['p']):
                        r_norm.violations.append(Violation('C15', 'C15.noremove', b.path, 'assign:' + names[0],
                                                           'node container self.%s is replaced outside setup' % names[0], loc=b.loc(bi, si)))
        for stw in P.stores_to_node_field(ctx, p):
            c = [c for c in p['containers'].values()]
            if stw['field'] in {x['state_field'] for x in c}:
                r_frozen.violations.append(Violation('C15', 'C15.frozen', stw['body'].path, stw['field'],
                                                     'the state of an inserted node is overwritten', loc=stw['body'].loc(stw['block'], stw['idx'])))
        r_norm.inst('%s: %d mutable uses of node containers outside setup are growth-only' % (p['name'], n_calls),
                    ok=not [v for v in r_norm.violations if p['module'] in v.fn], nontrivial=True)
        r_frozen.inst('%s: no write to a stored node state' % p['name'],
                      ok=not [v for v in r_frozen.violations if p['module'] in v.fn])

        # ---------------------------------------------------------------- walk
        if is_tree:
            _walk(ctx, p, r_walk)
    return [r_range, r_norm, r_frozen, r_acyc, r_walk]


def _acyclic(ctx, p, L, r_acyc, r_range):
    fn, b = L['fn'], L['body']
    cinfo = L['cinfo']
    cost_fields = [l for l in cinfo['links'] if 'parent' not in l]
    J = L['J']
    cont = L['cont']
    # the rewired node's recorded cost:  cont[J].<cost>
    if not cost_fields:
        r_acyc.violations.append(Violation('C15', 'C15.acyclic', b.path, 'no-cost',
                                           'an existing node is re-parented in a planner without a recorded cost (cannot rule out cycles)', loc=b.loc(L['block'])))
        return
    cf = cost_fields[0]
    recorded = T(('field', T(('index', cont, J)), cf))
    facts = cmp_facts(fn, L['block'])
    ok = False
    why = 'no strict comparison against the node\'s recorded cost dominates the re-parenting'
    for (a, c, rel, _blk) in facts:
        for (x, y, r) in ((a, c, rel), (c, a, {{'lt': 'gt', 'gt': 'lt', 'eq': 'eq', 'un': 'un'}[q] for q in rel})):
            if strip_clone(y) != recorded:
                continue
            # x must be the cost function applied to (this node, the new parent)
            if not r <= {'lt'}:
                why = 'the cost test accepts relation %s (must be strictly less: equal-cost re-parenting can close a cycle)' % sorted(r)
                continue
            good = True
            sfs = [c_['state_field'] for c_ in p['containers'].values()]
            for xn in x:
                child = parent = None
                if xn[0] == 'call' and ctx.core.body(xn[1]) is not None:
                    args = xn[2]
                    # find (child, parent) node arguments: container elements
                    nodes = [a_ for a_ in args if a_ and all(m[0] == 'index' for m in a_)]
                    if len(nodes) == 2:
                        child, parent = nodes[0], nodes[1]
                if child is None:
                    # the cost expression written inline, or through a helper that takes states and the parent's cost
                    pairs = P.cost_pairs(ctx, p, T(xn), cf, sfs[0]) if sfs else None
                    if pairs and len(pairs) == 1:
                        child, parent = pairs[0]
                if child is None:
                    good = False
                    why = 'the compared value %s is not cost(node, new parent) = parent.%s + distance(node, parent)' % (fmt_terms(T(xn))[:60], cf)
                    break
                exp_child = T(('index', cont, J))
                parents_ok = all(any(child == exp_child and parent == T(('index', cont, idx)) for (_db, idx) in L['defs']) for _ in [0])
                if not parents_ok:
                    good = False
                    why = 'the cost compared is not cost(re-parented node, new parent): got cost(%s, %s)' % (
                        fmt_terms(child)[:50], fmt_terms(parent)[:50])
                    break
            if good:
                ok = True
    r_acyc.inst('%s: re-parenting at %s requires cost(node, new parent) < node.%s' % (b.path, b.loc(L['block']), cf), ok=ok, site=b.loc(L['block']))
    if not ok:
        r_acyc.violations.append(Violation('C15', 'C15.acyclic', b.path, 'rewire', why, loc=b.loc(L['block'])))
    # range: new parent index is a just-pushed node or an existing index
    for (db, idx) in L['defs']:
        pu = P.pushed_node_for_index(ctx, p, fn, cont, idx)
        ok2 = pu is not None
        if not ok2:
            ok2, _w = index_in_range(ctx, p, fn, cont, idx, L['block'])
        r_range.inst('%s: new parent %s of re-parented node is an existing index' % (b.path, fmt_terms(idx)[:50]), ok=ok2, site=b.loc(L['block']))
        if not ok2:
            r_range.violations.append(Violation('C15', 'C15.range', b.path, 'rewire-parent', 'new parent index is not an existing node index', loc=b.loc(L['block'])))
    okj, whyj = index_in_range(ctx, p, fn, cont, J, L['block'])
    r_range.inst('%s: re-parented node index %s is an existing index' % (b.path, fmt_terms(J)[:50]), ok=okj, site=b.loc(L['block']))
    if not okj:
        r_range.violations.append(Violation('C15', 'C15.range', b.path, 'rewire-node', whyj, loc=b.loc(L['block'])))


def _walk_successors(ctx, p, b, fn, parent_fields):
    """the lazy form of the walk:  successors(Some(start), |&i| CONT[i].<parent>).map(|i| CONT[i].<state>.clone()).collect()
    (successors stops at the first None, i.e. at the parentless node).  Returns the list of problems, or None when the
    function does not have this shape."""
    sfs = {c['state_field'] for c in p['containers'].values()}
    for bi, t in b.calls():
        if t['func'].get('path') != 'std::iter::Iterator::collect' or not t['args']:
            continue
        src = fn.arg_terms(t, 0, bi)
        maps = []
        succ = None
        for _ in range(6):
            if len(src) != 1:
                break
            q = next(iter(src))
            if q[0] == 'call' and q[1] == 'std::iter::Iterator::map' and len(q[2]) == 2:
                maps.append(q[2][1])
                src = q[2][0]
                continue
            if q[0] == 'call' and q[1].rsplit('::', 1)[-1] in ('rev', 'into_iter', 'inspect') and q[2]:
                src = q[2][0]
                continue
            if q[0] == 'call' and q[1] == 'std::iter::successors' and len(q[2]) == 2:
                succ = q
            break
        if succ is None:
            continue
        probs = []
        seed, step = succ[2][0], succ[2][1]
        if not (seed and all(x[0] == 'agg' and x[2] == 'Some' and x[3] and all(y[0] == 'param' for y in x[3][0][1]) for x in seed)):
            probs.append('the walk does not start at the node index handed to path extraction: %s' % fmt_terms(seed)[:60])

        def closure_ret(cl):
            if len(cl) != 1 or next(iter(cl))[0] != 'closure':
                return None, None
            cb = ctx.core.body(next(iter(cl))[1])
            if cb is None or cb.arg_count != 2:
                return None, None
            cf = ctx.fn(cb)
            out = set()
            for rb in cf.return_blocks():
                out |= cf.local_terms(0, (rb, cf.nstmts(rb)))
            return out, next(iter(cl))[2]

        def node_read(n, field_names, caps):
            # CONT[<closure argument>].<field> with CONT a node container of the planner reached through the captured self
            if not (n[0] == 'field' and n[2] in field_names and len(n[1]) == 1):
                return False
            ix = next(iter(n[1]))
            if ix[0] != 'index' or not (ix[2] and all(a[0] == 'param' and a[1] == 2 for a in ix[2])):
                return False
            def is_env(e):
                return e[0] == 'field' and e[2].isdigit() and int(e[2]) < len(caps) and all(z[0] == 'param' and z[1] == 1 for z in e[1])

            def is_cont_terms(ts):
                # self.<container> of the extractor, or (in a helper working on a node slice) a parameter of node-vector type
                return bool(ts) and all((w[0] == 'field' and w[2] in p['containers'] and all(z[0] == 'param' and z[1] == 1 for z in w[1])) or
                                        (w[0] == 'param' and P.node_vec_ty(p, b.local_ty(w[1]))) for w in ts)
            for c in ix[1]:
                if is_env(c) and is_cont_terms(caps[int(c[2])]):
                    continue                    # the closure captured the container (a slice of nodes) itself
                if c[0] == 'field' and c[2] in p['containers'] and c[1] and all(
                        is_env(e) and all(w[0] == 'param' and w[1] == 1 for w in caps[int(e[2])]) for e in c[1]):
                    continue                    # the closure captured self
                return False
            return True
        r1, caps1 = closure_ret(step)
        if r1 is None or not r1 or not all(node_read(n, parent_fields, caps1) for n in r1):
            probs.append('the successor function is not the parent link of the current node: %s' % (fmt_terms(frozenset(r1 or ()))[:80]))
        if len(maps) != 1:
            probs.append('the walked indices are not mapped to node states by exactly one map (unrecognised shape)')
        else:
            r2, caps2 = closure_ret(maps[0])
            ok2 = r2 is not None and r2 and all(n[0] == 'clone' and n[1] and all(node_read(m, sfs, caps2) for m in n[1]) for n in r2)
            if not ok2:
                probs.append('the states put on the path are not the states of the walked nodes: %s' % fmt_terms(frozenset(r2 or ()))[:80])
        return probs
    return None


def _walk(ctx, p, r_walk):
    n = 0
    parent_fields = set()
    for c in p['containers'].values():
        parent_fields |= {l for l in c['links'] if 'parent' in l}
    for b in p['methods']:
        if not b.j.get('ret_ty', '').startswith('base::planner::Path<') or b.impl_trait:
            continue
        fn = ctx.fn(b)
        n += 1
        sp = _walk_successors(ctx, p, b, fn, parent_fields)
        if sp is not None:
            r_walk.inst('%s walks parent links to the parentless node (std::iter::successors over the parent link)' % b.path, ok=not sp, site=b.loc(0))
            for o, pr in enumerate(sp):
                r_walk.violations.append(Violation('C15', 'C15.walk', b.path, 'walk', pr, loc=b.loc(0), ordinal=o))
            continue
        # every index used to read a node state in this function
        probs = []
        idx_sets = []
        seen_idx = set()

        def is_cont(ts):
            if not ts:
                return False
            for c in ts:
                if c[0] == 'field' and c[2] in p['containers'] and all(q[0] == 'param' and q[1] == 1 for q in c[1]):
                    continue
                if c[0] == 'param' and P.node_vec_ty(p, b.local_ty(c[1])):
                    continue
                return False
            return True

        def collect(ts, bi):
            for nd in walk(ts):
                if nd[0] == 'index' and is_cont(nd[1]) and (nd[1], nd[2]) not in seen_idx:
                    seen_idx.add((nd[1], nd[2]))
                    idx_sets.append((bi, nd[1], nd[2]))

        for bi, t in b.calls():
            for j in range(len(t['args'])):
                collect(fn.arg_terms(t, j, bi), bi)
        for bi, blk in enumerate(b.blocks):
            if blk['cleanup']:
                continue
            for si, st in enumerate(blk['stmts']):
                if st['k'] == 'assign':
                    collect(fn.rvalue_terms(st['rv'], (bi, si)), bi)
        if not idx_sets:
            probs.append('no node is read (unrecognised shape)')
        for (bi, cont, idx) in idx_sets:
            for nd in idx:
                # allowed: a parameter (the start of the walk) or unwrap(<cursor>) where the cursor is
                # Some(param) | cont[unwrap(cursor)].parent
                m = nd
                if m[0] == 'unwrap':
                    ok = True
                    for q in m[1]:
                        if q[0] == 'agg' and q[2] == 'Some' and all(x[0] == 'param' for x in q[3][0][1]):
                            continue
                        if q[0] == 'field' and q[2] in parent_fields and all(x[0] == 'index' and x[1] == cont for x in q[1]):
                            continue
                        if q[0] == 'rec':
                            continue
                        ok = False
                    if not ok:
                        probs.append('walk cursor at %s has origin %s (not the parent link)' % (b.loc(bi), fmt_terms(T(m))[:80]))
                elif m[0] in ('param', 'rec'):
                    continue
                else:
                    probs.append('node index at %s has origin %s (not the parent link)' % (b.loc(bi), fmt_terms(T(m))[:80]))
        # the loop exits on the None discriminant of the cursor
        loops = fn.loops()
        exits_ok = False
        for L in loops:
            for (src, dst) in L['exits']:
                si = fn.switch_info(src)
                if si is None:
                    continue
                terms, tmap, other = si
                if terms and all(nn[0] == 'discr' for nn in terms):
                    exits_ok = True
        if loops and not exits_ok:
            probs.append('the walk does not stop on a parentless node (no exit on the None discriminant)')
        if not loops:
            probs.append('no walk loop found (unrecognised shape)')
        r_walk.inst('%s walks parent links to the parentless node' % b.path, ok=not probs, site=b.loc(0))
        for o, pr in enumerate(probs):
            r_walk.violations.append(Violation('C15', 'C15.walk', b.path, 'walk', pr, loc=b.loc(0), ordinal=o))
    if n < 1:
        r_walk.violations.append(Violation('C15', 'C15.walk', p['adt'], 'floor', 'no path extraction function in %s' % p['name']))
