"""C04 — returned paths stay within the state-space bounds (PARTIAL: the two structural premises).

The planners never consult the bounds; the guarantee rests on two facts that are visible in the code:

C04.source   every state a planner stores in a tree / roadmap node is a start state, a goal sample, a uniform sample,
             an existing node's state, or the output of `interpolate(A, B, t)` between such states (by induction every
             stored state is then a point of the geodesic hull of in-bounds states; 0 <= t <= 1 is C05.steer); nothing
             else (no arithmetic on states, no state from elsewhere) enters a node.
C04.convex   the admissible region of each primitive space is closed under that space's own interpolation:
               box  (bounds: Vec<(f64,f64)>)   out_i = from_i + (to_i - from_i) * t component-wise: a box is convex - the
                                                interpolation construction itself is checked;
               arc  (bounds: (f64,f64), angle)  interpolation follows the SHORT arc (C10.arc): an interval is closed under
                                                it only if it is the whole circle or spans at most pi - the constructor
                                                must guarantee `upper - lower <= pi` for partial intervals;
               cone (bounds: (rotation, f64))   geodesic interpolation: a cone is closed under it only if it is all of
                                                SO(3) or its radius is at most pi/2 - the constructor must guarantee it;
             compound / SE(2) / SE(3) regions are products of their components' regions (C13).

A region that is not closed under interpolation contains two in-bounds states whose interpolation leaves the bounds, and
since the planners store such interpolations without looking at the bounds (C04.source) a returned path can contain
them: C04.convex is a necessary condition.  Not decided: that uniform / goal samples are in bounds (C11 / the property's
premise) and floating-point rounding at the boundary."""
import math

from ..core import RuleResult, Violation, SAMPLE_GOAL, SAMPLE_UNIFORM, INTERPOLATE
from ..engine import walk, fmt_terms, strip_clone, T
from .. import planner as P
from .c11 import space_methods, self_field, bound_reads
from .c12 import space_adts, cmp_facts, const_float, ok_blocks

META = {
    'explanation': 'C04 (partial): (source) every state stored in a node is a start state, a sample, a node state or an '
                   'interpolate() output between such states - nothing else enters a tree or roadmap; (convex) the admissible '
                   'region of each primitive space is closed under its own interpolation: boxes always (the affine '
                   'construction is checked), angular intervals only when the constructor bounds their span by pi, rotation '
                   'cones only when it bounds the radius by pi/2. Necessary conditions of the property; sampling in bounds is '
                   'C11, floating-point rounding at the boundary is not decided.',
    'assumptions': ['goal samples lie within the bounds (premise of the property)', 'uniform samples lie within the bounds (C11)',
                    'interpolate(a, b, t) lies on the geodesic between a and b for 0 <= t <= 1 (C10, C05.steer)'],
}


def _allowed(ctx, p, fn, b, ts, depth=0):
    """(ok, offending description) for the origin of a stored state"""
    sfields = {c['state_field'] for c in p['containers'].values()}
    cnames = set(p['containers'])
    for n in strip_clone(ts):
        k = n[0]
        if k == 'clone':
            ok, why = _allowed(ctx, p, fn, b, n[1], depth)
            if not ok:
                return ok, why
            continue
        if P.is_start_origin(T(n)):
            continue
        if k == 'unwrap' and n[1] and all(m[0] == 'call' and m[1] in (SAMPLE_GOAL, SAMPLE_UNIFORM) for m in n[1]):
            continue
        if k == 'out' and n[1].endswith('::enforce_bounds'):
            continue            # in bounds by C11 whatever went in
        if k == 'out' and n[1] == INTERPOLATE and len(n[3]) >= 4:
            for side in (n[3][1], n[3][2]):
                ok, why = _allowed(ctx, p, fn, b, side, depth)
                if not ok:
                    return ok, why
            # the output buffer's previous content is overwritten by interpolate; nothing to check
            continue
        if k == 'field' and n[2] in sfields:
            # state of a node: an element of a container, or a node value (literal / parameter of node type)
            inner_ok = True
            for m in n[1]:
                if m[0] == 'index':
                    continue
                if m[0] == 'field' and m[2] == '1':
                    if P.enumerate_base(m[1]) is not None:
                        continue
                if m[0] == 'unwrap' and P.iter_source(T(m)) is not None:
                    continue
                if m[0] == 'agg':
                    st = dict(m[3]).get(n[2])
                    if st is not None:
                        ok, why = _allowed(ctx, p, fn, b, st, depth)
                        if ok:
                            continue
                        return ok, why
                if m[0] == 'param' and P.node_vec_ty(p, b.local_ty(m[1])) is None:
                    # a node handed to a helper: nodes only ever come out of the containers
                    continue
                inner_ok = False
            if inner_ok:
                continue
            return False, fmt_terms(T(n))[:70]
        if k == 'param' and depth < 3:
            # a state parameter of a helper: every call site must pass an allowed state
            pidx = n[1]
            sites = 0
            for cb in P.planner_bodies(p):
                cfn = ctx.fn(cb)
                for bi, t in cb.calls():
                    if t['func'].get('path') == b.path and pidx - 1 < len(t['args']):
                        sites += 1
                        ok, why = _allowed(ctx, p, cfn, cb, cfn.arg_terms(t, pidx - 1, bi), depth + 1)
                        if not ok:
                            return False, 'argument at %s: %s' % (cb.loc(bi), why)
            if sites:
                continue
            return False, 'parameter %s of %s has no call site in the planner' % (n[2] or pidx, b.path)
        if k == 'rec':
            continue
        return False, fmt_terms(T(n))[:70]
    return True, ''


def _source(ctx, r):
    planners = ctx.planners()
    n = 0
    for p in planners:
        for pu in P.pushes(ctx, p):
            fn, b, bi = pu['fn'], pu['body'], pu['block']
            st = P.node_field(pu['node'], pu['cinfo']['state_field'])
            n += 1
            if st is None:
                r.inst('%s: node pushed at %s' % (b.path, b.loc(bi)), ok=False, site=b.loc(bi))
                r.violations.append(Violation('C04', 'C04.source', b.path, 'literal', 'pushed node is not a struct literal (unrecognised shape)', loc=b.loc(bi)))
                continue
            ok, why = _allowed(ctx, p, fn, b, st)
            r.inst('%s: state stored at %s is a start / sample / node state / interpolation of such' % (b.path, b.loc(bi)), ok=ok, site=b.loc(bi))
            if not ok:
                r.violations.append(Violation('C04', 'C04.source', b.path, 'origin',
                                              'a state that is neither a start state, a sample, a node state nor an interpolation between such '
                                              'states is stored in a node: %s (nothing keeps it inside the bounds)' % why, loc=b.loc(bi)))
        # stored states are never modified afterwards
        for stw in P.stores_to_node_field(ctx, p):
            if stw['field'] in {c['state_field'] for c in p['containers'].values()}:
                r.violations.append(Violation('C04', 'C04.source', stw['body'].path, 'mutation', 'the state of an existing node is overwritten',
                                              loc=stw['body'].loc(stw['block'])))
    if n < 6:
        r.violations.append(Violation('C04', 'C04.source', 'oxmpl', 'floor', 'only %d node pushes found (floor 6)' % n))


def _affine(fn, b):
    """does interpolate store  from_i + (to_i - from_i) * t  (or the symmetric forms) for every written element?"""
    sp = [i for i in range(1, b.arg_count + 1) if b.local_ty(i).lstrip('&').lstrip("'_ ").startswith(('base::states', 'Self::StateType', 'Self'))]
    tpar = [i for i in range(1, b.arg_count + 1) if b.local_ty(i) == 'f64']
    hits = 0
    cands = []
    for bi, blk in enumerate(b.blocks):
        if blk['cleanup']:
            continue
        for si, st in enumerate(blk['stmts']):
            if st['k'] == 'assign' and st['rv']['k'] == 'binop' and st['rv']['op'] == 'Add':
                cands.append(fn.rvalue_terms(st['rv'], (bi, si)))
        t = blk['term']
        if t['k'] == 'call' and t['func'].get('path') == 'std::ops::Add::add':
            cands.append(fn.call_terms(t, bi))          # `a + b` on references to floats (normalised to a binop by the engine)

    def side(ts):
        """which state parameter an operand is an element of: directly (values[i]) or as a component of a zip element"""
        base = P.zip_elem_base(ts)
        src = base if base is not None else ts
        return {q[1] for q in walk(src) if q[0] == 'param'}
    for ts in cands:
        for n in ts:
            if n[0] != 'binop' or n[1] != 'Add':
                continue
            for (x, y) in ((n[2], n[3]), (n[3], n[2])):
                if len(y) != 1:
                    continue
                m = next(iter(y))
                if m[0] != 'binop' or m[1] != 'Mul':
                    continue
                for (d, tt) in ((m[2], m[3]), (m[3], m[2])):
                    if not (tt and all(q[0] == 'param' and q[1] in tpar for q in tt)) or len(d) != 1:
                        continue
                    dn = next(iter(d))
                    if dn[0] == 'binop' and dn[1] == 'Sub' and strip_clone(dn[3]) == strip_clone(x):
                        pa, pb_ = side(x), side(dn[2])
                        if pa and pb_ and pa != pb_:
                            hits += 1
    return hits


def _affine_nf(ctx, ip):
    """every element interpolate stores has the normal form  from_k + t * to_k - t * from_k  (a convex combination for t in
    [0, 1]), by value numbering over polynomial normal forms (oxa/symval.py)"""
    try:
        from ..symval import Poly
        from ..symrules import analyze, opaque
        tpar = [i for i in range(1, ip.arg_count + 1) if ip.local_ty(i) == 'f64']
        outp = [i for i in range(1, ip.arg_count + 1) if ip.local_ty(i).startswith('&mut ')]
        ends = [i for i in range(2, ip.arg_count + 1) if i not in tpar and i not in outp]
        if len(tpar) != 1 or len(outp) != 1 or len(ends) != 2:
            return False
        res, _ = analyze(ctx, ip)
        outs = {k[2:]: v for k, v in res.items() if k[0] == 'out' and k[1] == outp[0]}
        if not outs or any(opaque(v) for v in outs.values()):
            return False
        t = Poly.atom(('leaf', tpar[0], ()))
        for path, v in outs.items():
            a, b = Poly.atom(('leaf', ends[0], path)), Poly.atom(('leaf', ends[1], path))
            if v != a + t * b - t * a:
                return False
        return True
    except Exception:       # noqa
        return False


def _cval(ts):
    """float value of a constant term (literals, PI, products / negations of constants), else None"""
    c = const_float(ts)
    if c is not None:
        return c
    if len(ts) != 1:
        return None
    n = next(iter(ts))
    if n[0] == 'binop' and n[1] in ('Mul', 'Add', 'Sub', 'Div'):
        a, b = _cval(n[2]), _cval(n[3])
        if a is None or b is None:
            return None
        try:
            return {'Mul': a * b, 'Add': a + b, 'Sub': a - b, 'Div': a / b}[n[1]]
        except ZeroDivisionError:
            return None
    if n[0] == 'unop' and n[1] == 'Neg':
        a = _cval(n[2])
        return -a if a is not None else None
    return None


def _arc_tie(ctx, ip):
    """the signed difference an angular interpolation scales by t is, whenever the raw difference of the two (canonical) angles
    lies within [-pi, pi], that raw difference itself: the only other values it may take are raw - 2 pi under `raw > pi` and
    raw + 2 pi under `raw < -pi`, both STRICT.  A wrap that also rewrites +pi or -pi (rem_euclid into [-pi, pi), `>=`) sends
    the motion between the two ends of a half-circle interval the other way round, out of the interval."""
    PI = math.pi
    fn = ctx.fn(ip)
    b = ip
    tpar = [i for i in range(1, b.arg_count + 1) if b.local_ty(i) == 'f64']
    scaled = []
    for bi, blk in enumerate(b.blocks):
        if blk['cleanup']:
            continue
        for si, st in enumerate(blk['stmts']):
            if st['k'] == 'assign' and st['rv']['k'] == 'binop' and st['rv']['op'] == 'Mul':
                x, y = fn.op_terms(st['rv']['a'], (bi, si)), fn.op_terms(st['rv']['b'], (bi, si))
                for (d, tt) in ((x, y), (y, x)):
                    if tt and all(q[0] == 'param' and q[1] in tpar for q in tt):
                        scaled.append(d)
    if not scaled:
        return ['no product of a difference with the interpolation parameter found (unrecognised shape)']
    probs = []
    for d in scaled:
        raws = [n for n in d if n[0] == 'binop' and n[1] == 'Sub' and _cval(n[3]) is None and _cval(n[2]) is None]
        if len(raws) != 1:
            probs.append('the scaled difference is not built from one raw difference of the two angles (unrecognised wrap): ties at +-pi '
                         'are not shown to keep their direction')
            continue
        raw = T(raws[0])
        for n in d:
            if n is raws[0]:
                continue
            kind = None
            if n[0] == 'binop' and n[1] == 'Sub' and n[2] == raw and abs((_cval(n[3]) or 0) - 2 * PI) < 1e-9:
                kind = 'minus'
            elif n[0] == 'binop' and n[1] == 'Add' and ((n[2] == raw and abs((_cval(n[3]) or 0) - 2 * PI) < 1e-9) or
                                                        (n[3] == raw and abs((_cval(n[2]) or 0) - 2 * PI) < 1e-9)):
                kind = 'plus'
            elif n[0] == 'binop' and n[1] == 'Add' and n[2] == raw and abs((_cval(n[3]) or 0) + 2 * PI) < 1e-9:
                kind = 'minus'
            if kind is None:
                probs.append('the scaled difference can be %s, which is neither the raw difference nor the raw difference moved by a full '
                             'turn: a wrap applied to differences already within [-pi, pi] rewrites +pi or -pi and reverses the motion '
                             'between the two ends of a half-circle interval' % fmt_terms(T(n))[:90])
                continue
            # where is this alternative computed, and what is known about the raw difference there?
            sites = []
            for bi, blk in enumerate(b.blocks):
                if blk['cleanup']:
                    continue
                for si, st in enumerate(blk['stmts']):
                    if st['k'] == 'assign' and st['rv']['k'] == 'binop' and fn.rvalue_terms(st['rv'], (bi, si)) == T(n):
                        sites.append(bi)
            okk = bool(sites)
            for sb in sites:
                rel = None
                for (x, y, rr, _blk) in cmp_facts(fn, sb):
                    for (p_, q_, r2) in ((x, y, rr), (y, x, {{'lt': 'gt', 'gt': 'lt', 'eq': 'eq', 'un': 'un'}[z] for z in rr})):
                        c = _cval(q_)
                        if p_ == raw and c is not None and abs(abs(c) - PI) < 1e-9 and ((c > 0) == (kind == 'minus')):
                            rel = set(r2) if rel is None else rel & set(r2)
                want = {'gt'} if kind == 'minus' else {'lt'}
                if rel is None or not rel <= want:
                    okk = False
            if not okk:
                probs.append('a full turn is %s the raw difference without the strict test `raw %s pi`: a difference of exactly %spi is '
                             'rewritten to %spi, so between the two ends of a half-circle interval the motion goes the other way round, '
                             'outside the interval' % ('subtracted from' if kind == 'minus' else 'added to', '>' if kind == 'minus' else '< -',
                                                       '+' if kind == 'minus' else '-', '-' if kind == 'minus' else '+'))
    return list(dict.fromkeys(probs))


def _convex(ctx, r):
    PI = math.pi
    n = {'box': 0, 'arc': 0, 'cone': 0}
    for adt in space_adts(ctx):
        fields = {f['name']: f['ty'] for f in ctx.core.adts[adt]['variants'][0]['fields']}
        if 'bounds' not in fields:
            continue
        bty = fields['bounds']
        ms = space_methods(ctx, adt)
        ip = ms.get('interpolate')
        ctors = [b for b in ctx.lib_bodies() if b.j.get('impl_adt') == adt and b.impl_trait is None and b.kind == 'AssocFn' and b.name == 'new']
        name = adt.rsplit('::', 1)[1]
        if ip is None or not ctors:
            r.violations.append(Violation('C04', 'C04.convex', adt, 'shape', 'interpolate or constructor not found (unrecognised shape)'))
            continue
        ctor = ctors[0]
        if bty.startswith('std::vec::Vec<(f64, f64)>'):
            n['box'] += 1
            hits = _affine(ctx.fn(ip), ip)
            ok = hits >= 1
            if not ok:
                ok = _affine_nf(ctx, ip)       # second prover: the stored normal form is (1 - t) * from + t * to
            r.inst('%s: interpolation is component-wise from + (to - from) * t: boxes are closed under it' % name, ok=ok, site=ip.loc(0))
            if not ok:
                r.violations.append(Violation('C04', 'C04.convex', ip.path, 'box-affine',
                                              'interpolate is not recognised as component-wise from + (to - from) * t (unrecognised construction: '
                                              'convexity of the box under it is not established)', loc=ip.loc(0)))
        elif bty == '(f64, f64)':
            n['arc'] += 1
            fn = ctx.fn(ctor)
            ok = False
            for (ob, osi, _st) in ok_blocks(fn):
                for (a, b_, rel, _blk) in cmp_facts(fn, ob):
                    for (x, y, rr) in ((a, b_, rel), (b_, a, {{'lt': 'gt', 'gt': 'lt', 'eq': 'eq', 'un': 'un'}[q] for q in rel})):
                        c = const_float(y)
                        if c is None or c > PI * (1 + 1e-12) or not rr <= {'lt', 'eq'}:
                            continue
                        for m in x:
                            if m[0] == 'binop' and m[1] == 'Sub':
                                ok = True       # (hi - lo) <= c <= pi on the accept path
            r.inst('%s: the constructor bounds the span of a partial interval by pi (short-arc interpolation stays inside)' % name, ok=ok, site=ctor.loc(0))
            if not ok:
                r.violations.append(Violation(
                    'C04', 'C04.convex', ctor.path, 'arc-span',
                    'the constructor accepts angular intervals wider than pi that are not the whole circle; interpolation follows the short arc, '
                    'which for two in-bounds angles on either side of the excluded region runs through that region: the planners store such '
                    'states without consulting the bounds, so a returned path can leave the bounds', loc=ctor.loc(0)))
            # the tie: for a half-circle interval the two bounds are exactly pi apart; interpolation stays inside only if a
            # raw difference of exactly +pi (-pi) is kept as it is (walk in the direction of the raw difference)
            probs = _arc_tie(ctx, ip)
            r.inst('%s: a raw difference within [-pi, pi] is scaled as it is (only differences strictly beyond +-pi are wrapped)' % name,
                   ok=not probs, site=ip.loc(0))
            for o, pr in enumerate(probs):
                r.violations.append(Violation('C04', 'C04.convex', ip.path, 'arc-tie', pr, loc=ip.loc(0), ordinal=o))
        else:
            n['cone'] += 1
            from ..interval import Interp
            it = Interp(ctx, ctx.core)
            res = it.analyze(ctor)
            rad = [v for k, v in res.items() if k[0] == 'ret' and k[-1] == '1' and 'bounds' in k]
            ok = bool(rad) and all(v.within(-1e-12, PI / 2 * (1 + 1e-12)) for v in rad)
            r.inst('%s: the constructor bounds the radius of a partial cone by pi/2 (geodesic interpolation stays inside); stored radius %s' % (
                name, [str(v) for v in rad]), ok=ok, site=ctor.loc(0))
            if not ok:
                r.violations.append(Violation(
                    'C04', 'C04.convex', ctor.path, 'cone-radius',
                    'the constructor accepts rotation cones of radius between pi/2 and pi; such a cone is not closed under geodesic '
                    'interpolation (two in-bounds rotations on opposite sides of the centre are joined by a geodesic that leaves the cone), and '
                    'the planners store interpolated states without consulting the bounds', loc=ctor.loc(0)))
    for k, v in n.items():
        if v < 1:
            r.violations.append(Violation('C04', 'C04.convex', 'oxmpl', 'floor:' + k, 'no %s-bounded primitive space found (floor 1)' % k))


def run(ctx, tier):
    r_src = RuleResult('C04.source', 'every state stored in a node is a start state, a sample, a node state or an interpolation between such states')
    r_cvx = RuleResult('C04.convex', 'the admissible region of each primitive space is closed under the space\'s own interpolation')
    _source(ctx, r_src)
    _convex(ctx, r_cvx)
    return [r_src, r_cvx]
