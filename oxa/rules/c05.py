"""C05 — consecutive path states are no farther apart than the configured step (steer-and-link discipline).

C05.steer   at every extension site the new state is the target when d <= max_distance and
            interpolate(near, target, max_distance / d) when d > max_distance (so t < 1), `near` is the node the
            link is made to, d is the distance between exactly those two states, max_distance is the planner's
            public field unmodified
C05.radius  every link that is not the steered extension itself is guarded by distance(x, y) < R (or <=) on its
            two end points, R a public radius field (RRT* neighbour lists are summarised through find_neighbours)
Assumes C10 (d(a, interpolate(a,b,t)) = t d(a,b)) to turn this into the metric bound.
"""
import os
from ..core import RuleResult, Violation, INTERPOLATE, DISTANCE, user_call
from ..engine import walk, fmt_terms, strip_clone, T
from .. import planner as P
from .c12 import cmp_facts, relation_for
from .c03 import covers, bfs_roots

META = {
    'explanation': 'C05: every link of every planner is covered either by the steer discipline (new state = target '
                   'if d <= max_distance else interpolate(near, target, max_distance/d) under the d > max edge, linked '
                   'to that same near node) or by a dominating distance(x,y) < R comparison on exactly its end points '
                   '(neighbour lists are summarised interprocedurally).',
    'assumptions': ['interpolation is distance-proportional (C10, not decided)', 'distance is symmetric (C09, not decided)'],
}


def pub_f64_fields(p):
    return {f['name'] for f in p['fields'] if f['ty'] == 'f64' and f.get('pub')}


def is_pub_param_field(ctx, p, fn, ts):
    """ts is self.<pub f64 field>, or a parameter whose every actual (in the planner) is such a field; returns name"""
    names = set()
    pubs = pub_f64_fields(p)
    for n in ts:
        if n[0] == 'field' and n[2] in pubs and all(m[0] == 'param' and m[1] == 1 for m in n[1]):
            names.add(n[2])
        elif n[0] == 'param' and fn.b.local_ty(n[1]) == 'f64':
            # all call sites inside the planner
            found = False
            for b in P.planner_bodies(p):
                f2 = ctx.fn(b)
                for bi, t in b.calls():
                    if t['func'].get('path') == fn.path:
                        a = f2.arg_terms(t, n[1] - 1, bi)
                        nm = is_pub_param_field(ctx, p, f2, a) if f2 is not fn else None
                        if nm is None:
                            return None
                        names.add(nm)
                        found = True
            if not found:
                return None
        else:
            return None
    return names.pop() if len(names) == 1 else None


def steer_sites(ctx, p):
    """interpolate calls in planner code outside the motion checkers"""
    mcs = {m.path for m in ctx.motion_checkers()}
    out = []
    for b in P.planner_bodies(p):
        if b.path in mcs:
            continue
        fn = ctx.fn(b)
        for bi, t in b.calls():
            if t['func'].get('path') == INTERPOLATE:
                out.append((fn, b, bi, t))
    return out


def analyze_steer(ctx, p, fn, b, bi, t):
    """returns (info, problems)"""
    probs = []
    frm = strip_clone(fn.arg_terms(t, 1, bi))
    tgt = strip_clone(fn.arg_terms(t, 2, bi))
    tt = fn.arg_terms(t, 3, bi)
    info = {'from': frm, 'target': tgt, 'site': (fn.path, bi), 'max': None}
    if len(tt) != 1:
        return info, ['interpolation parameter has several definitions (unrecognised shape)']
    n = next(iter(tt))
    d_terms = None
    if n[0] == 'binop' and n[1] == 'Div':
        mx, d_terms = n[2], n[3]
        guard_needed = True
    elif n[0] == 'call' and n[1] == 'core::f64::<impl f64>::min' and len(n[2]) == 2:
        # min(max/d, 1.0) idiom
        guard_needed = False
        q = None
        for x, y in ((n[2][0], n[2][1]), (n[2][1], n[2][0])):
            if len(y) == 1 and next(iter(y)) == ('const', '1.0f') and len(x) == 1 and next(iter(x))[0] == 'binop' and next(iter(x))[1] == 'Div':
                q = next(iter(x))
        if q is None:
            return info, ['interpolation parameter is not max_distance / d or min(max_distance / d, 1) (unrecognised shape)']
        mx, d_terms = q[2], q[3]
    else:
        return info, ['interpolation parameter is not max_distance / d (unrecognised shape): %s' % fmt_terms(tt)[:80]]
    name = is_pub_param_field(ctx, p, fn, mx)
    if name is None:
        probs.append('the step numerator %s is not the planner\'s public step field unmodified' % fmt_terms(mx)[:60])
    info['max'] = name
    # d must be distance(near, target) for the same near/target
    idx_from = set()
    cont_from = None
    for s in frm:
        if s[0] == 'field' and len(s[1]) == 1 and next(iter(s[1]))[0] == 'index':
            ix = next(iter(s[1]))
            idx_from |= ix[2]
            cont_from = ix[1]
    for dn in d_terms:
        am = P.argmin_info(ctx, T(dn))
        if am is not None and am['comp'] == am['dist_comp']:
            # the distance component of the arg-min that selected the node steered from: distance(cont[idx].state, target)
            want_idx = T(('field', am['R'], str(am['idx_comp'])))
            if cont_from == am['cont'] and idx_from == set(want_idx) and strip_clone(am['target']) == strip_clone(tgt):
                continue
            probs.append('the distance used for the step ratio belongs to another arg-min than the one that selected the node steered from')
            continue
        if not (dn[0] == 'call' and dn[1] == DISTANCE and len(dn[2]) == 3):
            probs.append('the divisor is not a distance: %s' % fmt_terms(T(dn))[:60])
            continue
        x, y = strip_clone(dn[2][1]), strip_clone(dn[2][2])
        okp = False
        for (u, v) in ((x, y), (y, x)):
            if v != tgt:
                continue
            if covers(frm, u):
                okp = True
            else:
                # enumerate idiom: u = E.1.state with E an enumerate element whose .0 is among the near indices
                for un in u:
                    if un[0] == 'field' and len(un[1]) == 1:
                        e1 = next(iter(un[1]))
                        if e1[0] == 'field' and e1[2] == '1':
                            want = ('field', e1[1], '0')
                            if want in idx_from:
                                okp = True
        if not okp:
            probs.append('the distance used for the step ratio (%s) is not the distance between the node steered from '
                         'and the target' % fmt_terms(T(dn))[:90])
    if guard_needed:
        facts = cmp_facts(fn, bi)
        name_terms = mx
        rel, used = relation_for(facts, d_terms, name_terms)
        if not used or not rel <= {'gt'}:
            probs.append('the interpolating branch is not guarded by d > max_distance (relation %s): t may exceed 1 '
                         '(extrapolation)' % (sorted(rel) if used else 'unknown'))
    return info, probs


def radius_guards(ctx, p, fn):
    """comparison switches  distance(_, X, Y) < R  with R a public field: [{'from','to','true_edges','R'}]"""
    out = []
    for b in range(fn.nb):
        if fn.blocks[b]['cleanup']:
            continue
        si = fn.switch_info(b)
        if si is None:
            continue
        terms, tmap, other = si
        if len(terms) != 1 or set(tmap.keys()) != {'0'}:
            continue
        n = next(iter(terms))
        if n[0] != 'binop' or n[1] not in ('Lt', 'Le', 'Gt', 'Ge'):
            continue
        # normalise to  a OP c : the accepting ("inside the radius") edge is the true edge of `d < R` / `d <= R` / `R > d` /
        # `R >= d`, and the false edge of the skip forms `d >= R` / `d > R` / `R <= d` / `R < d`.  `strict` says whether a
        # distance equal to the radius is left out.
        a, c, op = n[2], n[3], n[1]
        if op in ('Gt', 'Ge'):
            a, c, op = c, a, {'Gt': 'Lt', 'Ge': 'Le'}[op]
        inside_edge, strict = (b, other), op == 'Lt'
        name = is_pub_param_field(ctx, p, fn, c)
        if name is None:
            # the skip form: R < d / R <= d, continue on the true edge
            name = is_pub_param_field(ctx, p, fn, a)
            if name is None:
                continue
            a, c = c, a
            inside_edge, strict = (b, tmap['0']), op == 'Le'
        if not a or not all(d[0] == 'call' and d[1] == DISTANCE and len(d[2]) == 3 for d in a):
            continue
        frm = frozenset().union(*[d[2][1] for d in a])
        to = frozenset().union(*[d[2][2] for d in a])
        out.append({'fn': fn, 'from': frm, 'to': to, 'true_edges': {inside_edge}, 'R': name, 'block': b, 'strict': strict})
    return out


def neighbour_summary(ctx, p, callee_fn):
    """callee returns a Vec<usize> of container indices: every push into it is guarded by a radius comparison
    between <a parameter's state> and <container>[x].state with x the pushed value.
    returns (param index, radius field, container terms) or None"""
    fn = callee_fn
    rt = set()
    for rb in fn.return_blocks():
        rt |= fn.local_terms(0, (rb, fn.nstmts(rb)))
    cr = P.list_creations(frozenset(rt))
    if not cr:
        return None
    pushes = P.list_pushes(fn, cr)
    guards = radius_guards(ctx, p, fn)
    res = None
    sfields = {c['state_field'] for c in p['containers'].values()}
    for (pb, x, _t) in pushes:
        ok = None
        for g in guards:
            if not P.guarded(fn, pb, g['true_edges']):
                continue
            for (u, v) in ((strip_clone(g['from']), strip_clone(g['to'])), (strip_clone(g['to']), strip_clone(g['from']))):
                # u = param.state , v = cont[x].state
                if len(u) == 1 and len(v) == 1:
                    un, vn = next(iter(u)), next(iter(v))
                    if un[0] == 'field' and un[2] in sfields and all(q[0] == 'param' for q in un[1]) and \
                            vn[0] == 'field' and vn[2] in sfields and len(vn[1]) == 1:
                        ix = next(iter(vn[1]))
                        if ix[0] == 'index' and ix[2] == x:
                            ok = (next(iter(un[1]))[1], g['R'], ix[1])
        if ok is None:
            return None
        if res is not None and res != ok:
            return None
        res = ok
    return res


def inbody_neighbour_centre(ctx, p, fn, src):
    """`src` is a list built in this function (e.g. a neighbour helper analysed in its caller's context): if every push of an
    index x into it is guarded by `distance(C, cont[x].state) < R` for one and the same state C, return norm_state(C)"""
    cr = P.list_creations(src)
    if not cr or not all(n in cr or n[0] in ('out', 'clone') for n in src):
        return None
    guards = radius_guards(ctx, p, fn)
    sfields = {c['state_field'] for c in p['containers'].values()}
    centre = None
    pushes = P.list_pushes(fn, cr)
    if not pushes:
        return None
    for (pb, x, _t) in pushes:
        hit = None
        for g in guards:
            if not P.guarded(fn, pb, g['true_edges']):
                continue
            gf, gt = P.norm_state(ctx, p, fn, g['from']), P.norm_state(ctx, p, fn, g['to'])
            for (u, v) in ((gf, gt), (gt, gf)):
                # v = cont[x].state
                if len(v) == 1:
                    vn = next(iter(v))
                    if vn[0] == 'field' and vn[2] in sfields and len(vn[1]) == 1:
                        ix = next(iter(vn[1]))
                        if ix[0] == 'index' and ix[2] == P.dealias_elements(x):
                            hit = u
        if hit is None or (centre is not None and centre != hit):
            return None
        centre = hit
    return centre


def run(ctx, tier):
    r_steer = RuleResult('C05.steer', 'new state = target if d <= max else interpolate(near, target, max/d) with t < 1; near is the linked node')
    r_rad = RuleResult('C05.radius', 'every non-steered link is guarded by distance(x,y) < R on its two end points')
    planners = ctx.planners()
    for p in planners:
        sites = steer_sites(ctx, p)
        steers = []
        for k, (fn, b, bi, t) in enumerate(sites):
            info, probs = analyze_steer(ctx, p, fn, b, bi, t)
            r_steer.inst('%s: steer at %s: from %s toward %s by %s/d' % (
                b.path, b.loc(bi), fmt_terms(info['from'])[:50], fmt_terms(info['target'])[:40], info['max']),
                ok=not probs, site=b.loc(bi))
            for o, pr in enumerate(probs):
                r_steer.violations.append(Violation('C05', 'C05.steer', b.path, 'steer', pr, loc=b.loc(bi), ordinal=k * 10 + o))
            info['fn'] = fn
            steers.append(info)
        tree_planner = any(any('parent' in l for l in c['links']) for c in p['containers'].values())
        if tree_planner and not sites:
            r_steer.violations.append(Violation('C05', 'C05.steer', p['adt'], 'floor', 'no steer site (interpolate call) in tree planner %s' % p['name']))

        # ---- links
        links, _problems = P.collect_links(ctx, p)
        recs = []
        for L in links:
            sf = L['cinfo']['state_field']
            if L['kind'] in ('push-parent', 'edge-new'):
                e1 = {'state': L['a']}
            else:
                e1 = {'cont': L['cont'], 'defs': [(L['block'], L['J'])], 'sfield': sf}
            e2 = {'cont': L['cont'], 'defs': L['defs'], 'sfield': sf}
            recs.append((L['fn'], L['body'], L['block'], L['kind'], e1, e2))
        if not tree_planner:
            cname = list(p['containers'].keys())[0]
            cinfo = p['containers'][cname]
            cont = T(('field', T(('param', 1, 'self')), cname))
            for (fn, b, bi, kdefs) in bfs_roots(ctx, p):
                starts = set()
                for bj, t2 in b.calls():
                    tgt = b.crate.body(t2['func'].get('path', ''))
                    if tgt is not None and tgt.j.get('ret_ty', '').startswith('base::planner::Path<'):
                        for j in range(len(t2['args'])):
                            a = fn.arg_terms(t2, j, bj)
                            if P.is_start_origin(a):
                                starts |= strip_clone(a)
                recs.append((fn, b, bi, 'start-connection', {'state': frozenset(starts)},
                             {'cont': cont, 'defs': kdefs, 'sfield': cinfo['state_field']}))
        counts = {}
        for (fn, b, block, kind, e1, e2) in recs:
            ok, why = _covered(ctx, p, fn, block, e1, e2, steers)
            k = counts.get((b.path, kind), 0)
            counts[(b.path, kind)] = k + 1
            r_rad.inst('%s: %s link at %s is bounded (%s)' % (b.path, kind, b.loc(block), why if ok else 'NOT BOUNDED'),
                       ok=ok, site=b.loc(block))
            if not ok:
                r_rad.violations.append(Violation('C05', 'C05.radius', b.path, kind, why, loc=b.loc(block), ordinal=k))
        if not recs:
            r_rad.violations.append(Violation('C05', 'C05.radius', p['adt'], 'floor', 'no link found in planner %s' % p['name']))
    return [r_steer, r_rad]


def _covered(ctx, p, fn, block, e1, e2, steers):
    from .c03 import _endpoint_alts
    a1 = _endpoint_alts(ctx, p, fn, e1, block)
    a2 = _endpoint_alts(ctx, p, fn, e2, block)
    guards = radius_guards(ctx, p, fn)
    hows = set()
    # raw index definitions of e2 (for neighbour-list summaries)
    raw2 = e2.get('defs', [])
    raw1 = e1.get('defs', [])
    for i1, (g1, s1, m1) in enumerate(a1):
        for i2, (g2, s2, m2) in enumerate(a2):
            if m1 or m2:
                blocks = (g1 if m1 else []) + (g2 if m2 else [])
            else:
                blocks = [block] + g1 + g2
            how = None
            # (a) steer: one end is the steered state {out(interpolate)@site | target}, the other the node steered from
            for st in steers:
                if st['fn'] is not fn:
                    continue
                new = None
                for (u, v) in ((s1, s2), (s2, s1)):
                    outs = {n for n in u if n[0] == 'out' and n[1] == INTERPOLATE and n[4] == st['site']}
                    rest = frozenset(u - outs)
                    if outs and (not rest or rest == st['target']) and covers(st['from'], v):
                        how = 'steer %s' % st['max']
            # (b) a dominating radius comparison on these end points
            if how is None:
                for g in guards:
                    gf, gt = P.norm_state(ctx, p, fn, g['from']), P.norm_state(ctx, p, fn, g['to'])
                    if not ((covers(gf, s1) and covers(gt, s2)) or (covers(gf, s2) and covers(gt, s1))):
                        continue
                    if any(P.guarded(fn, gb, g['true_edges']) for gb in blocks):
                        how = 'distance < %s' % g['R']
                        break
            # (c) index drawn from a neighbour list computed by a summarised helper for the other end point
            if how is None:
                for (raw, other_state) in ((raw2, s1), (raw1, s2)):
                    for (_db, idx) in raw:
                        src = P.iter_source(idx)
                        if src is None:
                            continue
                        for n in src:
                            if n[0] != 'call':
                                continue
                            cb = ctx.core.body(n[1])
                            if cb is None:
                                continue
                            summ = neighbour_summary(ctx, p, ctx.fn(cb))
                            if summ is None:
                                continue
                            pidx, R, cont = summ
                            actual = n[2][pidx - 1]
                            sf = list(p['containers'].values())[0]['state_field']
                            ast = P.norm_state(ctx, p, fn, fn._field(actual, sf))
                            if ast == other_state or covers(ast, other_state):
                                how = 'neighbour list within %s' % R
            if how is None:
                return False, 'the link between %s and %s is neither the steered extension nor guarded by a radius comparison' % (
                    fmt_terms(s1)[:70], fmt_terms(s2)[:70])
            hows.add(how)
    return True, ', '.join(sorted(hows)) or 'no alternatives'
