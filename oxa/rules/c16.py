"""C16 — each iteration extends from the nearest node, toward the sample, by one step.

C16.nearest  the node handed to steer is the arg-min of distance(container[i].state, target) over all i
             (index-0 seed + scan from <=1 to len, strict `<` update, running minimum and index updated together)
C16.steer    = C05.steer (same analysis), C16.invalid-adds-nothing = C01.admit
C16.one      at most one push per container per iteration of the main loop
C16.bias     sample_goal on the true edge of random_bool(goal_bias), sample_uniform on the false edge
C16.balance  RRT-Connect grows the start tree when |start| < |goal|, the goal tree when >, then extends the other
             tree toward the new node; success requires `Reached`
"""
from ..core import (RuleResult, Violation, DISTANCE, SAMPLE_GOAL, SAMPLE_UNIFORM, VEC_LEN, VEC_PUSH, IS_VALID, user_call)
from ..engine import walk, fmt_terms, strip_clone, T
from .. import planner as P
from .c05 import steer_sites, analyze_steer, pub_f64_fields
from .c12 import cmp_facts, relation_for, REL, FLIP

META = {
    'explanation': 'C16: the per-iteration transition shape, decided for every iteration of every run: arg-min scan '
                   'over the whole tree with strict update, steer from that node (C05.steer), push only under the motion '
                   'check (C01.admit), at most one push per tree per iteration, goal-bias branch polarity and parameter '
                   'provenance, RRT-Connect tree balancing polarity and connect-to-new-node.',
    'assumptions': ['Rng::random_bool(p) returns true with probability p (documented)', 'C05.steer, C01.admit hold'],
}


def guard_signature(fn, block):
    """the set of switch edges that dominate `block` (same signature => executed under the same conditions)"""
    sig = set()
    reach = fn.reachable(0)
    for sb in reach:
        t = fn.blocks[sb]['term']
        if t['k'] != 'switch':
            continue
        for s in fn.succs(sb):
            if block not in fn.reachable(0, removed=frozenset([(sb, s)])):
                sig.add((sb, s))
    return frozenset(sig)


def _scan_ok(fn, cont, it):
    """iterator `it` scans the container from index <= 1 to its end: returns (lo, kind) or None"""
    if len(it) != 1:
        return None
    q = next(iter(it))
    if q[0] == 'agg' and q[1] == 'std::ops::Range':
        d = dict(q[3])
        lo, end = d.get('start'), d.get('end')
        if end and all(e[0] == 'call' and e[1] == VEC_LEN and e[2][0] == cont for e in end) and lo and len(lo) == 1:
            l0 = next(iter(lo))
            if l0[0] == 'const' and l0[1] in ('0', '1'):
                return int(l0[1]), 'range'
        return None
    skip = 0
    while q[0] == 'call' and q[2] and len(q[2][0]) == 1:
        if q[1] == 'std::iter::Iterator::skip':
            k = q[2][1]
            if len(k) == 1 and next(iter(k))[0] == 'const':
                skip = int(next(iter(k))[1])
            else:
                return None
        elif q[1] in ('std::iter::Iterator::enumerate', 'core::slice::<impl [T]>::iter'):
            pass
        else:
            return None
        inner = q[2][0]
        if inner == cont:
            return skip, 'enumerate'
        q = next(iter(inner))
    return None


def run(ctx, tier):
    r_near = RuleResult('C16.nearest', 'the node steered from is the arg-min of the distance to the target over the whole tree')
    r_one = RuleResult('C16.one', 'at most one push per container per main-loop iteration')
    r_bias = RuleResult('C16.bias', 'goal sample on the true edge of random_bool(goal_bias), uniform sample on the false edge')
    r_bal = RuleResult('C16.balance', 'RRT-Connect grows the smaller tree, then extends the other toward the new node; success requires Reached')
    planners = ctx.planners()
    tree_planners = [p for p in planners if any(any('parent' in l for l in c['links']) for c in p['containers'].values())]
    if len(tree_planners) < 3:
        r_near.violations.append(Violation('C16', 'C16.nearest', 'oxmpl', 'floor', 'only %d tree planners (floor 3)' % len(tree_planners)))
    n_bal = 0
    for p in tree_planners:
        # ------------------------------------------------------------ nearest
        sites = steer_sites(ctx, p)
        if not sites:
            r_near.violations.append(Violation('C16', 'C16.nearest', p['adt'], 'floor', 'no steer site in %s' % p['name']))
        for k, (fn, b, bi, t) in enumerate(sites):
            info, _probs = analyze_steer(ctx, p, fn, b, bi, t)
            probs = _nearest(ctx, p, fn, b, bi, t, info)
            r_near.inst('%s: steer at %s starts from the arg-min node' % (b.path, b.loc(bi)), ok=not probs, site=b.loc(bi))
            for o, pr in enumerate(probs):
                r_near.violations.append(Violation('C16', 'C16.nearest', b.path, 'argmin', pr, loc=b.loc(bi), ordinal=k * 10 + o))

        # ------------------------------------------------------------ bias
        _bias(ctx, p, r_bias)

        # ------------------------------------------------------------ one push per container per iteration
        _one(ctx, p, r_one)

        # ------------------------------------------------------------ balance (two-tree planners)
        if len(p['containers']) >= 2:
            n_bal += 1
            _balance(ctx, p, r_bal)
            _reached(ctx, p, r_bal)
    if n_bal < 1:
        r_bal.violations.append(Violation('C16', 'C16.balance', 'oxmpl', 'floor', 'no bidirectional planner found (floor 1)'))
    r_ext = RuleResult('C16.extend', 'once a sample is drawn the iteration extends the tree unless the motion (or the state) is rejected')
    n_ext = 0
    for p in tree_planners:
        n_ext += _extend(ctx, p, r_ext)
    if n_ext < 3:
        r_ext.violations.append(Violation('C16', 'C16.extend', 'oxmpl', 'floor', 'only %d sampling loops / extension helpers analysed (floor 3)' % n_ext))
    return [r_near, r_one, r_bias, r_bal, r_ext]


def _extend(ctx, p, r_ext):
    """between drawing the sample and the end of the iteration the tree is extended (a node is pushed, directly or by the
    extension helper) on every path except those that take the failing edge of a motion check / validity query or the
    `None` answer of the extension helper.  Any other way round the push (`if d < eps { continue }`, a cap, a filter) drops
    an extension the property demands."""
    cache = {}
    count = 0
    mcs = P.motion_calls(ctx, p)
    for b in p['methods']:
        fn = ctx.fn(b)
        evs = _push_events(ctx, p, fn, cache)
        if not evs or b.name in ('setup', 'new'):
            continue
        push_blocks = frozenset(bi for (bi, _k, _t, _c) in evs)
        allowed = set()
        for m in mcs:
            if m['fn'] is fn:
                allowed |= set(m['false_edges'])
        te, fe, _sb = fn.bool_edges(lambda n: n[0] == 'call' and n[1] == IS_VALID)
        allowed |= set(fe)
        helpers = {t['func'].get('path') for (_bi, k, t, _c) in evs if k[0] == 'helper'}
        if helpers:
            de = fn.discr_edges(lambda ts: bool(ts) and all(n[0] == 'call' and n[1] in helpers for n in ts))
            allowed |= set(de.get('0', set()))
            if '1' in de and '0' not in de:
                allowed |= set(de.get('otherwise', set()))
        samples = [bi for bi, t in b.calls() if t['func'].get('path') in (SAMPLE_UNIFORM, SAMPLE_GOAL) and bi in fn.reachable(0)]
        loops = _main_loops(fn)
        if samples and loops:
            for L in loops:
                inl = [sb for sb in samples if sb in L['body']]
                if not inl:
                    continue
                count += 1
                outside = frozenset(x for x in range(fn.nb) if x not in L['body'])
                bad = None
                for sb in inl:
                    tgt = fn.blocks[sb]['term'].get('target')
                    if tgt is None:
                        continue
                    r = fn.reachable(tgt, removed=frozenset(allowed), stop=outside | push_blocks)
                    if any(src in r and src not in push_blocks for (src, _d) in L['back_edges']):
                        bad = sb
                r_ext.inst('%s: every iteration that draws a sample reaches a push unless its motion is rejected' % b.path, ok=bad is None, site=fn.loc(L['header']))
                if bad is not None:
                    r_ext.violations.append(Violation(
                        'C16', 'C16.extend', b.path, 'skip',
                        'after the sample drawn at %s the iteration can end without extending the tree although no motion check or validity '
                        'query failed: a valid extension from the nearest node is dropped' % fn.loc(bad), loc=fn.loc(L['header'])))
        elif not samples:
            # the extension helper: it answers "nothing added" only after a failed motion check
            count += 1
            r = fn.reachable(0, removed=frozenset(allowed), stop=push_blocks)
            bad = [rb for rb in fn.return_blocks() if rb in r and rb not in push_blocks]
            r_ext.inst('%s: returns without pushing only after a rejected motion' % b.path, ok=not bad, site=b.loc(0))
            if bad:
                r_ext.violations.append(Violation(
                    'C16', 'C16.extend', b.path, 'skip',
                    'the extension helper can return without adding a node although no motion check or validity query failed', loc=b.loc(0)))
    return count


def _reached(ctx, p, r_bal):
    """the two branches of a bidirectional planner are joined on the premise that the node the connect step added IS the
    target node's state (the path assembly drops one of the two copies).  So the extension step may answer `Reached` only
    where the state it adds is the target itself, never a steered (interpolated) state however close: no `Reached` result
    literal is reachable from the steering interpolation unless the state is assigned the target in between."""
    from ..engine import CLONE as CLONE_PATHS
    for (fn, b, bi, t) in steer_sites(ctx, p):
        lits = []
        for lb, blk in enumerate(fn.blocks):
            if blk['cleanup']:
                continue
            for si, st in enumerate(blk['stmts']):
                if st['k'] == 'assign' and st['rv']['k'] == 'agg' and st['rv'].get('agg') == 'adt' and \
                        st['rv'].get('variant_name') == 'Reached' and str(st['rv'].get('adt', '')).startswith(p['module']):
                    lits.append((lb, si))
        if not lits:
            continue
        # the steered state (out argument of the interpolation) and where it is overwritten by the target itself
        out = t['args'][4] if len(t['args']) > 4 else None
        opl = (out.get('move') or out.get('copy')) if out else None
        root = fn.borrow_root(opl['l']) if opl is not None else None
        out_local = root[0] if root is not None else (opl['l'] if opl is not None else None)
        tgt_terms = strip_clone(fn.arg_terms(t, 2, bi))
        stops = set()
        for cb, ct in b.calls():
            if ct['dest']['l'] == out_local and not ct['dest']['p'] and ct['func'].get('path') in CLONE_PATHS:
                if strip_clone(fn.arg_terms(ct, 0, cb)) == tgt_terms:
                    stops.add(cb)
        for lb2, blk2 in enumerate(fn.blocks):
            for si2, st2 in enumerate(blk2['stmts']):
                if st2['k'] == 'assign' and st2['place']['l'] == out_local and not st2['place']['p'] and st2['rv']['k'] == 'use':
                    if strip_clone(fn.rvalue_terms(st2['rv'], (lb2, si2))) == tgt_terms:
                        stops.add(lb2)
        start = t.get('target')
        reach = fn.reachable(start, stop=frozenset(stops)) if start is not None else set()
        # the decision to steer may be kept in a flag and tested again where the result is built
        # (`let stops_short = d > max; if stops_short { interpolate } else { q = target } .. if stops_short { Advanced } else { Reached }`):
        # a literal behind the opposite edge of a switch on the very same condition is not reached after steering
        steer_edges = []
        all_reach = fn.reachable(0)
        for sb in range(fn.nb):
            si_ = fn.switch_info(sb)
            if si_ is None or fn.blocks[sb]['cleanup'] or sb not in all_reach:
                continue
            terms_, tmap_, other_ = si_
            for key, tg in list(tmap_.items()) + [('otherwise', other_)]:
                if bi not in fn.reachable(0, removed=frozenset([(sb, tg)])):
                    steer_edges.append((frozenset(terms_), key, tuple(sorted(tmap_.keys()))))

        def behind_opposite_edge(lb):
            for sb in range(fn.nb):
                si_ = fn.switch_info(sb)
                if si_ is None or fn.blocks[sb]['cleanup']:
                    continue
                terms_, tmap_, other_ = si_
                for (sterms, skey, skeys) in steer_edges:
                    if frozenset(terms_) != sterms or tuple(sorted(tmap_.keys())) != skeys:
                        continue
                    for key, tg in list(tmap_.items()) + [('otherwise', other_)]:
                        if key != skey and lb not in fn.reachable(0, removed=frozenset([(sb, tg)])):
                            return True
            return False
        bad = [(lb, si) for (lb, si) in lits if lb in reach and lb not in stops and not behind_opposite_edge(lb)]
        r_bal.inst('%s: `Reached` is answered only where the added state is the target itself (%d result literal(s))' % (b.path, len(lits)),
                   ok=not bad, site=b.loc(bi))
        for o, (lb, si) in enumerate(bad):
            r_bal.violations.append(Violation(
                'C16', 'C16.balance', b.path, 'reached-not-target',
                'the extension step can answer `Reached` (at %s) for a state produced by the steering interpolation at %s: the node '
                'added is then not the target state, and joining the two branches on it drops or skips a real node' % (fn.loc(lb, si), fn.loc(bi)),
                loc=fn.loc(lb, si), ordinal=o))


def _nearest(ctx, p, fn, b, bi, t, info):
    probs = []
    frm = info['from']
    tgt = info['target']
    if len(frm) != 1:
        return ['node steered from has several origins (unrecognised shape): %s' % fmt_terms(frm)[:80]]
    f0 = next(iter(frm))
    if not (f0[0] == 'field' and len(f0[1]) == 1 and next(iter(f0[1]))[0] == 'index'):
        return ['node steered from is not a container element: %s' % fmt_terms(frm)[:80]]
    ix = next(iter(f0[1]))
    cont, I = ix[1], ix[2]
    am = P.argmin_info(ctx, I)
    if am is not None:
        # the nearest node is selected by min_by over the whole container (first of the minimal elements: std semantics)
        if am['comp'] != am['idx_comp']:
            return ['the node steered from is indexed by the distance component of the arg-min, not by its index']
        if am['cont'] != cont:
            probs.append('the arg-min runs over %s, the node steered from is read from %s' % (fmt_terms(am['cont'])[:40], fmt_terms(cont)[:40]))
        if am['sf'] != f0[2]:
            probs.append('the arg-min compares distances to `%s` of the nodes, the node steered from contributes `%s`' % (am['sf'], f0[2]))
        if strip_clone(am['target']) != strip_clone(tgt):
            probs.append('the arg-min measures the distance to %s, not to the steering target %s' % (fmt_terms(am['target'])[:50], fmt_terms(tgt)[:50]))
        return probs
    # locate the Index::index call (or projection) that read container[I] and split the definitions of I
    defs = None
    for bj, t2 in b.calls():
        if t2['func'].get('path') == 'std::ops::Index::index' and fn.arg_terms(t2, 0, bj) == cont and fn.arg_terms(t2, 1, bj) == I:
            if bi in fn.reachable(bj):
                defs = fn.split_defs(t2['args'][1], (bj, fn.nstmts(bj)))
    if defs is None:
        return ['cannot locate the read of the nearest node (unrecognised shape)']
    seeds = [(db, di, ts) for (db, di, ts) in defs if ts == T(('const', '0'))]
    scans = [(db, di, ts) for (db, di, ts) in defs if ts != T(('const', '0'))]
    if not scans:
        return ['the nearest index is never updated by a scan: index terms %s' % fmt_terms(I)[:60]]
    # the running minimum: the divisor of the step ratio
    tt = fn.arg_terms(t, 3, bi)
    n = next(iter(tt)) if len(tt) == 1 else None
    dmin = None
    if n is not None and n[0] == 'call' and n[1] == 'core::f64::<impl f64>::min' and len(n[2]) == 2:
        # t = min(max/d, 1.0)
        for side in n[2]:
            if len(side) == 1 and next(iter(side))[0] == 'binop' and next(iter(side))[1] == 'Div':
                n = next(iter(side))
    if n is not None and n[0] == 'binop' and n[1] == 'Div':
        dmin = n[3]
    lo_seen = None
    for (db, di, ts) in scans:
        src = P.iter_source(ts)
        elem = None
        if src is None and len(ts) == 1:
            n0 = next(iter(ts))
            if n0[0] == 'field' and n0[2] == '0':
                src = P.iter_source(n0[1])
                elem = n0[1]
        if src is None:
            probs.append('nearest index is updated with %s, not with the scan index' % fmt_terms(ts)[:60])
            continue
        sc = _scan_ok(fn, cont, src)
        if sc is None:
            probs.append('the scan %s does not cover the container from index <= 1 to its end' % fmt_terms(src)[:80])
            continue
        lo_seen = sc[0]
        # the scan runs to the end of the container: the loop in which the index is updated is left only when its
        # iterator is exhausted (an early `break` makes the result "the first node that is good enough", not the nearest)
        inl = [L for L in fn.loops() if db in L['body']]
        if inl:
            Ls = min(inl, key=lambda l: len(l['body']))
            for (src_b, dst_b) in Ls['exits']:
                si_ = fn.switch_info(src_b)
                normal = si_ is not None and si_[0] and all(x[0] == 'discr' for x in si_[0])
                if not normal and fn.blocks[dst_b]['term']['k'] != 'unreachable':
                    probs.append('the nearest-node scan can stop early at %s: the node steered from is then not the nearest one' % fn.loc(src_b))
                    break
        # the update is guarded by  dist_i < running_min  (strict), dist_i = distance(cont[i].state, target)
        facts = cmp_facts(fn, db)
        okcmp = False
        for (a, c, rel, _blk) in facts:
            for (x, y, r) in ((a, c, rel), (c, a, {FLIP[q] for q in rel})):
                if not (r - {'un'}) <= {'lt'} or 'eq' in r:
                    continue
                if not x or not all(d[0] == 'call' and d[1] == DISTANCE and len(d[2]) == 3 for d in x):
                    continue
                good = True
                for d in x:
                    u, v = strip_clone(d[2][1]), strip_clone(d[2][2])
                    if v != tgt and u == tgt:
                        u, v = v, u
                    if v != tgt:
                        good = False
                        break
                    # u must be the state of element i of the container
                    exp = P.node_state_term(cont, ts, f0[2])
                    if u == strip_clone(exp):
                        continue
                    if elem is not None and u == T(('field', T(('field', elem, '1')), f0[2])):
                        continue
                    good = False
                if not good:
                    continue
                # y is the running minimum: the same variable the step ratio divides by, and it is updated here
                # (component k of a tuple accumulator refers to itself through `rec.k`: carried, not a new origin)
                yc = frozenset(m for m in y if not (m[0] == 'field' and m[1] and all(q[0] == 'rec' for q in m[1])))
                if dmin is not None and not (x <= dmin and (yc <= dmin or yc == dmin)):
                    continue
                okcmp = True
        if not okcmp:
            probs.append('the nearest index is updated at %s without a strict `distance(tree[i], target) < running minimum` test' % fn.loc(db, di))
            continue
        # running minimum updated together with the index (same guard signature, value = the compared distance)
        sig = guard_signature(fn, db)
        upd = False
        for e in fn.events():
            if e.kind == 'assign' and fn.b.local_ty(e.local) == 'f64' and not e.path:
                if guard_signature(fn, e.block) == sig and e.block == db:
                    vt = fn.event_terms(e)
                    if vt and all(d[0] == 'call' and d[1] == DISTANCE for d in vt) and dmin is not None and vt <= dmin:
                        upd = True
        if not upd and di < fn.nstmts(db):
            # (index, minimum) updated as one tuple literal: the other component is the compared distance
            st_ = fn.blocks[db]['stmts'][di]
            cand = [st_] + [s2 for s2 in fn.blocks[db]['stmts'] if s2['k'] == 'assign' and s2['rv']['k'] == 'agg' and s2['rv'].get('agg') == 'tuple']
            for s2 in cand:
                if s2['k'] == 'assign' and s2['rv']['k'] == 'agg' and s2['rv'].get('agg') == 'tuple':
                    for fo in s2['rv']['fields']:
                        vt = fn.op_terms(fo, (db, di))
                        if vt and all(d[0] == 'call' and d[1] == DISTANCE for d in vt) and dmin is not None and vt <= dmin:
                            upd = True
        if not upd and di < fn.nstmts(db):
            # the whole (index, minimum) pair is taken over in one move (`if candidate.1 < best.1 { candidate } else { best }`):
            # the other component of the moved pair is the compared distance
            st_ = fn.blocks[db]['stmts'][di]
            if st_['k'] == 'assign' and st_['rv']['k'] == 'use' and not st_['place']['p'] and fn.b.local_ty(st_['place']['l']).startswith('('):
                whole = fn.op_terms(st_['rv']['op'], (db, di))
                for k in range(4):
                    vt = fn._field(whole, str(k))
                    if vt and all(d[0] == 'call' and d[1] == DISTANCE for d in vt) and dmin is not None and vt <= dmin:
                        upd = True
        if not upd:
            probs.append('the running minimum is not updated together with the nearest index at %s' % fn.loc(db, di))
    if lo_seen is not None and lo_seen >= 1:
        if not seeds:
            probs.append('the scan starts at index %d but index 0 is not the initial candidate' % lo_seen)
        elif dmin is not None:
            # the seed's minimum is distance(cont[0], target)
            seed_d = [d for d in dmin if d[0] == 'call' and d[1] == DISTANCE and
                      strip_clone(d[2][1]) == strip_clone(P.node_state_term(cont, T(('const', '0')), f0[2]))]
            if not seed_d:
                probs.append('the initial minimum is not the distance from node 0 to the target')
    return probs


def _main_loops(fn):
    """outermost loops of a function"""
    ls = fn.loops()
    out = []
    for L in ls:
        if not any(L is not M and L['body'] < M['body'] for M in ls):
            out.append(L)
    return out


def _bias(ctx, p, r_bias):
    pubs = pub_f64_fields(p)
    found = 0
    for b in p['methods']:
        fn = ctx.fn(b)
        reach = fn.reachable(0)
        draws = [(bi, t) for bi, t in b.calls() if t['func'].get('path') == 'rand::Rng::random_bool' and bi in reach]
        if not draws:
            continue
        goals = [bj for bj, t2 in b.calls() if t2['func'].get('path') == SAMPLE_GOAL and bj in reach]
        unis = [bj for bj, t2 in b.calls() if t2['func'].get('path') == SAMPLE_UNIFORM and bj in reach]
        edges = {bi: P.call_true_edges(fn, bi) for bi, _t in draws}
        # every sampling site is selected by a bias draw (its own one when the iteration body exists in several copies)
        orphan = []
        for g in goals:
            if not any(P.guarded(fn, g, edges[bi][0]) for bi, _t in draws):
                orphan.append('sample_goal at %s is not on the true edge of random_bool' % fn.loc(g))
        for u in unis:
            if not any(P.guarded(fn, u, edges[bi][1]) for bi, _t in draws):
                orphan.append('sample_uniform at %s is not on the false edge of random_bool' % fn.loc(u))
        for k, (bi, t) in enumerate(draws):
            found += 1
            prob = fn.arg_terms(t, 1, bi)
            probs = []
            if not (prob and all(n[0] == 'field' and n[2] in pubs and all(m[0] == 'param' and m[1] == 1 for m in n[1]) for n in prob)):
                probs.append('bias probability %s is not the planner\'s public field unmodified' % fmt_terms(prob)[:60])
            te, fe = edges[bi]
            if not any(P.guarded(fn, g, te) for g in goals) or not any(P.guarded(fn, u, fe) for u in unis):
                probs.append('goal or uniform sampling missing next to the bias draw')
            if k == 0:
                probs.extend(orphan)
            r_bias.inst('%s: bias draw at %s selects goal/uniform with probability %s' % (b.path, b.loc(bi), fmt_terms(prob)[:40]),
                        ok=not probs, site=b.loc(bi))
            for o, pr in enumerate(probs):
                r_bias.violations.append(Violation('C16', 'C16.bias', b.path, 'bias', pr, loc=b.loc(bi), ordinal=o))
    if found < 1:
        r_bias.violations.append(Violation('C16', 'C16.bias', p['adt'], 'floor', 'no goal-bias draw in %s' % p['name']))


def _push_events(ctx, p, fn, helpers_cache):
    """(block, key) for every direct push to a node container and every call of a planner helper that pushes;
    key identifies the container operand"""
    evs = []
    b = fn.b
    for bi, t in b.calls():
        path = t['func'].get('path')
        if path == VEC_PUSH:
            pl = t['args'][0].get('move') or t['args'][0].get('copy')
            if pl is not None and P.node_vec_ty(p, b.local_ty(pl['l'])):
                evs.append((bi, ('direct', fn.place_terms(pl, (bi, fn.nstmts(bi)), mut_kills=False)), t, 0))
        else:
            cb = b.crate.body(path) if path else None
            if cb is not None and cb.path != b.path and cb in p['methods']:
                cnt = helpers_cache.get(cb.path)
                if cnt is None:
                    cnt = _max_pushes_per_call(ctx, p, ctx.fn(cb), helpers_cache)
                    helpers_cache[cb.path] = cnt
                if cnt:
                    # which argument is the container
                    for j, a in enumerate(t['args']):
                        pl = a.get('move') or a.get('copy')
                        if pl is not None and not pl['p'] and P.node_vec_ty(p, b.local_ty(pl['l'])):
                            evs.append((bi, ('helper', j, a), t, cnt))
    return evs


def _max_pushes_per_call(ctx, p, fn, cache):
    """maximum number of container pushes along any path through the function; None if a push sits in a loop"""
    evs = _push_events(ctx, p, fn, cache)
    if not evs:
        return 0
    for L in fn.loops():
        if any(bi in L['body'] for (bi, _k, _t, _c) in evs):
            return 99
    return _longest(fn, 0, set(fn.return_blocks()), {bi: (c or 1) for (bi, _k, _t, c) in evs}, frozenset())


def _longest(fn, start, ends, weight, removed):
    """max total weight along any acyclic path from start (DAG after removing back edges)"""
    import functools
    back = set()
    for L in fn.loops():
        back |= set(L['back_edges'])

    @functools.lru_cache(maxsize=None)
    def go(b):
        best = 0
        for s in fn.succs(b):
            if (b, s) in back or (b, s) in removed:
                continue
            best = max(best, go(s))
        return best + weight.get(b, 0)
    import sys
    sys.setrecursionlimit(10000)
    return go(start)


def _one(ctx, p, r_one):
    cache = {}
    for b in p['methods']:
        if b.name != 'solve' or not b.impl_trait:
            continue
        fn = ctx.fn(b)
        evs = _push_events(ctx, p, fn, cache)
        if not evs:
            r_one.violations.append(Violation('C16', 'C16.one', b.path, 'no-push', 'no push reachable in solve (unrecognised shape)', loc=b.loc(0)))
            continue
        # group by container key
        groups = {}
        for (bi, key, t, cnt) in evs:
            if key[0] == 'direct':
                k = ('cont', key[1])
            else:
                # helper(tree_x, ...): distinguish the operands by the place they read (tuple component)
                a = key[2]
                pl = a.get('move') or a.get('copy')
                src = _operand_source(fn, pl, bi)
                k = ('operand', src)
            groups.setdefault(k, []).append((bi, cnt or 1))
        for k, lst in groups.items():
            loops = _main_loops(fn)
            worst = 0
            for L in loops:
                inside = {bi: c for (bi, c) in lst if bi in L['body']}
                if not inside:
                    continue
                removed = frozenset(L['back_edges'])
                w = _longest_in_loop(fn, L, inside)
                worst = max(worst, w)
            ok = worst <= 1
            r_one.inst('%s: at most %d push(es) per iteration into %s' % (b.path, worst, _kstr(k)), ok=ok, site=b.loc(lst[0][0]))
            if not ok:
                r_one.violations.append(Violation('C16', 'C16.one', b.path, 'multi-push',
                                                  'up to %d nodes can be added to %s in one iteration' % (worst, _kstr(k)), loc=b.loc(lst[0][0])))
        # distinct operands of a helper must denote distinct containers in every arm of their definition
        ops = [k for k in groups if k[0] == 'operand']
        if len(ops) >= 2:
            ok, why = _operands_distinct(fn, ops)
            r_one.inst('%s: the containers extended in one iteration are distinct' % b.path, ok=ok)
            if not ok:
                r_one.violations.append(Violation('C16', 'C16.one', b.path, 'same-tree', why, loc=b.loc(0)))


def _kstr(k):
    if k[0] == 'cont':
        return fmt_terms(k[1])[:40]
    return 'operand %s' % (k[1],)


def _operand_source(fn, pl, bi):
    """follow a temp back to the place it was copied/reborrowed from: (local, field path)"""
    cur = pl
    point = (bi, fn.nstmts(bi))
    for _ in range(10):
        if cur['p']:
            names = tuple(((e.get('name') or str(e.get('f'))) if isinstance(e, dict) else 'deref') for e in cur['p'])
            return (cur['l'], names)
        evs, entry = fn.reaching(cur['l'], point, (), True, whole_only=True)
        if len(evs) != 1 or entry:
            return (cur['l'], ())
        e = evs[0]
        if e.kind != 'assign' or e.data['k'] != 'assign':
            return (cur['l'], ())
        rv = e.data['rv']
        if rv['k'] in ('ref', 'rawptr'):
            nxt = rv['place']
        elif rv['k'] == 'use' and ('move' in rv['op'] or 'copy' in rv['op']):
            nxt = rv['op'].get('move') or rv['op'].get('copy')
        else:
            return (cur['l'], ())
        # strip a leading deref of a temp:  &mut (*_x)  ->  _x
        if nxt['p'] and nxt['p'][0] == 'deref' and len(nxt['p']) == 1:
            nxt = {'l': nxt['l'], 'p': []}
        cur = nxt
        point = (e.block, e.idx)
    return (cur['l'], ())


def _operands_distinct(fn, ops):
    """ops are ('operand', (tuple local, (field k,))) of the same tuple local: in every definition of that tuple
    the components denote different containers"""
    locs = {o[1][0] for o in ops}
    if len(locs) != 1:
        return True, ''
    L = next(iter(locs))
    comps = sorted({o[1][1] for o in ops})
    for e in fn.events(L):
        if e.kind != 'assign' or e.path:
            continue
        rv = e.data['rv']
        if rv['k'] != 'agg' or rv['agg'] != 'tuple':
            return False, 'tree operands are not defined by a tuple literal (unrecognised shape)'
        seen = []
        for c in comps:
            try:
                k = int(c[0]) if c else None
            except (TypeError, ValueError):
                k = None
            if k is None or k >= len(rv['fields']):
                return False, 'cannot resolve tuple component (unrecognised shape)'
            ts = fn.op_terms(rv['fields'][k], (e.block, e.idx), mut_kills=False)
            seen.append(ts)
        if len(set(seen)) != len(seen):
            return False, 'both extensions of one iteration can target the same tree'
    return True, ''


def _longest_in_loop(fn, L, weight):
    import functools
    body = L['body']
    back = set()
    for M in fn.loops():
        back |= set(M['back_edges'])

    @functools.lru_cache(maxsize=None)
    def go(b):
        best = 0
        for s in fn.succs(b):
            if (b, s) in back or s not in body:
                continue
            best = max(best, go(s))
        return best + weight.get(b, 0)
    return go(L['header'])


def _balance(ctx, p, r_bal):
    solves = [b for b in p['methods'] if b.name == 'solve' and b.impl_trait]
    for b in solves:
        fn = ctx.fn(b)
        probs = []
        # start-rooted container name (root pushed in setup from start_states)
        start_c = None
        for pu in P.pushes(ctx, p):
            if pu['in_setup']:
                st = P.node_field(pu['node'], pu['cinfo']['state_field'])
                if st is not None and P.is_start_origin(st):
                    for n in pu['cont']:
                        if n[0] == 'field':
                            start_c = n[2]
        if start_c is None:
            r_bal.violations.append(Violation('C16', 'C16.balance', b.path, 'no-start-tree', 'cannot identify the start tree (unrecognised shape)', loc=b.loc(0)))
            continue
        other_c = [c for c in p['containers'] if c != start_c]
        # the selecting comparison: len(start) ? len(goal)
        sel = None
        for blk in range(fn.nb):
            si = fn.switch_info(blk)
            if si is None or fn.blocks[blk]['cleanup']:
                continue
            terms, tmap, other = si
            if len(terms) != 1 or set(tmap.keys()) != {'0'}:
                continue
            n = next(iter(terms))
            if n[0] != 'binop' or n[1] not in ('Lt', 'Le', 'Gt', 'Ge'):
                continue

            def len_of(ts, cnames):
                """ts == len(self.<c>) [+ k]  ->  (container name, k)"""
                if len(ts) != 1:
                    return None
                m = next(iter(ts))
                k = 0
                if m[0] == 'field' and m[2] == '0' and len(m[1]) == 1:
                    m = next(iter(m[1]))
                if m[0] == 'binop' and m[1] in ('Add', 'AddWithOverflow', 'AddUnchecked', 'Sub', 'SubWithOverflow', 'SubUnchecked') and \
                        len(m[2]) == 1 and len(m[3]) == 1 and next(iter(m[3]))[0] == 'const':
                    try:
                        k = int(next(iter(m[3]))[1]) * (1 if m[1].startswith('Add') else -1)
                    except ValueError:
                        return None
                    m = next(iter(m[2]))
                if m[0] == 'call' and m[1] == VEC_LEN and len(m[2][0]) == 1:
                    c = next(iter(m[2][0]))
                    if c[0] == 'field' and c[2] in cnames:
                        return (c[2], k)
                return None
            la, lb = len_of(n[2], set(p['containers'])), len_of(n[3], set(p['containers']))
            if la and lb and {la[0], lb[0]} == {start_c} | set(other_c[:1]) and la[0] != lb[0]:
                sel = (blk, n[1], tmap['0'], other, la, lb)
        if sel is None:
            r_bal.violations.append(Violation('C16', 'C16.balance', b.path, 'no-selection',
                                              'no comparison of the two tree sizes selects the tree to grow', loc=b.loc(0)))
            continue
        blk, op, f_t, t_t, la, lb = sel
        # relation of |start| vs |goal| on each edge, by enumeration over small sizes (offsets included)
        import operator
        fop = {'Lt': operator.lt, 'Le': operator.le, 'Gt': operator.gt, 'Ge': operator.ge}[op]
        rel_true, rel_false = set(), set()
        for sv in range(0, 6):
            for gv in range(0, 6):
                av = (sv if la[0] == start_c else gv) + la[1]
                bv = (sv if lb[0] == start_c else gv) + lb[1]
                rel = 'lt' if sv < gv else ('eq' if sv == gv else 'gt')
                (rel_true if fop(av, bv) else rel_false).add(rel)
        reach = fn.reachable(0)
        loops_ = fn.loops()

        def same_iteration_reach(x):
            """blocks reachable from x without starting a new iteration of the innermost loop around x"""
            inl = [L for L in loops_ if x in L['body']]
            stop = frozenset([min(inl, key=lambda l: len(l['body']))['header']]) if inl else frozenset()
            return fn.reachable(x, stop=stop)
        # the extension helper calls (a planner helper that pushes and returns an Option)
        helper_calls = [(bi, t) for bi, t in b.calls()
                        if bi in reach and b.crate.body(t['func'].get('path', '')) in p['methods'] and
                        any(P.node_vec_ty(p, b.local_ty((a.get('move') or a.get('copy'))['l']))
                            for a in t['args'] if (a.get('move') or a.get('copy')) is not None and not (a.get('move') or a.get('copy'))['p'])
                        and (b.crate.body(t['func']['path']).j.get('ret_ty', '').startswith('std::option::Option<') or
                             _max_pushes_per_call(ctx, p, ctx.fn(b.crate.body(t['func']['path'])), {}))]    # the helper that extends a tree

        def cont_names(bi, t):
            for a in t['args']:
                pl = a.get('move') or a.get('copy')
                if pl is not None and not pl['p'] and P.node_vec_ty(p, b.local_ty(pl['l'])):
                    ts = fn.place_terms(pl, (bi, fn.nstmts(bi)), mut_kills=False)
                    return {n[2] for n in ts if n[0] == 'field'}
            return set()
        firsts, seconds = [], []
        for (bi, t) in helper_calls:
            before = [(bj, tj) for (bj, tj) in helper_calls if bj != bi and bi in same_iteration_reach(bj)]
            (seconds if before else firsts).append((bi, t, before))
        per_path = max([1 + len(bef) for (_bi, _t, bef) in seconds] + [1 if firsts else 0])
        if not firsts or not seconds or per_path != 2:
            probs.append('expected exactly two extension calls per iteration (grow, then connect), found %d on one path (unrecognised shape)' % per_path)
        stop = frozenset([blk])
        r_t, r_f = fn.reachable(t_t, stop=stop), fn.reachable(f_t, stop=stop)
        # which tuple literal is built on each edge: component 0 = tree grown first (the merged, un-split shape)
        arms = {}
        for e in fn.events():
            if e.block in reach and e.kind == 'assign' and not e.path and e.data['k'] == 'assign' and e.data['rv']['k'] == 'agg' and \
                    e.data['rv']['agg'] == 'tuple' and len(e.data['rv']['fields']) >= 2:
                rv = e.data['rv']
                c0 = fn.op_terms(rv['fields'][0], (e.block, e.idx), mut_kills=False)
                c1 = fn.op_terms(rv['fields'][1], (e.block, e.idx), mut_kills=False)
                names0 = {n[2] for n in c0 if n[0] == 'field'}
                names1 = {n[2] for n in c1 if n[0] == 'field'}
                if names0 and names1 and (names0 | names1) <= set(p['containers']):
                    flag = None
                    if len(rv['fields']) >= 3:
                        ft = fn.op_terms(rv['fields'][2], (e.block, e.idx))
                        if len(ft) == 1 and next(iter(ft))[0] == 'const':
                            flag = next(iter(ft))[1]
                    on_true = e.block in r_t and e.block not in r_f
                    on_false = e.block in r_f and e.block not in r_t
                    arms[e.block] = (names0, names1, flag, 'true' if on_true else ('false' if on_false else '?'))
        merged = any(len(cont_names(bi, t)) != 1 for (bi, t, _b) in firsts)
        if merged:
            if len(arms) < 2:
                probs.append('the two (grow, connect) tree assignments are not tuple literals on the two edges of the size test (unrecognised shape)')
            for blk2, (n0, n1, flag, edge) in arms.items():
                rel = rel_true if edge == 'true' else (rel_false if edge == 'false' else None)
                if rel is None:
                    probs.append('tree assignment at %s is not on one edge of the size comparison' % fn.loc(blk2))
                    continue
                grows_start = n0 == {start_c}
                if grows_start and 'gt' in rel:
                    probs.append('the start tree is grown first although it is the larger one')
                if not grows_start and 'lt' in rel:
                    probs.append('the goal tree is grown first although it is the larger one')
                if n0 == n1:
                    probs.append('the same tree is both grown and connected')
                if flag is not None and (flag == 'true') != grows_start:
                    probs.append('the "growing start tree" flag disagrees with the tree actually grown')
        else:
            # every copy of the iteration grows exactly one known tree: relate it to the edge of the size test it lives on
            for (bi, t, _b) in firsts:
                n0 = cont_names(bi, t)
                rel = rel_true if (bi in r_t and bi not in r_f) else (rel_false if (bi in r_f and bi not in r_t) else None)
                if rel is None:
                    probs.append('the extension at %s is not confined to one edge of the size comparison' % fn.loc(bi))
                    continue
                grows_start = n0 == {start_c}
                if grows_start and 'gt' in rel:
                    probs.append('the start tree is grown first although it is the larger one')
                if not grows_start and 'lt' in rel:
                    probs.append('the goal tree is grown first although it is the larger one')
            for (bi, t, bef) in seconds:
                n1 = cont_names(bi, t)
                for (bj, tj) in bef:
                    if cont_names(bj, tj) & n1:
                        probs.append('the same tree is both grown and connected')
        # the second extension targets the node just added by the first; success requires Reached
        second_sites = set()
        for (b2, t2, bef) in seconds:
            second_sites.add((fn.path, b2))
            tgt2 = None
            for j, a in enumerate(t2['args']):
                pl = a.get('move') or a.get('copy')
                if pl is not None and b.local_ty(pl['l']) in ('&S', "&'_ S"):
                    tgt2 = strip_clone(fn.arg_terms(t2, j, b2))
            okt = False
            if tgt2:
                okt = True
                for n in tgt2:
                    # tree_a[ idx from the first extend of this iteration ].state
                    hit = False
                    if n[0] == 'field' and len(n[1]) == 1:
                        ixn = next(iter(n[1]))
                        if ixn[0] == 'index' and any(m[0] == 'call' and any(m[3] == (fn.path, b1) for (b1, _t1) in bef) for m in walk(ixn[2])):
                            hit = True
                    okt = okt and hit
            if not okt:
                probs.append('the second extension does not aim at the node just added by the first (target %s)' % fmt_terms(tgt2 or frozenset())[:80])
        if seconds:
            # success (the Ok built from two reconstructed branches) requires connect_result == Reached
            joined = [bi for bi, t in b.calls() if bi in reach and t['func'].get('path', '').endswith('Extend::extend')]
            reached_edges = set()
            for sb in range(fn.nb):
                si = fn.switch_info(sb)
                if si is None or sb not in reach:
                    continue
                terms, tmap, other = si
                if len(terms) != 1:
                    continue
                n = next(iter(terms))
                from_second = lambda ts: any(m[0] == 'call' and m[3] in second_sites for m in walk(ts))
                neg = False
                while n[0] == 'unop' and n[1] == 'Not' and len(n[2]) == 1:
                    n = next(iter(n[2]))
                    neg = not neg
                if set(tmap.keys()) == {'0'} and n[0] == 'call' and n[1] in ('std::cmp::PartialEq::eq', 'std::cmp::PartialEq::ne') and \
                        from_second(n[2][0]):
                    # compared with the Reached variant (`== Reached` on the true edge, `!= Reached` on the false edge)
                    rhs_ok = any('Reached' in str(m) or m[0] == 'const' for m in walk(n[2][1]))
                    if rhs_ok:
                        on_true = (n[1].endswith('::eq')) != neg
                        reached_edges.add((sb, other if on_true else tmap['0']))
                elif n[0] == 'discr' and from_second(n[1]) and (all(x[0] == 'field' for x in n[1]) or
                                                                 all(x[0] == 'call' and x[3] in second_sites for x in n[1])):
                    # `match extend(..) { Some((ExtendResult::Reached, i)) => .. }`: the edge of the Reached variant
                    for ename, adt in b.crate.adts.items():
                        names = [v['name'] for v in adt['variants']]
                        if adt.get('is_enum') and 'Reached' in names and ename.startswith(p['module']):
                            v = str(names.index('Reached'))
                            if v in tmap and sum(1 for x in tmap.values() if x == tmap[v]) == 1 and tmap[v] != other:
                                # (the discriminant read is a component of the Some payload - the result kind - not the Option)
                                reached_edges.add((sb, tmap[v]))
            for jb in joined:
                if not P.guarded(fn, jb, reached_edges):
                    probs.append('the two branches are joined at %s without the connection having reached the new node' % fn.loc(jb))
            if not joined:
                probs.append('no join of the two branches found (unrecognised shape)')
        r_bal.inst('%s: size test at %s selects the smaller tree; connect targets the new node; join requires Reached' % (b.path, fn.loc(blk)),
                   ok=not probs, site=fn.loc(blk))
        for o, pr in enumerate(probs):
            r_bal.violations.append(Violation('C16', 'C16.balance', b.path, 'balance', pr, loc=fn.loc(blk), ordinal=o))
