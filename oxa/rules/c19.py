"""C19 — Python planners and spaces return exactly what the Rust core returns (delegation fidelity of oxmpl-py).

C19.args      arguments of equal type are passed to core functions in the callee's parameter order (decided by name
              agreement between binding and core parameter names) and flow unmodified (no arithmetic on the way)
C19.dispatch  every planner wrapper handles every variant in new / setup / solve [/ construct_roadmap]
C19.lossless  state / path / problem-definition conversions only clone, wrap and collect (no float operation, no
              re-canonicalisation)
C19.errors    a core constructor error becomes ValueError (never unwrap / another exception type)
C19.seed      PlannerConfig(seed) reaches the core PlannerConfig{seed} unmodified
C19.siblings  the planner wrappers agree with each other method by method
Does not compare outputs of two runs.
"""
import re

from ..core import RuleResult, Violation, user_call
from ..engine import walk, fmt_terms, strip_clone, T

META = {
    'explanation': 'C19: the bindings add no arithmetic, no reordering and no extra failure modes between the Python '
                   'call and the core call: argument-order agreement by parameter names at every binding->core call, '
                   'variant exhaustiveness, effect whitelist for conversions, error mapping, seed provenance, sibling '
                   'agreement of the four planner wrappers.',
    'assumptions': ['pyo3 argument extraction passes Python floats/ints unchanged', 'core parameter names are meaningful '
                    '(name agreement is the oracle for same-typed arguments)'],
}


def agrees(a, b):
    if not a or not b:
        return False
    a, b = a.lstrip('_'), b.lstrip('_')
    return a == b or a.startswith(b) or b.startswith(a)


_CORE_INDEX = {}


def _tail(path):
    # (type name, method) of an inherent method path, generics dropped
    p = re.sub(r'::<[^>]*>', '', path)
    parts = p.split('::')
    if len(parts) < 2:
        return None
    return (parts[-2], parts[-1])


def core_body_for(ctx, path):
    """the core body a binding call refers to; the binding sees re-exported paths (oxmpl::geometric::RRT::new),
    so inherent methods are matched by (type name, method name), which is unique in the core crate"""
    if not path or not path.startswith('oxmpl::'):
        return None
    b = ctx.core.body(path[len('oxmpl::'):])
    if b is not None:
        return b
    if not _CORE_INDEX:
        for cb in ctx.core.bodies:
            if cb.kind == 'AssocFn' and cb.impl_trait is None and not cb.in_test_mod():
                k = _tail(cb.path)
                if k:
                    _CORE_INDEX.setdefault(k, []).append(cb)
    k = _tail(path)
    hit = _CORE_INDEX.get(k, [])
    return hit[0] if len(hit) == 1 else None


def user_bodies(crate):
    out = []
    for b in crate.bodies:
        if b.in_test_mod():
            continue
        nm = b.name or ''
        if nm.startswith('__pymethod') or nm.startswith('__pyo3') or '__pymethod' in b.path or '_pyo3' in b.path:
            continue
        if [m for m in b.span.get('mac', []) if m != '?']:
            continue
        out.append(b)
    return out


def _operand_consts(o):
    if isinstance(o, dict):
        if 'const' in o and isinstance(o['const'], dict):
            yield o['const']
        for v in o.values():
            if isinstance(v, (dict, list)):
                yield from _operand_consts(v)
    elif isinstance(o, list):
        for v in o:
            yield from _operand_consts(v)


def fn_refs(b):
    """every function this body refers to: callees of its call terminators, function items passed or stored as values
    (`.map(PyPath::from)`, `.map_err(value_error)`) and closures it builds; each as ('call'|'item'|'closure', func-dict|path)"""
    out = []
    for bi, blk in enumerate(b.blocks):
        if blk['cleanup']:
            continue
        for st in blk['stmts']:
            if st['k'] != 'assign':
                continue
            rv = st['rv']
            if rv.get('k') == 'agg' and rv.get('agg') == 'closure':
                out.append(('closure', rv['closure']))
            for c in _operand_consts(rv):
                if 'fn' in c:
                    out.append(('item', c['fn']))
                elif 'closure' in c:
                    out.append(('closure', c['closure']))
        t = blk['term']
        if t['k'] == 'call':
            if 'path' in t['func']:
                out.append(('call', t['func']))
            for c in _operand_consts(t['args']):
                if 'fn' in c:
                    out.append(('item', c['fn']))
                elif 'closure' in c:
                    out.append(('closure', c['closure']))
    return out


def weight(crate, b, pred, stack=()):
    """how many times the body reaches a function satisfying pred, counting through the binding crate's own helpers,
    closures and function items: a match with one core call per arm, six calls of one generic helper and a macro
    expanded six times all weigh six"""
    if b.path in stack:
        return 0
    n = 0
    for kind, f in fn_refs(b):
        if kind == 'closure':
            cb = crate.body(f)
            if cb is not None:
                n += weight(crate, cb, pred, stack + (b.path,))
            continue
        if pred(f):
            n += 1
            continue
        hb = crate.body(f.get('path', ''))
        if hb is not None and f.get('krate') in (None, crate.name, 'oxmpl_py', 'oxmpl_js'):
            n += weight(crate, hb, pred, stack + (b.path,))
    return n


def reach_refs(crate, b, stack=()):
    """fn_refs of the body and, transitively, of the binding crate's helpers / closures it refers to"""
    if b.path in stack:
        return []
    out = []
    for kind, f in fn_refs(b):
        if kind == 'closure':
            cb = crate.body(f)
            if cb is not None:
                out += reach_refs(crate, cb, stack + (b.path,))
            continue
        out.append(f)
        hb = crate.body(f.get('path', ''))
        if hb is not None:
            out += reach_refs(crate, hb, stack + (b.path,))
    return out


def run(ctx, tier):
    r_args = RuleResult('C19.args', 'same-typed arguments reach core functions in parameter order, unmodified')
    r_disp = RuleResult('C19.dispatch', 'every planner wrapper handles every variant in every method')
    r_loss = RuleResult('C19.lossless', 'conversions across the boundary only clone / wrap / collect')
    r_err = RuleResult('C19.errors', 'core constructor errors become ValueError')
    r_seed = RuleResult('C19.seed', 'PlannerConfig(seed) reaches the core unmodified')
    r_sib = RuleResult('C19.siblings', 'planner wrappers agree method by method')
    py = ctx.py
    if py is None:
        r_args.violations.append(Violation('C19', 'C19.args', 'oxmpl-py', 'missing-crate', 'no facts for oxmpl-py (fail closed)'))
        return [r_args]
    bodies = user_bodies(py)
    n_calls = 0
    # ---------------------------------------------------------------- args
    for b in bodies:
        fn = ctx.fn(b)
        ordn = {}
        for bi, t in b.calls():
            f = t['func']
            cb = core_body_for(ctx, f.get('path'))
            if cb is None or not user_call(b, bi):
                continue
            cnames = cb.params
            if len(cnames) != len(t['args']):
                continue
            n_calls += 1
            ctys = [cb.local_ty(i + 1) for i in range(len(cnames))]
            probs = []
            for i, a in enumerate(t['args']):
                at = fn.arg_terms(t, i, bi)
                # unmodified flow for scalar parameters
                if ctys[i] in ('f64', 'f32', 'usize', 'u64', 'std::option::Option<u64>'):
                    for n in walk(at):
                        if n[0] in ('binop', 'unop') or (n[0] == 'cast' and 'IntToFloat' not in n[1] and 'FloatToFloat' not in n[1]):
                            probs.append('argument `%s` is computed (%s) instead of passed through' % (cnames[i], fmt_terms(at)[:50]))
                            break
                same = [j for j in range(len(cnames)) if j != i and ctys[j] == ctys[i]]
                if not same:
                    continue
                # binding-side name of what is passed
                src_names = set()
                for n in strip_clone(at):
                    m = n
                    while m[0] in ('field', 'unwrap') and len(m[1]) == 1:
                        m = next(iter(m[1]))
                    if m[0] == 'param':
                        src_names.add(b.local_name(m[1]) or (b.params[m[1] - 1] if m[1] - 1 < len(b.params) else None))
                if len(src_names) != 1:
                    continue
                nb = next(iter(src_names))
                if nb is None or agrees(nb, cnames[i]):
                    continue
                wrong = [j for j in same if agrees(nb, cnames[j])]
                # symmetric callees (distance(state1, state2)): a swap does not change behaviour
                if wrong and f.get('name') not in ('distance', 'distance_dyn'):
                    probs.append('binding value `%s` is passed as `%s` but the core parameter named like it is `%s` (argument order)' % (
                        nb, cnames[i], cnames[wrong[0]]))
            k = ordn.get(f['path'], 0)
            ordn[f['path']] = k + 1
            r_args.inst('%s -> %s(%s)' % (b.path, f['path'], ', '.join(map(str, cnames))), ok=not probs, site=b.loc(bi),
                        nontrivial=len(set(ctys)) < len(ctys))
            for o, pr in enumerate(probs):
                r_args.violations.append(Violation('C19', 'C19.args', b.path, f['path'].rsplit('::', 2)[-2] + '::' + f['name'], pr,
                                                   loc=b.loc(bi), ordinal=k * 10 + o))
    if n_calls < 30:
        r_args.violations.append(Violation('C19', 'C19.args', 'oxmpl-py', 'floor', 'only %d binding->core calls found (floor 30)' % n_calls))

    # ---------------------------------------------------------------- dispatch / siblings
    wrappers = []
    for adt, a in py.adts.items():
        if a['is_enum'] or not a['variants']:
            continue
        fs = a['variants'][0]['fields']
        pv = [f for f in fs if f['ty'].endswith('PlannerVariant')]
        if pv:
            wrappers.append((adt, pv[0]['ty']))
    if len(wrappers) < 4:
        r_disp.violations.append(Violation('C19', 'C19.dispatch', 'oxmpl-py', 'floor', 'only %d planner wrappers found (floor 4)' % len(wrappers)))
    sigs = {}
    for adt, pvty in sorted(wrappers):
        enum = py.adts.get(pvty)
        nv = len(enum['variants']) if enum else 0
        pdv = [a for p_, a in py.adts.items() if p_.endswith('ProblemDefinitionVariant')]
        npd = len(pdv[0]['variants']) if pdv else 0
        if nv != npd or nv < 6:
            r_disp.violations.append(Violation('C19', 'C19.dispatch', adt, 'variants',
                                               'planner has %d variants, problem definitions have %d (floor 6)' % (nv, npd)))
        methods = {b.name: b for b in bodies if b.j.get('impl_adt') == adt and b.kind == 'AssocFn' and b.impl_trait is None}
        sig = {}
        for mname, pattern in (('new', r'::new$'), ('setup', r'planner::Planner::setup$'), ('solve', r'planner::Planner::solve$'),
                               ('construct_roadmap', r'::construct_roadmap$')):
            b = methods.get(mname)
            if b is None:
                if mname != 'construct_roadmap':
                    r_disp.violations.append(Violation('C19', 'C19.dispatch', adt, mname, 'wrapper has no %s' % mname))
                continue
            if mname in ('setup', 'solve'):
                pred = lambda f, pattern=pattern: bool(re.search(pattern, f.get('path', '')))
            else:
                pred = lambda f, pattern=pattern: f.get('krate') == 'oxmpl' and bool(re.search(pattern, f.get('path', ''))) \
                    and 'geometric' in (f.get('path', '') + f.get('full', ''))
            ncalls = weight(py, b, pred)
            sig[mname] = ncalls
            ok = ncalls == nv
            r_disp.inst('%s::%s dispatches %d of %d variants to the core' % (adt, mname, ncalls, nv), ok=ok, site=b.loc(0))
            if not ok:
                r_disp.violations.append(Violation('C19', 'C19.dispatch', b.path, mname,
                                                   '%s reaches the core for %d of %d variants' % (mname, ncalls, nv), loc=b.loc(0)))
            if mname == 'solve':
                # Ok -> PyPath::from (directly, as a function item given to map, or in a helper)
                sig['solve_from'] = any(
                    (f.get('path') == 'std::convert::From::from' or f.get('path', '').endswith('PyPath::from')) and
                    ('PyPath' in f.get('full', '') or 'PyPath' in str(f.get('self_ty', ''))) for f in reach_refs(py, b))
        sigs[adt] = sig
    names = sorted(sigs)
    if names:
        base = {k: v for k, v in sigs[names[0]].items() if k != 'construct_roadmap'}
        for n in names[1:]:
            other = {k: v for k, v in sigs[n].items() if k != 'construct_roadmap'}
            ok = other == base
            r_sib.inst('%s agrees with %s: %s' % (n, names[0], other), ok=ok)
            if not ok:
                r_sib.violations.append(Violation('C19', 'C19.siblings', n, 'shape', 'wrapper shape %s differs from %s %s' % (other, names[0], base)))

    # ---------------------------------------------------------------- lossless
    n_conv = 0
    for b in bodies:
        role = None
        if b.impl_trait and b.impl_trait.endswith('PyStateConvert'):
            role = 'state conversion'
        elif b.impl_trait == 'std::convert::From' and 'PyPath' in (b.j.get('impl_self') or ''):
            role = 'path conversion'
        elif (b.j.get('impl_adt') or '').endswith('PyPath') and b.name and (b.name.startswith('from_') or b.name == 'get_states'):
            role = 'path accessor'
        elif (b.j.get('impl_adt') or '').endswith('PyProblemDefinition') and b.name and b.name.startswith('from_'):
            role = 'problem definition'
        if role is None:
            continue
        n_conv += 1
        probs = _lossless(b)
        # closures of this body
        for c in bodies:
            if c.kind == 'Closure' and c.path.startswith(b.path + '::'):
                probs += _lossless(c)
        r_loss.inst('%s (%s) only clones / wraps / collects' % (b.path, role), ok=not probs, site=b.loc(0))
        for o, pr in enumerate(probs):
            r_loss.violations.append(Violation('C19', 'C19.lossless', b.path, role, pr, loc=b.loc(0), ordinal=o))
    if n_conv < 12:
        r_loss.violations.append(Violation('C19', 'C19.lossless', 'oxmpl-py', 'floor', 'only %d conversion functions found (floor 12)' % n_conv))

    # ---------------------------------------------------------------- errors
    n_ctor = 0
    for b in bodies:
        if b.name != 'new' or b.impl_trait is not None:
            continue
        fn = ctx.fn(b)
        for bi, t in b.calls():
            cb = core_body_for(ctx, t['func'].get('path'))
            if cb is None:
                continue
            if not (cb.j.get('ret_ty', '').startswith('std::result::Result<') and 'StateSpaceError' in cb.j.get('ret_ty', '')):
                continue
            n_ctor += 1
            d = t['dest']
            probs = []
            uses = []
            for bj, t2 in b.calls():
                for a in t2['args']:
                    pl = a.get('move') or a.get('copy')
                    if pl is not None and pl['l'] == d['l']:
                        uses.append(t2['func'].get('path', 'indirect'))
            bad = [u for u in uses if u.startswith('std::result::Result::<T, E>::') and u.rsplit('::', 1)[1] in
                   ('unwrap', 'expect', 'unwrap_or', 'unwrap_or_default', 'unwrap_or_else', 'ok', 'unwrap_unchecked')]
            if bad:
                probs.append('the constructor result is consumed by %s: a core error becomes a panic / is swallowed' % bad[0])
            excs = {f.get('full', '') for f in reach_refs(py, b) if 'new_err' in f.get('path', '') or 'PyErr::new' in f.get('path', '')}
            kinds = set()
            for e in excs:
                m = re.findall(r'exceptions::(Py\w+)', e)
                kinds |= set(m)
            if kinds != {'PyValueError'}:
                probs.append('constructor errors are raised as %s, expected exactly ValueError' % (sorted(kinds) or 'nothing'))
            r_err.inst('%s maps the error of %s to ValueError' % (b.path, cb.path), ok=not probs, site=b.loc(bi))
            for o, pr in enumerate(probs):
                r_err.violations.append(Violation('C19', 'C19.errors', b.path, 'ctor', pr, loc=b.loc(bi), ordinal=o))
    if n_ctor < 5:
        r_err.violations.append(Violation('C19', 'C19.errors', 'oxmpl-py', 'floor', 'only %d fallible space constructors wrapped (floor 5)' % n_ctor))

    # ---------------------------------------------------------------- seed
    found = False
    for b in bodies:
        if b.name == 'new' and (b.j.get('impl_adt') or '').endswith('PyPlannerConfig'):
            fn = ctx.fn(b)
            for bi, blk in enumerate(b.blocks):
                if blk['cleanup']:
                    continue
                for si, st in enumerate(blk['stmts']):
                    if st['k'] == 'assign' and st['rv']['k'] == 'agg' and str(st['rv'].get('adt', '')).endswith('planner::PlannerConfig'):
                        found = True
                        ts = fn.rvalue_terms(st['rv'], (bi, si))
                        ok = all(n[0] == 'agg' and all(all(q[0] == 'param' for q in v) for (_f, v) in n[3]) for n in ts)
                        r_seed.inst('%s builds PlannerConfig{seed: <parameter>}' % b.path, ok=ok, site=b.loc(bi, si))
                        if not ok:
                            r_seed.violations.append(Violation('C19', 'C19.seed', b.path, 'seed', 'the seed is modified on its way to the core: %s' % fmt_terms(ts)[:80], loc=b.loc(bi, si)))
    if not found:
        r_seed.violations.append(Violation('C19', 'C19.seed', 'oxmpl-py', 'floor', 'no PlannerConfig construction found in the bindings'))
    # ---------------------------------------------------------------- forward
    r_fwd = RuleResult('C19.forward', 'a wrapper method that delegates to the same-named core method does so on every path')
    n_fw = 0
    for b in bodies:
        if b.kind != 'AssocFn' or b.impl_trait is not None or b.name in ('new', None):
            continue
        fn = ctx.fn(b)
        same = [bi for bi, t in b.calls() if core_body_for(ctx, t['func'].get('path')) is not None and t['func'].get('name') == b.name and user_call(b, bi)]
        if not same:
            continue
        n_fw += 1
        stop = frozenset(same)
        r = fn.reachable(0, stop=stop)
        bad = [rb for rb in fn.return_blocks() if rb in r and rb not in stop]
        r_fwd.inst('%s reaches the core %s on every path (%d call sites)' % (b.path, b.name, len(same)), ok=not bad, site=b.loc(0))
        if bad:
            r_fwd.violations.append(Violation(
                'C19', 'C19.forward', b.path, b.name,
                'the wrapper can return without calling the core %s it delegates to (an argument test of its own decides): for those '
                'arguments the Python object and the core diverge' % b.name, loc=b.loc(bad[0])))
    if n_fw < 15:
        r_fwd.violations.append(Violation('C19', 'C19.forward', 'oxmpl-py', 'floor', 'only %d same-named delegations found (floor 15)' % n_fw))
    # ---------------------------------------------------------------- callbacks
    # The user's callbacks (goal test / distance / sampler, validity checker) and the spaces' samplers are invoked by the core,
    # at the points and in the number the core decides.  A planner wrapper that calls one itself ("check that the goal can be
    # sampled before setup") makes one more observable invocation than the core: a stateful sampler or a counting checker
    # sees a shifted sequence and the Python result is no longer the core's.
    r_cb = RuleResult('C19.callbacks', 'planner wrappers never invoke the problem\'s callbacks or a sampler themselves: only the core does')
    CB = ('::Goal::is_satisfied', '::GoalRegion::distance_goal', '::GoalSampleableRegion::sample_goal',
          '::StateValidityChecker::is_valid', '::StateSpace::sample_uniform')
    n_pw = 0
    for crate in [c for c in (ctx.py, ctx.js) if c is not None]:
        for b in user_bodies(crate):
            if '::geometric::' not in '::' + b.path and not b.path.startswith('geometric::'):
                continue
            n_pw += 1
            hits = []
            for f in reach_refs(crate, b):
                pth = f.get('path', '') or ''
                if pth.endswith(CB):
                    hits.append(pth)
            r_cb.inst('%s makes no callback / sampler call of its own' % b.path, ok=not hits, site=b.loc(0), nontrivial=False)
            for o, h in enumerate(sorted(set(hits))):
                r_cb.violations.append(Violation(
                    'C19', 'C19.callbacks', b.path, h.rsplit('::', 1)[1],
                    'the planner wrapper calls %s itself (directly or through a helper of the binding crate): one more invocation of the '
                    "user's callback / of the generator than the core makes - a stateful sampler or checker sees a shifted sequence and "
                    'the result differs from the core\'s' % h, loc=b.loc(0), ordinal=o))
    if n_pw < 20:
        r_cb.violations.append(Violation('C19', 'C19.callbacks', 'oxmpl-py', 'floor', 'only %d planner wrapper functions found (floor 20)' % n_pw))
    return [r_args, r_disp, r_loss, r_err, r_seed, r_sib, r_fwd, r_cb, _one_core_object(ctx)]


def _one_core_object(ctx):
    """C19.object - a planner wrapper holds ONE core planner for its whole life: the field that holds the core object is
    written by the constructor only.  The core keeps state across calls (the seeded generator continues, a roadmap is
    reused); a wrapper that rebuilds or swaps its core object in `setup` / `solve` restarts that state and no longer returns
    what the core returns for the same call sequence."""
    r = RuleResult('C19.object', 'the core planner object a wrapper holds is created by its constructor and never replaced')
    n = 0
    for crate in [c for c in (ctx.py, ctx.js) if c is not None]:
        # fields whose type is (an enum of the binding crate over) a core planner
        def holds_core(ty, depth=0):
            if 'oxmpl::geometric::' in ty:
                return True
            adt = crate.adts.get(ty)
            if adt is None or depth > 1:
                return False
            return any(holds_core(f['ty'], depth + 1) for v in adt['variants'] for f in v['fields'])
        for aname, adt in sorted(crate.adts.items()):
            if adt.get('is_enum') or len(adt['variants']) != 1:
                continue
            core_fields = [i for i, f in enumerate(adt['variants'][0]['fields']) if holds_core(f['ty'])]
            if not core_fields:
                continue
            fnames = {i: adt['variants'][0]['fields'][i]['name'] for i in core_fields}
            n += 1
            bad = []
            for b in user_bodies(crate):
                if b.j.get('impl_adt') != aname and not b.path.startswith(aname + '::'):
                    continue
                fn = ctx.fn(b)
                selfs = {1} if b.arg_count >= 1 and aname.rsplit('::', 1)[1] in b.local_ty(1) else set()
                if not selfs:
                    continue
                for bi, blk in enumerate(b.blocks):
                    if blk['cleanup']:
                        continue
                    for si, st in enumerate(blk['stmts']):
                        if st['k'] != 'assign':
                            continue
                        pl = st['place']
                        root = pl['l']
                        br = fn.borrow_root(root) if root not in selfs else None
                        proj = [e for e in pl['p'] if e != 'deref']
                        if (root in selfs or (br is not None and br[0] in selfs)) and proj and isinstance(proj[0], dict) and proj[0].get('f') in fnames \
                                and len(proj) == 1:
                            bad.append((b, bi, si, 'assigns'))
                    t = blk['term']
                    if t['k'] == 'call' and (t['func'].get('path') or '').startswith(('std::mem::replace', 'std::mem::swap', 'std::mem::take')):
                        for j in range(len(t['args'])):
                            ts = fn.arg_terms(t, j, bi)
                            if any(q[0] == 'field' and q[2] in fnames.values() and all(m[0] == 'param' and m[1] == 1 for m in q[1]) for q in ts):
                                bad.append((b, bi, None, t['func'].get('path')))
            r.inst('%s: field(s) %s are written by the constructor only' % (aname, sorted(fnames.values())), ok=not bad, nontrivial=True)
            for o, (b, bi, si, how) in enumerate(bad):
                r.violations.append(Violation(
                    'C19', 'C19.object', b.path, 'replaced',
                    'the wrapper %s its core planner object outside the constructor: the state the core keeps between calls (the seeded '
                    'generator, the tree / roadmap) is restarted, so the same call sequence no longer returns what the core returns' % how,
                    loc=b.loc(bi, si), ordinal=o))
    if n < 4:
        r.violations.append(Violation('C19', 'C19.object', 'oxmpl-py', 'floor', 'only %d planner wrapper types found (floor 4)' % n))
    return r


def _lossless(b):
    probs = []
    for bi, blk in enumerate(b.blocks):
        if blk['cleanup']:
            continue
        for si, st in enumerate(blk['stmts']):
            if st['k'] != 'assign' or [m for m in st['span'].get('mac', []) if m != '?']:
                continue
            rv = st['rv']
            if rv['k'] == 'binop' and rv['op'] in ('Add', 'Sub', 'Mul', 'Div', 'Rem'):
                # float arithmetic only (integer arithmetic is used for lengths / indices)
                for o in (rv['a'], rv['b']):
                    pl = o.get('copy') or o.get('move')
                    if (pl is not None and not pl['p'] and b.local_ty(pl['l']) in ('f64', 'f32')) or \
                            ('const' in o and o['const'].get('ty') in ('f64', 'f32')):
                        probs.append('floating-point arithmetic at %s' % b.loc(bi, si))
                        break
            elif rv['k'] == 'unop' and rv['op'] == 'Neg':
                probs.append('floating-point negation at %s' % b.loc(bi, si))
        t = blk['term']
        if t['k'] == 'call' and user_call(b, bi):
            p = t['func'].get('path', '')
            if p.startswith(('core::f64::', 'std::f64::', 'core::f32::', 'std::f32::')):
                probs.append('float operation %s at %s' % (p, b.loc(bi)))
            if re.match(r'^oxmpl::base::states?::', p) and p.rsplit('::', 1)[1] in ('new', 'normalise', 'identity'):
                probs.append('re-canonicalisation through %s at %s' % (p, b.loc(bi)))
            # a conversion only clones, wraps and collects: any state-space operation applied on the way (clamping the start
            # into the bounds, interpolating, sampling) makes the Python problem differ from the one the core would be given
            full = t['func'].get('full', '') + ' ' + p
            if ('oxmpl::base::space::StateSpace' in full or re.search(r'StateSpace(<[^>]*>)?>?::', full)) and \
                    p.rsplit('::', 1)[-1] in ('enforce_bounds', 'interpolate', 'sample_uniform', 'enforce_bounds_dyn', 'interpolate_dyn', 'sample_uniform_dyn'):
                probs.append('the state is passed through the state-space operation %s at %s' % (p.rsplit('::', 1)[-1], b.loc(bi)))
    return probs
