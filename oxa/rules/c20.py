"""C20 — Python (and JS) callbacks fail closed.

Decided exactly for the policy: it is a property of the *set of values the adapter can return*.
For every impl of StateValidityChecker / Goal / GoalRegion / GoalSampleableRegion in the binding crates,
the return value's leaves (through closures, with_gil, Option/Result adaptors, local helpers) must be
  is_valid / is_satisfied : {strict bool extraction of the callback result, const false}
  distance_goal           : {strict f64 extraction, +inf}
  sample_goal             : Ok payload only from a conversion of the callback result
"""
from ..core import RuleResult, Violation
from ..retval import Leaves

META = {
    'explanation': 'C20: for every callback adapter impl in oxmpl-py and oxmpl-js (discovered from the impl '
                   'tables) the set of values it can return is computed interprocedurally and must be a subset '
                   'of {strictly extracted callback result, the fail-closed constant}. Decides the policy for '
                   'every state and failure position; "planner result identical to callbacks returning False" '
                   'follows because the planner code is shared (not re-proved).',
    'assumptions': ['pyo3 extract::<bool>/extract::<f64> and JsValue::as_bool/as_f64 are strict conversions '
                    '(documented behaviour)', 'std Option/Result adaptors behave as documented'],
}

VALIDITY = 'oxmpl::base::validity::StateValidityChecker'
GOAL = 'oxmpl::base::goal::Goal'
GOALREGION = 'oxmpl::base::goal::GoalRegion'
GOALSAMPLE = 'oxmpl::base::goal::GoalSampleableRegion'

STRICT_BOOL = {('pyo3::Py::<T>::extract', 'bool'), ('pyo3::Bound::<\'py, T>::extract', 'bool'),
               ('pyo3::types::PyAnyMethods::extract', 'bool'),
               ('wasm_bindgen::JsValue::as_bool', None)}
STRICT_F64 = {('pyo3::Py::<T>::extract', 'f64'), ('pyo3::Bound::<\'py, T>::extract', 'f64'),
              ('pyo3::types::PyAnyMethods::extract', 'f64'),
              ('wasm_bindgen::JsValue::as_f64', None)}
INF = {'inff', 'path:std::f64::INFINITY', 'path:core::f64::INFINITY', 'path:std::f64::<impl f64>::INFINITY',
       'path:core::f64::<impl f64>::INFINITY'}


CALLBACK_CALLS = ('call0', 'call1', 'call', 'call_method0', 'call_method1', 'call_method', 'call2', 'call3', 'apply')
STRICT_BOOL_ON_PYBOOL = {'pyo3::types::PyBoolMethods::is_true'}


def _root_ok(leaf, methods):
    """the converted object is the callback's own result: every receiver root is a call of the user's callable
    (call0/call1/..) or of the expected method (call_method*("is_satisfied")) — not a value derived from it by a
    further Python-level call such as __bool__ / __float__ / bool()"""
    roots = leaf[3] if len(leaf) > 3 else frozenset()
    if not roots:
        return False
    for r in roots:
        if r[0] != 'call':
            return False
        name = r[1].rsplit('::', 1)[-1]
        if name not in CALLBACK_CALLS:
            return False
        if name.startswith('call_method') and r[2] not in (methods or ('__call__', 'is_valid', 'isValid')):
            return False
    return True


def _is_strict(leaf, table, methods=None):
    if leaf[0] != 'extract':
        return False
    hit = False
    for (p, g) in table:
        if leaf[1] == p and (g is None or leaf[2] == g):
            hit = True
    if not hit and table is STRICT_BOOL and leaf[1] in STRICT_BOOL_ON_PYBOOL:
        hit = True          # is_true() on a Bound<PyBool> obtained by downcast of the callback result
    return hit and _root_ok(leaf, methods)


def _fmt_leaf(l):
    if l[0] == 'extract' and len(l) > 3:
        return '%s::<%s> applied to %s' % (l[1], l[2], sorted('%s(%s)' % (r[1].rsplit('::', 1)[-1], r[2] or '') if r[0] == 'call' else str(r) for r in l[3]))
    return str(l)


def _check_impls(ctx, crate, cname, res_v, res_g, res_s):
    lv = Leaves(ctx, crate)
    counts = {'validity': 0, 'goal': 0, 'region': 0, 'sample': 0}
    for b in crate.bodies:
        if b.kind != 'AssocFn' or b.in_test_mod():
            continue
        tr = b.impl_trait
        fn = ctx.fn(b)
        ordn = 0
        if tr == VALIDITY and b.name == 'is_valid':
            counts['validity'] += 1
            # `<Adapter as StateValidityChecker<S>>::is_valid` with S a type parameter: a blanket impl
            import re as _re
            m_ = _re.search(r'StateValidityChecker<([A-Za-z_][A-Za-z0-9_]*)>>::is_valid$', b.path)
            if m_ and '::' not in m_.group(1):
                counts['generic_validity'] = counts.get('generic_validity', 0) + 1
            leaves = lv.value(fn, lv.ret_terms(fn))
            bad = [l for l in leaves if not (_is_strict(l, STRICT_BOOL) or l == ('const', 'false'))]
            has_extract = any(_is_strict(l, STRICT_BOOL) for l in leaves)
            ok = not bad and has_extract
            res_v.inst('%s: %s returns %s' % (cname, b.path, sorted(map(str, leaves))), ok=ok,
                       site=b.loc(0))
            for l in bad:
                res_v.violations.append(Violation(
                    'C20', 'C20.validity', b.path, str(l[:2]),
                    'validity adapter can return %s (allowed: strict bool extraction of the callback result, '
                    'or false)' % (l,), loc=b.loc(0), ordinal=ordn))
                ordn += 1
            if not has_extract and not bad:
                res_v.violations.append(Violation(
                    'C20', 'C20.validity', b.path, 'no-extract',
                    'validity adapter never returns the callback result (unrecognised shape)', loc=b.loc(0)))
        elif tr == GOAL and b.name == 'is_satisfied':
            counts['goal'] += 1
            leaves = lv.value(fn, lv.ret_terms(fn))
            MS = ('is_satisfied', 'isSatisfied')
            bad = [l for l in leaves if not (_is_strict(l, STRICT_BOOL, MS) or l == ('const', 'false'))]
            ok = not bad and any(_is_strict(l, STRICT_BOOL, MS) for l in leaves)
            res_g.inst('%s: %s returns %s' % (cname, b.path, sorted(map(str, leaves))), ok=ok, site=b.loc(0))
            for l in bad:
                res_g.violations.append(Violation(
                    'C20', 'C20.goal', b.path, str(l[:2]),
                    'goal adapter is_satisfied can return %s (allowed: strict bool extraction, or false)' % (l,),
                    loc=b.loc(0), ordinal=ordn))
                ordn += 1
            if not bad and not ok:
                res_g.violations.append(Violation('C20', 'C20.goal', b.path, 'no-extract',
                                                  'is_satisfied never returns the callback result', loc=b.loc(0)))
        elif tr == GOALREGION and b.name == 'distance_goal':
            counts['region'] += 1
            leaves = lv.value(fn, lv.ret_terms(fn))
            MD = ('distance_goal', 'distanceGoal')
            bad = [l for l in leaves if not (_is_strict(l, STRICT_F64, MD) or (l[0] == 'const' and l[1] in INF))]
            ok = not bad
            res_g.inst('%s: %s returns %s' % (cname, b.path, sorted(map(str, leaves))), ok=ok, site=b.loc(0))
            for l in bad:
                res_g.violations.append(Violation(
                    'C20', 'C20.goal', b.path, str(l[:2]),
                    'distance_goal can return %s (allowed: strict f64 extraction, or +infinity)' % (l,),
                    loc=b.loc(0), ordinal=ordn))
                ordn += 1
        elif tr == GOALSAMPLE and b.name == 'sample_goal':
            counts['sample'] += 1
            leaves = lv.payload(fn, lv.ret_terms(fn))
            # Ok payload must come from a conversion call of the callback result, never a literal/default
            bad = [l for l in leaves if l[0] != 'extract']
            ok = not bad and bool(leaves)
            res_s.inst('%s: %s Ok payload from %s' % (cname, b.path, sorted(map(str, leaves))), ok=ok,
                       site=b.loc(0))
            for l in bad:
                res_s.violations.append(Violation(
                    'C20', 'C20.sample', b.path, str(l[:2]),
                    'sample_goal can return Ok(%s) not derived from the callback result' % (l,),
                    loc=b.loc(0), ordinal=ordn))
                ordn += 1
    return counts


def run(ctx, tier):
    res_v = RuleResult('C20.validity', 'validity adapters return only {strict bool of callback result, false}')
    res_g = RuleResult('C20.goal', 'goal adapters: is_satisfied in {strict bool, false}; distance_goal in {strict f64, +inf}')
    res_s = RuleResult('C20.sample', 'sample_goal maps a failing callback to Err, never to a default state')
    total = {}
    for crate, cname, floor in ((ctx.py, 'oxmpl-py', 6), (ctx.js, 'oxmpl-js', 6)):
        if crate is None:
            res_v.violations.append(Violation('C20', 'C20.validity', cname, 'missing-crate',
                                              'no facts for crate %s (fail closed)' % cname))
            continue
        c = _check_impls(ctx, crate, cname, res_v, res_g, res_s)
        total[cname] = c
        # one blanket impl (`impl<S: Convert> StateValidityChecker<S> for Adapter`) covers every state type
        if c['validity'] < floor and not c.get('generic_validity'):
            res_v.violations.append(Violation(
                'C20', 'C20.validity', cname, 'floor',
                'only %d StateValidityChecker impls found in %s (floor %d)' % (c['validity'], cname, floor)))
        if c['goal'] < 1:
            res_g.violations.append(Violation('C20', 'C20.goal', cname, 'floor',
                                              'no Goal impl found in %s (floor 1)' % cname))
    res_v.notes.append('impl counts: %s' % total)
    return [res_v, res_g, res_s, _no_exit(ctx)]


def _no_exit(ctx):
    """C20.exit - reporting a callback's exception must not be able to end the process.  `PyErr::print` (and
    `print_and_set_sys_last_vars`) hand the exception to `PyErr_PrintEx`, which for a `SystemExit` prints nothing and
    TERMINATES THE INTERPRETER with the exception's exit code: a callback that raises `SystemExit` inside a fault region
    then kills the process instead of counting as "invalid" (the planner's result is no result at all).  Who-may-call rule
    over every non-test function of the Python binding crate: these two functions are never called; `PyErr::display`,
    `write_unraisable`, logging the `Display` form are the accepted ways to report."""
    r = RuleResult('C20.exit', 'reporting a failed callback cannot terminate the process (no PyErr::print on a callback error)')
    EXITING = ('pyo3::PyErr::print', 'pyo3::PyErr::print_and_set_sys_last_vars', 'pyo3::err::PyErr::print',
               'pyo3::err::PyErr::print_and_set_sys_last_vars')
    crate = ctx.py
    if crate is None:
        r.violations.append(Violation('C20', 'C20.exit', 'oxmpl-py', 'missing-crate', 'no facts for crate oxmpl-py (fail closed)'))
        return r
    n = 0
    for b in crate.bodies:
        if b.in_test_mod():
            continue
        n += 1
        k = 0
        for bi, t in b.calls():
            pth = t['func'].get('path', '') or ''
            if pth in EXITING:
                r.inst('%s calls %s at %s' % (b.path, pth, b.loc(bi)), ok=False, site=b.loc(bi))
                r.violations.append(Violation(
                    'C20', 'C20.exit', b.path, pth.rsplit('::', 1)[1],
                    'a callback error is reported with %s, which terminates the interpreter when the exception is a SystemExit: a callback '
                    'raising SystemExit ends the process instead of counting as invalid / not satisfied / a failed sample' % pth,
                    loc=b.loc(bi), ordinal=k))
                k += 1
    r.inst('who-may-call scan of %d functions of oxmpl-py for process-terminating error reporting' % n, ok=True, nontrivial=False)
    if n < 100:
        r.violations.append(Violation('C20', 'C20.exit', 'oxmpl-py', 'floor', 'only %d functions scanned (floor 100)' % n))
    return r
