"""C18 — the PRM roadmap is a faithful graph and queries are complete on it (structural invariants).

C18.milestone   every checker-accepted sample becomes a milestone (push post-dominates the accept edge) and only those
C18.sym         every forward edge new.edges.push(i) is mirrored by exactly one roadmap[i].edges.push(new_idx), new_idx
                being the index of the node pushed; i ranges over a 0..len scan made before the push
C18.radius / C18.motion  = C05.radius / C03.link restricted to the roadmap planner
C18.idempotent  construct_roadmap returns Ok(()) without touching the roadmap when it is non-empty
C18.bfs         FIFO work list, mark + parent-map insertion at enqueue, goal test on the dequeued index, start
                connections seeded with parent None
C18.reuse       set_problem_definition writes only the problem definition
Exact completeness and hop-minimality follow from "FIFO + mark-on-enqueue + test-on-dequeue over a symmetric graph";
the three premises are checked, the textbook conclusion is not re-proved.
"""
from ..core import RuleResult, Violation, VEC_PUSH, VEC_LEN, user_call
from ..engine import walk, fmt_terms, strip_clone, T
from .. import planner as P
from .c16 import guard_signature
from .c15 import index_in_range

META = {
    'explanation': 'C18: structural invariants of roadmap construction (accept => milestone, symmetric single edges '
                   'between distinct earlier milestones, radius and motion guards, idempotent re-construction) and of the '
                   'query (FIFO, mark/parent at enqueue, goal test at dequeue, roots with parent None, problem '
                   'replacement leaves the roadmap alone).',
    'assumptions': ['breadth-first search over a symmetric graph with mark-on-enqueue finds a fewest-hop path (textbook)',
                    'C03.link and C05.radius hold for the roadmap planner (re-run here)'],
}


def roadmap_planners(ctx):
    return [p for p in ctx.planners()
            if any(c['links'] and not any('parent' in l for l in c['links']) for c in p['containers'].values())]


def run(ctx, tier):
    r_ms = RuleResult('C18.milestone', 'exactly the checker-accepted samples become milestones')
    r_sym = RuleResult('C18.sym', 'edges are created in both directions, once, between the new node and earlier milestones')
    r_rm = RuleResult('C18.guards', 'roadmap links are radius- and motion-guarded (C05.radius, C03.link on the roadmap planner)')
    r_idem = RuleResult('C18.idempotent', 'repeated construction leaves a non-empty roadmap unchanged')
    r_bfs = RuleResult('C18.bfs', 'FIFO queue, mark+parent at enqueue, goal test at dequeue, roots seeded with None')
    r_reuse = RuleResult('C18.reuse', 'replacing the problem writes only the problem definition')
    r_q = RuleResult('C18.query', 'start connections and goal set are complete: whole-roadmap scans, a milestone is skipped only by its own test')
    rps = roadmap_planners(ctx)
    if len(rps) < 1:
        r_ms.violations.append(Violation('C18', 'C18.milestone', 'oxmpl', 'floor', 'no roadmap planner found (floor 1)'))
    for p in rps:
        cname = list(p['containers'].keys())[0]
        c = p['containers'][cname]
        cont = T(('field', T(('param', 1, 'self')), cname))
        pushes = [pu for pu in P.pushes(ctx, p)]
        vqs = P.validity_queries(ctx, p)
        links, probs = P.collect_links(ctx, p)
        # ---------------------------------------------------------------- milestone
        for pu in pushes:
            fn, b, bi = pu['fn'], pu['body'], pu['block']
            st = P.node_field(pu['node'], c['state_field'])
            qs = [q for q in vqs if q['fn'] is fn and st is not None and P.same_value(q['state'], st)]
            ok = False
            why = 'no validity query on the sample'
            for q in qs:
                if not P.guarded(fn, bi, q['true_edges']):
                    why = 'the milestone push is not confined to the accept edge'
                    continue
                # post-dominance inside the iteration: from the accept edge every way back to the loop header passes the push
                loops = [L for L in fn.loops() if bi in L['body']]
                if not loops:
                    ok = True
                    continue
                L = min(loops, key=lambda l: len(l['body']))
                acc_targets = [d for (_s, d) in q['true_edges']]
                seen = fn.reachable_multi(acc_targets, stop=frozenset([bi]))
                escaped = any(src in seen and src != bi for (src, _d) in L['back_edges']) or \
                    any(x in seen and x != bi for x in fn.return_blocks())
                if escaped:
                    why = 'an accepted sample can be dropped (the iteration can end without pushing it)'
                else:
                    ok = True
            r_ms.inst('%s: milestone push at %s <=> sample accepted' % (b.path, b.loc(bi)), ok=ok, site=b.loc(bi))
            if not ok:
                r_ms.violations.append(Violation('C18', 'C18.milestone', b.path, 'push', why, loc=b.loc(bi)))
        if not pushes:
            r_ms.violations.append(Violation('C18', 'C18.milestone', p['adt'], 'floor', 'no milestone push found'))

        # ---------------------------------------------------------------- symmetry
        fwd = [L for L in links if L['kind'] == 'edge-new']
        mir = [L for L in links if L['kind'] == 'edge-elem']
        if not fwd or not mir:
            r_sym.violations.append(Violation('C18', 'C18.sym', p['adt'], 'missing-direction',
                                              'edges are written in %s direction(s) only' % ('one' if (fwd or mir) else 'no')))
        for F in fwd:
            fn, b = F['fn'], F['body']
            probs2 = []
            # forward index from a scan 0..len made before the push of the new node
            for (db, idx) in F['defs']:
                okr, whyr = index_in_range(ctx, p, fn, cont, idx, F['block'])
                if not okr:
                    probs2.append('forward edge index: ' + whyr)
                src = P.iter_source(idx)
                if src is None and len(idx) == 1:
                    n0 = next(iter(idx))
                    if n0[0] == 'field' and n0[2] == '0' and P.enumerate_base(n0[1]) is not None:
                        src = P.iter_source(n0[1])          # the index of `for (i, other) in roadmap.iter().enumerate()`
                if src is None:
                    probs2.append('forward edge index is not a scan variable (duplicates / self-links possible)')
            # a mirror push for the same node: list with identical pushes under the same conditions
            sigF = guard_signature(fn, F['block'])
            mates = []
            for M in mir:
                if M['fn'] is not fn:
                    continue
                srcJ = P.iter_source(M['J'])
                if srcJ is None:
                    continue
                cr = P.list_creations(srcJ)
                for (pb, x, _t) in P.list_pushes(fn, cr):
                    if guard_signature(fn, pb) == sigF and any(x == idx for (_db, idx) in F['defs']):
                        mates.append((M, cr))
            if not mates:
                probs2.append('no mirror edge is recorded under the same conditions with the same index')
            for (M, cr) in mates:
                # every push into the mirror list has a forward twin
                for (pb, x, _t) in P.list_pushes(fn, cr):
                    if not (guard_signature(fn, pb) == sigF and any(x == idx for (_db, idx) in F['defs'])):
                        probs2.append('the mirror list receives an index at %s that has no forward edge' % fn.loc(pb))
                # mirrored value = index of the node that carries the forward edges
                for (_db, v) in M['defs']:
                    pu = P.pushed_node_for_index(ctx, p, fn, cont, v)
                    if pu is None:
                        probs2.append('the mirrored index %s is not the index of the node just pushed' % fmt_terms(v)[:60])
                    else:
                        # that push moves the very node local whose adjacency list got the forward edges
                        a1 = pu['term']['args'][1]
                        pl = a1.get('move') or a1.get('copy')
                        lits, _o = P.find_literals(fn, a1, (pu['block'], fn.nstmts(pu['block'])), lambda rv: rv.get('adt') == c['node'])
                        src_local = None
                        cur = pl
                        if F.get('via_list') and pu['block'] == F.get('push_block'):
                            src_local = -1      # the forward edges are the adjacency list of this very literal
                        for _ in range(4 if src_local is None else 0):
                            evs, entry = fn.reaching(cur['l'], (pu['block'], fn.nstmts(pu['block'])), (), True, whole_only=True)
                            if cur['l'] == F.get('node_local'):
                                src_local = cur['l']
                                break
                            if len(evs) == 1 and evs[0].kind == 'assign' and evs[0].data['rv']['k'] == 'use':
                                cur = evs[0].data['rv']['op'].get('move') or evs[0].data['rv']['op'].get('copy')
                                if cur is None or cur['p']:
                                    break
                            else:
                                break
                        if src_local is None:
                            probs2.append('the node pushed is not the node that received the forward edges')
                # exactly one mirror push per list element: the mirror push post-dominates its loop body
                loops = [L for L in fn.loops() if M['block'] in L['body']]
                if not loops:
                    probs2.append('mirror edges are not written in a loop over the recorded indices')
                else:
                    L = min(loops, key=lambda l: len(l['body']))
                    seen = fn.reachable(L['header'], stop=frozenset([M['block']] + [x for x in range(fn.nb) if x not in L['body']]))
                    if any(src in seen and src != M['block'] for (src, _d) in L['back_edges']):
                        probs2.append('an element of the mirror list can be skipped')
            r_sym.inst('%s: forward edge at %s has exactly one mirror edge from the same node' % (b.path, b.loc(F['block'])), ok=not probs2, site=b.loc(F['block']))
            for o, pr in enumerate(dict.fromkeys(probs2)):
                r_sym.violations.append(Violation('C18', 'C18.sym', b.path, 'edge', pr, loc=b.loc(F['block']), ordinal=o))

        # ---------------------------------------------------------------- guards (re-use C03/C05 on this planner)
        from . import c03, c05
        for mod, name in ((c03, 'C03.link'), (c05, 'C05.radius')):
            res = mod.run(ctx, 'quick')
            for r in res:
                if r.rule != name:
                    continue
                mine = [v for v in r.violations if p['module'] in v.fn]
                insts = [i for i in r.instances if p['module'] in i['desc']]
                r_rm.inst('%s holds on %d roadmap link sites' % (name, len(insts)), ok=not mine)
                for v in mine:
                    r_rm.violations.append(Violation('C18', 'C18.guards', v.fn, v.what, '%s: %s' % (name, v.msg), loc=v.loc, ordinal=v.ordinal))

        # two milestones are linked only if "closer than the connection radius": strict, a pair at exactly the radius is not linked
        # (C05 on the tree planners says "at most" and accepts either form, and so does the start connection of the query)
        n_rg = 0
        for b in p['methods']:
            if b.impl_trait and b.name == 'solve':
                continue                # the start connects to milestones "within the radius": either form
            fnb = ctx.fn(b)
            for o, g in enumerate(c05.radius_guards(ctx, p, fnb)):
                n_rg += 1
                r_rm.inst('%s: radius test at %s leaves out a distance equal to %s' % (b.path, b.loc(g['block']), g['R']), ok=g['strict'], site=b.loc(g['block']))
                if not g['strict']:
                    r_rm.violations.append(Violation(
                        'C18', 'C18.guards', b.path, 'strict:' + g['R'],
                        'the radius test accepts a distance equal to %s: two states at exactly the connection radius are linked, '
                        'the property says closer than the radius' % g['R'], loc=b.loc(g['block']), ordinal=o))
        if n_rg < 1:
            r_rm.violations.append(Violation('C18', 'C18.guards', p['adt'], 'floor', 'only %d radius tests found in the roadmap planner (floor 1)' % n_rg))

        # ---------------------------------------------------------------- idempotent
        for b in p['methods']:
            if b.impl_trait or not any(pu['body'] is b for pu in pushes):
                continue
            fn = ctx.fn(b)
            # switch on Vec::is_empty(self.<cont>)
            te, fe, sbs = fn.bool_edges(lambda n: n[0] == 'call' and n[1] == 'std::vec::Vec::<T, A>::is_empty' and n[2][0] == cont)
            probs3 = []
            if not sbs:
                probs3.append('no emptiness test on the roadmap before construction')
            else:
                # every container write is confined to the "empty" edge
                for pu in pushes:
                    if pu['body'] is b and not P.guarded(fn, pu['block'], te):
                        probs3.append('a milestone can be added although the roadmap is not empty')
                for L in links:
                    if L['body'] is b and not P.guarded(fn, L['block'], te):
                        probs3.append('an edge can be added although the roadmap is not empty')
                # the non-empty edge reaches only `Ok(())` returns
                from .c01 import _errs_from
                outs = _errs_from(fn, [d for (_s, d) in fe])
                if outs != {'Ok'}:
                    probs3.append('a second construction call returns %s instead of Ok(())' % sorted(outs))
            r_idem.inst('%s is a no-op on a non-empty roadmap' % b.path, ok=not probs3, site=b.loc(0))
            for o, pr in enumerate(dict.fromkeys(probs3)):
                r_idem.violations.append(Violation('C18', 'C18.idempotent', b.path, 'reconstruct', pr, loc=b.loc(0), ordinal=o))

        # ---------------------------------------------------------------- bfs
        for b in p['methods']:
            if b.name == 'solve' and b.impl_trait:
                _bfs(ctx, p, b, cont, c, r_bfs)

        # ---------------------------------------------------------------- query lists
        for b in p['methods']:
            if b.name == 'solve' and b.impl_trait:
                _query(ctx, p, b, cont, c, r_q)

        # ---------------------------------------------------------------- reuse
        from .c02 import _stores_field, _pd_field
        pdf = _pd_field(p)
        for b in p['methods']:
            if b.impl_trait or b.name == 'new' or not _stores_field(b, pdf):
                continue
            fn = ctx.fn(b)
            other = []
            for bi, blk in enumerate(b.blocks):
                if blk['cleanup']:
                    continue
                for si, st in enumerate(blk['stmts']):
                    if st['k'] == 'assign' and st['place']['l'] == 1 and any(e == 'deref' for e in st['place']['p']):
                        names = [e.get('name') for e in st['place']['p'] if isinstance(e, dict) and 'f' in e]
                        if names and names[0] != pdf:
                            other.append(names[0])
            for bi, t in b.calls():
                if t['args'] and user_call(b, bi):
                    pl = t['args'][0].get('move') or t['args'][0].get('copy')
                    if pl is not None and b.local_ty(pl['l']).startswith('&mut '):
                        idt = fn.place_terms(pl, (bi, fn.nstmts(bi)), mut_kills=False)
                        for n in idt:
                            if n[0] == 'field' and n[2] != pdf and all(m[0] == 'param' and m[1] == 1 for m in n[1]):
                                other.append(n[2])
            r_reuse.inst('%s writes only self.%s' % (b.path, pdf), ok=not other, site=b.loc(0))
            for o, f in enumerate(sorted(set(other))):
                r_reuse.violations.append(Violation('C18', 'C18.reuse', b.path, f, 'replacing the problem also modifies self.%s' % f, loc=b.loc(0), ordinal=o))
    return [r_ms, r_sym, r_rm, r_idem, r_bfs, r_q, r_reuse]


def _query(ctx, p, b, cont, c, r_q):
    """the query-time lists (milestones the start connects to; milestones satisfying the goal) are complete: the scan runs
    over the whole roadmap and a milestone is left out only by the failing edge of its own test (radius / motion check for
    the start connections, goal predicate for the goal set).  A milestone that passes its test but is skipped for another
    reason makes the query incomplete or the answer longer than the fewest-hop path."""
    from .c05 import radius_guards
    fn = ctx.fn(b)
    sf = c['state_field']
    mcalls = [m for m in P.motion_calls(ctx, p) if m['fn'] is fn]
    gqs = [q for q in P.goal_queries(ctx, p) if q['fn'] is fn]
    rgs = radius_guards(ctx, p, fn)
    found = {'start': 0, 'goal': 0}
    reach = fn.reachable(0)
    for bi, t in b.calls():
        if bi not in reach or t['func'].get('path') not in P.LIST_PUSH:
            continue
        pl = t['args'][0].get('move') or t['args'][0].get('copy')
        if pl is None or not b.local_ty(pl['l']).startswith('&mut std::vec::Vec<usize>'):
            continue
        x = fn.arg_terms(t, 1, bi)
        elem = P.norm_state(ctx, p, fn, P.node_state_term(cont, x, sf))
        gm = [m for m in mcalls if P.guarded(fn, bi, m['true_edges']) and
              (P.norm_state(ctx, p, fn, m['to']) == elem or P.norm_state(ctx, p, fn, m['from']) == elem)]
        gg = [q for q in gqs if P.guarded(fn, bi, q['true_edges']) and P.norm_state(ctx, p, fn, q['state']) == elem]
        if gm:
            kind = 'start'
            own = set()
            for m in gm:
                own |= set(m['true_edges'])
            for g in rgs:
                if P.guarded(fn, bi, g['true_edges']) and (P.norm_state(ctx, p, fn, g['to']) == elem or P.norm_state(ctx, p, fn, g['from']) == elem):
                    own |= set(g['true_edges'])
        elif gg:
            kind = 'goal'
            own = set()
            for q in gg:
                own |= set(q['true_edges'])
        else:
            continue
        found[kind] += 1
        probs = []
        loops = [L for L in fn.loops() if bi in L['body']]
        if not loops:
            probs.append('the %s list is not filled by a scan of the roadmap' % kind)
        else:
            L = min(loops, key=lambda l: len(l['body']))
            # the scan covers the whole roadmap
            whole = False
            src = P.iter_source(x)
            if src is not None and len(src) == 1:
                q0 = next(iter(src))
                if q0[0] == 'agg' and q0[1] == 'std::ops::Range':
                    d = dict(q0[3])
                    lo, end = d.get('start'), d.get('end')
                    if lo == T(('const', '0')) and end and all(e[0] == 'call' and e[1].endswith('::len') and e[2][0] == cont for e in end):
                        whole = True
            for n in x:
                if n[0] == 'field' and n[2] == '0' and P.enumerate_base(n[1]) == cont:
                    # no skip/take/filter between enumerate and next
                    u = next(iter(n[1]))
                    nx = next(iter(u[1]))
                    it = nx[2][0]
                    if len(it) == 1 and next(iter(it))[1] == 'std::iter::Iterator::enumerate':
                        whole = True
            if not whole:
                probs.append('the scan that fills the %s list does not run over the whole roadmap (index %s)' % (kind, fmt_terms(x)[:60]))
            # skipped only by the failing edge of its own tests
            allowed = set()
            for (sb, tgt) in own:
                for s in fn.succs(sb):
                    if s != tgt:
                        allowed.add((sb, s))
            outside = frozenset(y for y in range(fn.nb) if y not in L['body'])
            # the scan runs to the end of the roadmap: the loop is left only when its iterator is exhausted (a `break` after the
            # k-th hit, a cap on the list length, makes the list a prefix of the milestones that pass)
            for (src_b, dst_b) in L['exits']:
                si_ = fn.switch_info(src_b)
                normal = si_ is not None and si_[0] and all(x[0] == 'discr' and any(
                    m[0] == 'call' and m[1] == 'std::iter::Iterator::next' for m in x[1]) for x in si_[0])
                if not normal and fn.blocks[dst_b]['term']['k'] != 'unreachable' and not fn.blocks[dst_b]['cleanup']:
                    probs.append('the scan that fills the %s list can stop early at %s: milestones that pass the %s are left out, the query '
                                 'can miss a solution or return a longer path' % (kind, fn.loc(src_b), 'radius and motion tests' if kind == 'start' else 'goal predicate'))
                    break
            r = fn.reachable(L['header'], removed=frozenset(allowed), stop=outside | frozenset([bi]))
            if any(src_ in r and src_ != bi for (src_, _d) in L['back_edges']):
                probs.append('a milestone that passes the %s can be left out of the %s list by an unrelated condition: '
                             'the query can miss a solution or return a longer path than the fewest-hop one' % (
                                 'radius and motion tests' if kind == 'start' else 'goal predicate', kind))
        r_q.inst('%s: the %s list at %s is complete (whole roadmap, skipped only by its own test)' % (b.path, kind, b.loc(bi)),
                 ok=not probs, site=b.loc(bi))
        for o, pr in enumerate(probs):
            r_q.violations.append(Violation('C18', 'C18.query', b.path, kind, pr, loc=b.loc(bi), ordinal=o))
    # the goal set kept as a per-milestone mask (`roadmap.iter().map(|n| goal.is_satisfied(&n.state)).collect()`): complete by
    # construction - one entry per milestone, no filter
    if found['goal'] < 1:
        for bi, t in b.calls():
            if bi in reach and t['func'].get('path') == 'std::iter::Iterator::collect' and not t['dest']['p'] and \
                    P.goal_mask_info(ctx, p, fn.call_terms(t, bi)) == cont:
                found['goal'] += 1
                r_q.inst('%s: the goal set at %s is a mask over every milestone' % (b.path, b.loc(bi)), ok=True, site=b.loc(bi))
    for kind, n in found.items():
        if n < 1:
            r_q.violations.append(Violation('C18', 'C18.query', b.path, 'floor:' + kind, 'no %s list found in the roadmap query (unrecognised shape)' % kind, loc=b.loc(0)))


def _bfs(ctx, p, b, cont, c, r_bfs):
    fn = ctx.fn(b)
    probs = []
    Q = 'std::collections::VecDeque::<T, A>::'
    ins = [(bi, t) for bi, t in b.calls() if t['func'].get('path') in (Q + 'push_back', Q + 'push_front')]
    outs = [(bi, t) for bi, t in b.calls() if t['func'].get('path') in (Q + 'pop_front', Q + 'pop_back')]
    if not ins or not outs:
        r_bfs.violations.append(Violation('C18', 'C18.bfs', b.path, 'no-queue', 'no double-ended queue work list found (unrecognised shape)', loc=b.loc(0)))
        return
    in_ends = {t['func']['path'].rsplit('_', 1)[1] for _bi, t in ins}
    out_ends = {t['func']['path'].rsplit('_', 1)[1] for _bi, t in outs}
    if len(in_ends) != 1 or len(out_ends) != 1 or in_ends == out_ends:
        probs.append('the work list is not first-in-first-out (insert at %s, remove at %s): depth-first order does not give fewest-hop paths' % (
            sorted(in_ends), sorted(out_ends)))
    # identity of the queue
    qids = set()
    for bi, t in ins + outs:
        pl = t['args'][0].get('move') or t['args'][0].get('copy')
        qids.add(fn.place_terms(pl, (bi, fn.nstmts(bi)), mut_kills=False))
    if len(qids) != 1:
        probs.append('several work lists are used (unrecognised shape)')
    # dequeued index
    deq = set()
    for bi, t in outs:
        deq.add(T(('unwrap', T(('call', t['func']['path'], (fn.arg_terms(t, 0, bi),), (fn.path, bi))))))
    # map insertions and visited marks
    map_ins = [(bi, t) for bi, t in b.calls() if t['func'].get('path', '').endswith('::insert') and
               ('HashMap' in t['func']['path'] or 'BTreeMap' in t['func']['path'])]
    marks = []
    for bi, blk in enumerate(b.blocks):
        if blk['cleanup']:
            continue
        for si, st in enumerate(blk['stmts']):
            if st['k'] == 'assign' and st['place']['p'] == ['deref'] and st['rv']['k'] == 'use' and \
                    'const' in st['rv']['op'] and st['rv']['op']['const'].get('val') is True:
                bt = fn.place_terms({'l': st['place']['l'], 'p': []}, (bi, si), mut_kills=False)
                for n in bt:
                    if n[0] == 'index':
                        marks.append((bi, n[2]))
    # the search state (work list, visited marks, parent map) belongs to one query: it is created in the query, not kept in a
    # field of the planner (marks left by a query that ended early - a timeout - make milestones invisible to the next one)
    def on_self(ts):
        # the place itself is (an element of) a field of `self`: top-level nodes only, not what the value was computed from
        for q in strip_clone(ts):
            while q[0] == 'index' and len(q[1]) == 1:
                q = next(iter(q[1]))
            if q[0] == 'field' and q[1] and all(m[0] == 'param' and m[1] == 1 for m in q[1]):
                return True
        return False
    kept = []
    for (mb, mk) in marks:
        for st in b.blocks[mb]['stmts']:
            if st['k'] == 'assign' and st['place']['p'] == ['deref'] and st['rv']['k'] == 'use' and 'const' in st['rv']['op'] and \
                    st['rv']['op']['const'].get('val') is True:
                bt = fn.place_terms({'l': st['place']['l'], 'p': []}, (mb, 0), mut_kills=False)
                if any(n[0] == 'index' and on_self(n[1]) for n in bt):
                    kept.append('the visited marks')
    for qid in qids:
        if on_self(qid):
            kept.append('the work list')
    for (mb, mt) in map_ins:
        if on_self(fn.arg_terms(mt, 0, mb)):
            kept.append('the parent map')
    if kept:
        # a buffer that is kept but emptied again at the start of every query is no state: a `clear` / `fill` / fresh value on a
        # field of the planner that every dequeue is dominated by
        dom = fn.dominators()
        resets = set()
        for rb, rt in b.calls():
            pth = rt['func'].get('path', '') or ''
            if pth.endswith(('::clear', '::fill', '::truncate')) and rt['args'] and on_self(fn.arg_terms(rt, 0, rb)):
                resets.add(rb)
        for rb, blk in enumerate(b.blocks):
            for st in blk['stmts']:
                if st['k'] == 'assign' and st['place']['l'] == 1 and [e for e in st['place']['p'] if e != 'deref'] and st['rv']['k'] in ('use', 'agg'):
                    resets.add(rb)
        deq_blocks = [bi for bi, _t in outs]
        if resets and deq_blocks and all(any(rb in dom.get(db, ()) for rb in resets) for db in deq_blocks):
            kept = []
    for what in dict.fromkeys(kept):
        probs.append('%s of the search live in a field of the planner: what one query leaves there (on a timeout, say) is seen by the next' % what)
    loops = fn.loops()
    search = [L for L in loops if any(bi in L['body'] for bi, _t in outs)]
    for (bi, t) in ins:
        k = fn.arg_terms(t, 1, bi)
        sig = guard_signature(fn, bi)
        m_ok = any(mk == k and guard_signature(fn, mb) == sig for (mb, mk) in marks)
        p_ok = [(mb, mt) for (mb, mt) in map_ins if fn.arg_terms(mt, 1, mb) == k and guard_signature(fn, mb) == sig]
        in_search = any(bi in L['body'] for L in search)
        if not m_ok:
            probs.append('index enqueued at %s is not marked visited at the same time (mark-on-dequeue revisits nodes)' % fn.loc(bi))
        if not p_ok:
            probs.append('index enqueued at %s gets no parent-map entry at the same time' % fn.loc(bi))
        for (mb, mt) in p_ok:
            v = fn.arg_terms(mt, 2, mb)
            if in_search:
                good = v and all(n[0] == 'agg' and n[2] == 'Some' and n[3][0][1] in deq for n in v)
                if not good:
                    probs.append('the parent recorded for a discovered neighbour is not the dequeued node')
            else:
                good = v and all(n[0] == 'agg' and n[2] == 'None' for n in v)
                if not good:
                    probs.append('a start connection is not seeded with parent None')
        if in_search:
            # neighbour comes from the dequeued node's adjacency list and is enqueued only if unvisited
            src = P.iter_source(k)
            okn = False
            if src is not None:
                for n in src:
                    if n[0] == 'field' and any(m[0] == 'index' and m[1] == cont and m[2] in deq for m in n[1]):
                        okn = True
            if not okn:
                probs.append('enqueued index at %s is not a neighbour of the dequeued node' % fn.loc(bi))
            # guarded by !visited[k]
            te, fe, sbs = fn.bool_edges(lambda n: n[0] == 'index' and n[2] == k)
            if not P.guarded(fn, bi, fe):
                probs.append('a neighbour can be enqueued although it is already marked visited')
    # goal test on the dequeued index
    gt = False
    for sb in range(fn.nb):
        si = fn.switch_info(sb)
        if si is None or fn.blocks[sb]['cleanup']:
            continue
        terms, tmap, other = si
        for n in terms:
            if n[0] == 'call' and n[1].endswith('::contains') and len(n[2]) == 2 and n[2][1] in deq:
                gt = True
            if n[0] == 'index' and n[2] in deq and P.goal_mask_info(ctx, p, n[1]) == cont:
                gt = True               # `is_goal[current]` with a per-milestone goal mask
    if not gt:
        probs.append('the goal membership test is not made on the dequeued index')
    r_bfs.inst('%s: breadth-first search discipline' % b.path, ok=not probs, site=b.loc(0))
    for o, pr in enumerate(dict.fromkeys(probs)):
        r_bfs.violations.append(Violation('C18', 'C18.bfs', b.path, 'bfs', pr, loc=b.loc(0), ordinal=o))
