"""C03 — every path segment was motion-checked at the space's resolution.

C03.link  every stored link (parent pointer at push time, rewired parent, roadmap edge in both directions,
          PRM start connection) is written only under the true edge of a motion check on exactly the two
          end-point states of that link (index lists transfer the obligation to their push sites)
C03.res   the motion checker discretises  n = round(d / (L*c)),  d = distance(from,to),
          L = get_longest_valid_segment_length(); worst-case parameter gap computed in closed form <= 1
C03.lvs   every get_longest_valid_segment_length depends on the resolution fraction and the extent
          (compound: on every component's value and weight)
"""
from ..core import RuleResult, Violation, LVS, user_call
from ..engine import walk, fmt_terms, strip_clone, T
from .. import planner as P
from ..motion import analyze

META = {
    'explanation': 'C03: every way an edge can be created (extension, RRT* choose-parent and rewiring, RRT-Connect '
                   'connection, PRM milestone linking in both directions, PRM start connection) is enumerated from '
                   'the MIR and must be dominated by the true edge of a motion check whose two state arguments are '
                   'exactly the end points of that edge, per reaching definition of the linked index; the motion '
                   'checker\'s step-count formula is recognised and its worst-case gap computed in closed form.',
    'assumptions': ['interpolation is distance-proportional (C10, not decided)',
                    'a motion check made child->parent also covers parent->child (symmetry of the interpolated segment)',
                    'C01.kernel holds (every iterate of the loop is queried)'],
}


def _alts(ctx, p, fn, cont, idx, db):
    """alternatives for an index: [(guard blocks, index terms)], expanding list-mediated indices to their pushes"""
    src = P.iter_source(idx)
    if src is not None:
        cr = P.list_creations(src)
        if cr and all(n in cr or n[0] in ('out', 'clone') for n in src):
            out = []
            for (pb, x, _t) in P.list_pushes(fn, cr):
                out.append(([pb], x, True))
            return out, True
    return [([db] if db is not None else [], idx, False)], False


def _endpoint_alts(ctx, p, fn, ep, link_block):
    """ep: {'state': terms} | {'cont':..,'defs':[(db, idx)]} -> list of (guard_blocks, state terms, mediated)"""
    if 'state' in ep:
        return [([], P.norm_state(ctx, p, fn, ep['state']), False)]
    out = []
    for (db, idx) in ep['defs']:
        alts, med = _alts(ctx, p, fn, ep['cont'], idx, db)
        for (gb, x, m) in alts:
            st = P.norm_state(ctx, p, fn, P.node_state_term(ep['cont'], x, ep['sfield']))
            out.append((gb, st, m))
    return out


def covers(E, s):
    """motion-check end point E covers link end point s: equal, or the same container element whose index
    expression has s's index definitions among its own (the check ran on the variable the link stores)"""
    if E == s:
        return True
    if len(E) == 1 and len(s) == 1:
        a, b = next(iter(E)), next(iter(s))
        if a[0] == 'field' and b[0] == 'field' and a[2] == b[2] and len(a[1]) == 1 and len(b[1]) == 1:
            ia, ib = next(iter(a[1])), next(iter(b[1]))
            if ia[0] == 'index' and ib[0] == 'index' and ia[1] == ib[1] and ib[2] and ib[2] <= ia[2]:
                return True
    return False


def _endpoint_groups(ctx, p, fn, ep):
    """per reaching definition of the end point: the options under which it is covered, each option a list of alternatives
    (guard_blocks, state terms, mediated) that must all be covered.  An index drawn from a list built in this function has
    two options: the check is made where the element is used (the direct option: RRT* tests the motion from each neighbour
    when it considers it), or where it was put on the list (the mediated option: PRM keeps only checked neighbours)."""
    if 'state' in ep:
        return [[[([], P.norm_state(ctx, p, fn, ep['state']), False)]]]
    groups = []
    for (db, idx) in ep['defs']:
        alts, med = _alts(ctx, p, fn, ep['cont'], idx, db)
        opts = []
        if med:
            st = P.norm_state(ctx, p, fn, P.node_state_term(ep['cont'], idx, ep['sfield']))
            opts.append([([db] if db is not None else [], st, False)])
        opts.append([(gb, P.norm_state(ctx, p, fn, P.node_state_term(ep['cont'], x, ep['sfield'])), m) for (gb, x, m) in alts])
        groups.append(opts)
    return groups


def check_link(ctx, p, mcalls, fn, link_block, e1, e2):
    """returns (ok, n_alternatives, first failure description)"""
    G1 = _endpoint_groups(ctx, p, fn, e1)
    G2 = _endpoint_groups(ctx, p, fn, e2)
    n = 0

    def found(alt1, alt2):
        (g1, s1, m1), (g2, s2, m2) = alt1, alt2
        if m1 or m2:
            blocks = (g1 if m1 else []) + (g2 if m2 else [])
        else:
            blocks = [link_block] + g1 + g2
        for m in mcalls:
            if m['fn'] is not fn:
                continue
            mf = P.norm_state(ctx, p, fn, m['from'])
            mt = P.norm_state(ctx, p, fn, m['to'])
            if not ((covers(mf, s1) and covers(mt, s2)) or (covers(mf, s2) and covers(mt, s1))):
                continue
            if any(P.guarded(fn, gb, m['true_edges']) for gb in blocks):
                return None
        return 'no motion check between %s and %s dominates the link (guard sites tried: %s)' % (
            fmt_terms(s1)[:70], fmt_terms(s2)[:70], ['bb%d' % x for x in blocks])

    for opts1 in G1:
        for opts2 in G2:
            why = None
            okpair = False
            for o1 in opts1:
                for o2 in opts2:
                    bad = None
                    for alt1 in o1:
                        for alt2 in o2:
                            n += 1
                            bad = bad or found(alt1, alt2)
                    if bad is None:
                        okpair = True
                    else:
                        why = bad
                    if okpair:
                        break
                if okpair:
                    break
            if not okpair:
                return False, n, why or 'no alternative for the link end points'
    return True, n, ''


def bfs_roots(ctx, p):
    """PRM start connections: map.insert(k, None) in solve where the map is handed to path reconstruction"""
    out = []
    for b in p['methods']:
        if b.name != 'solve':
            continue
        fn = ctx.fn(b)
        for bi, t in b.calls():
            path = t['func'].get('path', '')
            if not path.endswith('::insert') or 'HashMap' not in path and 'BTreeMap' not in path:
                continue
            v = fn.arg_terms(t, 2, bi)
            if not (v and all(n[0] == 'agg' and n[2] == 'None' for n in v)):
                continue
            kdefs = [(db, tt) for (db, _di, tt) in fn.split_defs(t['args'][1], (bi, fn.nstmts(bi)))]
            out.append((fn, b, bi, kdefs))
    return out


def run(ctx, tier):
    r_link = RuleResult('C03.link', 'every stored link is written under the true edge of a motion check on its two end points')
    r_res = RuleResult('C03.res', 'motion checkers discretise at <= one longest-valid-segment length')
    r_lvs = RuleResult('C03.lvs', 'longest-valid-segment lengths depend on the resolution fraction and the extent / all components and weights')
    planners = ctx.planners()
    for p in planners:
        mcalls = P.motion_calls(ctx, p)
        links, problems = P.collect_links(ctx, p)
        for (b, bi, msg) in problems:
            r_link.violations.append(Violation('C03', 'C03.link', b.path, 'shape', msg + ' (unrecognised shape)', loc=b.loc(bi)))
        n_links = 0
        counts = {}
        for L in links:
            fn, b = L['fn'], L['body']
            sf = L['cinfo']['state_field']
            if L['kind'] in ('push-parent', 'edge-new'):
                e1 = {'state': L['a']}
            else:
                e1 = {'cont': L['cont'], 'defs': [(L['block'], L['J'])], 'sfield': sf}
            e2 = {'cont': L['cont'], 'defs': L['defs'], 'sfield': sf}
            ok, n, why = check_link(ctx, p, mcalls, fn, L['block'], e1, e2)
            n_links += 1
            k = counts.get((b.path, L['kind']), 0)
            counts[(b.path, L['kind'])] = k + 1
            r_link.inst('%s: %s link at %s motion-checked on both end points (%d definition/list alternatives)' % (
                b.path, L['kind'], b.loc(L['block']), n), ok=ok, site=b.loc(L['block']))
            if not ok:
                r_link.violations.append(Violation('C03', 'C03.link', b.path, L['kind'], why, loc=b.loc(L['block']), ordinal=k))
        # PRM-style start connections
        if any(c['links'] and not any('parent' in l for l in c['links']) for c in p['containers'].values()):
            roots = bfs_roots(ctx, p)
            cname = list(p['containers'].keys())[0]
            cinfo = p['containers'][cname]
            cont = T(('field', T(('param', 1, 'self')), cname))
            for k, (fn, b, bi, kdefs) in enumerate(roots):
                # the start state handed to path reconstruction
                starts = set()
                for bj, t2 in b.calls():
                    tgt = b.crate.body(t2['func'].get('path', ''))
                    if tgt is not None and tgt.j.get('ret_ty', '').startswith('base::planner::Path<'):
                        for j in range(len(t2['args'])):
                            a = fn.arg_terms(t2, j, bj)
                            if P.is_start_origin(a):
                                starts |= strip_clone(a)
                if not starts:
                    r_link.violations.append(Violation('C03', 'C03.link', b.path, 'start-connection',
                                                       'cannot find the start state handed to path reconstruction (unrecognised shape)', loc=b.loc(bi)))
                    continue
                e1 = {'state': frozenset(starts)}
                e2 = {'cont': cont, 'defs': kdefs, 'sfield': cinfo['state_field']}
                ok, n, why = check_link(ctx, p, mcalls, fn, bi, e1, e2)
                n_links += 1
                r_link.inst('%s: start connection (search root) at %s motion-checked from the start state (%d alternatives)' % (
                    b.path, b.loc(bi), n), ok=ok, site=b.loc(bi))
                if not ok:
                    r_link.violations.append(Violation('C03', 'C03.link', b.path, 'start-connection', why, loc=b.loc(bi), ordinal=k))
            if not roots:
                r_link.violations.append(Violation('C03', 'C03.link', p['adt'], 'start-connection',
                                                   'no search-root insertion found in the roadmap planner (unrecognised shape)'))
        if n_links < 1:
            r_link.violations.append(Violation('C03', 'C03.link', p['adt'], 'floor', 'no link write found in planner %s (floor 1)' % p['name']))

    # ---------------------------------------------------------------- C03.res
    mcs = ctx.motion_checkers()
    if len(mcs) < 1:
        r_res.violations.append(Violation('C03', 'C03.res', 'oxmpl', 'floor', 'no motion checker discovered'))
    for m in mcs:
        a = analyze(ctx, m)
        s = a['steps']
        delegating = any(e['kind'] == 'delegate' for e in a['exits']) and not a['loops']
        if delegating:
            r_res.inst('%s delegates to another motion checker' % m.path, ok=True, nontrivial=False)
            continue
        if s is None:
            r_res.inst('%s: step formula' % m.path, ok=False)
            r_res.violations.append(Violation('C03', 'C03.res', m.path, 'formula',
                                              'no interpolation loop with a recognisable step count (unrecognised shape)', loc=m.loc(0)))
            continue
        probs = list(s.get('problems', []))
        if s.get('cap') is not None:
            probs.append('the step count is capped at %g: for motions longer than %g x (L*c) the gap between validity queries grows '
                         'without bound (exceeds the longest valid segment length)' % (s['cap'], s['cap']))
        if probs and s.get('round') is None:
            # formula not recognised at all: one report, not a cascade
            r_res.inst('%s: step formula' % m.path, ok=False)
            r_res.violations.append(Violation('C03', 'C03.res', m.path, 'formula', probs[0] + ' (unrecognised shape)', loc=m.loc(0)))
            continue
        if not s['dist_ok']:
            probs.append('the step count is not derived from distance(from, to) of the checked end points')
        if not s['lvs_ok']:
            probs.append('the step count is not derived from get_longest_valid_segment_length()')
        worst = None
        if s['c'] is None:
            probs.append('resolution multiplier is not a constant')
        if s['K'] is None:
            probs.append('no direct-check threshold n <= K recognised')
        if s['c'] is not None and s['K'] is not None:
            c, K, rnd = s['c'], s['K'], s['round']
            if c <= 0:
                probs.append('resolution multiplier %s is not positive' % c)
            elif rnd == 'ceil':
                worst = max(c, K * c)
            elif rnd in ('floor', 'cast'):
                worst = max((K + 2.0) / (K + 1.0) * c, (K + 1) * c)
            elif rnd == 'round':
                worst = max((K + 1.5) / (K + 1.0) * c, (K + 0.5) * c)
            else:
                probs.append('unknown rounding %s' % rnd)
            if worst is not None and worst > 1.0 + 1e-12:
                probs.append('worst-case gap between validity queries is %.3g x the longest valid segment length '
                             '(n = %s(d/(L*%s)), direct check when n <= %s)' % (worst, rnd, c, K))
        r_res.inst('%s: n = %s(d / (L*%s)), direct when n <= %s, worst gap %s x L' % (
            m.path, s['round'], s['c'], s['K'], ('%.3g' % worst) if worst is not None else '?'), ok=not probs, site=m.loc(0))
        for o, pr in enumerate(probs):
            r_res.violations.append(Violation('C03', 'C03.res', m.path, 'resolution', pr, loc=m.loc(0), ordinal=o))

    # ---------------------------------------------------------------- C03.lvs
    impls = [b for b in ctx.lib_bodies() if b.impl_trait == 'base::space::StateSpace' and
             b.name == 'get_longest_valid_segment_length']
    if len(impls) < 4:
        r_lvs.violations.append(Violation('C03', 'C03.lvs', 'oxmpl', 'floor', 'only %d get_longest_valid_segment_length impls (floor 4)' % len(impls)))
    for b in impls:
        fn = ctx.fn(b)
        rt = set()
        for rb in fn.return_blocks():
            rt |= fn.local_terms(0, (rb, fn.nstmts(rb)))
        rt = frozenset(rt)
        adt = b.j.get('impl_adt')
        fields = {f['name']: f['ty'] for f in ctx.core.adts.get(adt, {'variants': [{'fields': []}]})['variants'][0]['fields']}
        nodes = list(walk(rt))
        self_fields = {n[2] for n in nodes if n[0] == 'field' and any(m[0] == 'param' and m[1] == 1 for m in n[1])}
        calls = {n[1] for n in nodes if n[0] == 'call'}
        frac = [f for f in fields if 'fraction' in f or 'resolution' in f]
        probs = []
        if frac:
            if not (set(frac) & self_fields):
                probs.append('result does not depend on the resolution field %s' % frac)
            if not any('extent' in c for c in calls) and not any(n[0] == 'const' for n in nodes):
                probs.append('result does not depend on the space extent')
        elif 'subspaces' in fields:
            if not any(c.endswith('get_longest_valid_segment_length_dyn') for c in calls):
                probs.append('compound resolution does not query its components')
            if 'weights' not in self_fields:
                probs.append('compound resolution ignores the component weights')
            if 'subspaces' not in self_fields:
                probs.append('compound resolution ignores the subspaces')
            # every component: the loop runs over all subspaces (C13.index checks alignment)
        else:
            if not any(c.endswith('get_longest_valid_segment_length_dyn') or c == LVS for c in calls):
                probs.append('newtype space does not delegate its resolution')
        r_lvs.inst('%s depends on %s / calls %s' % (b.path, sorted(self_fields), sorted(c.rsplit('::', 1)[-1] for c in calls)),
                   ok=not probs, site=b.loc(0))
        for o, pr in enumerate(probs):
            r_lvs.violations.append(Violation('C03', 'C03.lvs', b.path, 'dependence', pr, loc=b.loc(0), ordinal=o))
    return [r_link, r_res, r_lvs]
