"""C14 — uniform sampling is uniform (PARTIAL: the constructions, not the statistics).

No static argument bounds a goodness-of-fit statistic.  What is visible in the shape of the code is *which
construction* each sampler is, and for the constructions used here the distribution follows from the construction:

C14.draw     R^n and SO(2): the value stored for a dimension / the angle IS one uniform primitive
             (`random_range(lo..hi)` / `lo..=hi`) over exactly that dimension's stored bounds, drawn from the caller's
             generator and stored unmodified (no arithmetic, min/max, rounding or second draw on the way);
             one draw per dimension, inside the loop over all dimensions.
C14.so3      SO(3) is the recognised exact construction "uniform in the 4-cube -> reject outside the unit ball ->
             normalise -> reject outside the cone":  four independent draws from one symmetric constant range on the
             caller's generator; the accepted quaternion is (d0,d1,d2,d3)/sqrt(d0^2+..+d3^2) with every draw used once;
             its construction is dominated by `sum of squares <= 1` (without it the direction is biased towards the cube's
             diagonals); the state returned is that very quaternion, unmodified, under `distance(centre, q) <= max_angle`
             on that very quaternion; every rejection loops back to four fresh draws.  Any other shape is reported
             as unrecognised (fail closed): a different exact algorithm needs a new entry here.
C14.compose  compound / SE(2) / SE(3): every component is sampled exactly once by its own sampler with the caller's
             generator (the C13 rules restricted to sample_uniform).

Necessary conditions of the property: each clause, when broken, changes the distribution (a transformed draw, a
different range, a missing ball test, a projected instead of rejected sample, a component sampled from another
generator).  Not decided: the quality of rand's primitives, floating-point granularity, and that four draws are
independent (they are consecutive outputs of one generator)."""
from ..core import RuleResult, Violation
from ..engine import walk, fmt_terms, strip_clone, T
from .. import planner as P
from .c11 import space_methods, self_field, bound_reads, is_induction
from .c12 import space_adts, cmp_facts, relation_for, const_float

META = {
    'explanation': 'C14 (partial): decides which construction each uniform sampler is - single unmodified uniform '
                   'primitives over exactly the stored bounds for R^n / SO(2); the cube -> ball rejection -> normalise '
                   '-> cone rejection derivation for SO(3) with every structural step checked; component-wise '
                   'forwarding for compound spaces. The distribution follows from the construction; goodness of fit '
                   'itself is not decided.',
    'assumptions': ['rand::Rng::random_range draws uniformly from the given range', 'consecutive draws of one generator are independent',
                    'floating-point granularity of the primitives is ignored'],
}

DRAWS = ('rand::Rng::random_range', 'rand::Rng::gen_range')


def _ok_payloads(fn):
    """terms of the Ok(..) payloads assigned to the return place: [(block, idx, payload terms)]"""
    out = []
    reach = fn.reachable(0)
    for bi, blk in enumerate(fn.blocks):
        if blk['cleanup'] or bi not in reach:
            continue
        for si, st in enumerate(blk['stmts']):
            if st['k'] == 'assign' and st['place']['l'] == 0 and not st['place']['p']:
                for n in fn.rvalue_terms(st['rv'], (bi, si)):
                    if n[0] == 'agg' and n[2] == 'Ok' and n[3]:
                        out.append((bi, si, n[3][0][1]))
                    elif n[0] == 'agg' and n[2] == 'Err':
                        continue
                    else:
                        out.append((bi, si, None))
    return out


def _draw(n):
    """(rng terms, lo terms, hi terms, site) if n is a uniform range draw"""
    if n[0] != 'call' or n[1] not in DRAWS or len(n[2]) != 2:
        return None
    for r in n[2][1]:
        if r[0] == 'agg' and r[1] in ('std::ops::Range', 'std::ops::RangeInclusive'):
            d = dict(r[3])
            return n[2][0], d.get('start'), d.get('end'), n[3]
        if r[0] == 'call' and r[1] == 'std::ops::RangeInclusive::<Idx>::new':
            return n[2][0], r[2][0], r[2][1], n[3]
    return None


def _is_rng_param(ts):
    return bool(ts) and all(n[0] == 'param' and n[1] == 2 for n in ts)


def _vector(ctx, adt, su, r):
    fn = ctx.fn(su)
    pays = _ok_payloads(fn)
    probs = []
    n_push = 0
    if not pays:
        probs.append('no Ok(..) return found (unrecognised shape)')
    for (bi, si, pay) in pays:
        if pay is None:
            probs.append('the returned value is not a literal Ok(state) (unrecognised shape)')
            continue
        for st in pay:
            if st[0] != 'agg':
                probs.append('the returned state is not built in place (unrecognised shape): %s' % fmt_terms(T(st))[:60])
                continue
            vals = dict(st[3]).get('values')
            cr = P.list_creations(vals or frozenset())
            if not cr:
                probs.append('the coordinates are not collected in a list built here (unrecognised shape)')
                continue
            for (pb, x, _t) in P.list_pushes(fn, cr):
                n_push += 1
                if len(x) != 1 or _draw(next(iter(x))) is None:
                    probs.append('a coordinate is %s, not one unmodified uniform draw' % fmt_terms(x)[:70])
                    continue
                rng, lo, hi, _site = _draw(next(iter(x)))
                if not _is_rng_param(rng):
                    probs.append('a coordinate is drawn from %s, not from the caller\'s generator' % fmt_terms(rng)[:40])
                rl, rh = list(bound_reads(lo or frozenset())), list(bound_reads(hi or frozenset()))
                ok = len(rl) == 1 and len(rh) == 1 and lo == T(rl[0][0]) and hi == T(rh[0][0]) and rl[0][2] == '0' and \
                    rh[0][2] == '1' and rl[0][1] == rh[0][1] and rl[0][1] is not None and is_induction(rl[0][1])
                if not ok:
                    probs.append('the draw range %s..%s is not exactly (bounds[i].0, bounds[i].1) of the dimension being filled' % (
                        fmt_terms(lo or frozenset())[:40], fmt_terms(hi or frozenset())[:40]))
                loops = [L for L in fn.loops() if pb in L['body']]
                if not loops:
                    probs.append('the coordinate draw is not inside the loop over the dimensions')
                else:
                    L = min(loops, key=lambda l: len(l['body']))
                    # one draw per dimension: the draw site itself lies in the same innermost loop
                    site = _draw(next(iter(x)))[3]
                    if site[1] not in L['body']:
                        probs.append('the value pushed for a dimension was drawn outside the loop (the same draw for every dimension)')
    if n_push < 1 and not probs:
        probs.append('no coordinate is pushed (unrecognised shape)')
    r.inst('%s: every coordinate is one unmodified uniform draw over its own bounds' % su.path, ok=not probs, site=su.loc(0))
    for o, pr in enumerate(dict.fromkeys(probs)):
        r.violations.append(Violation('C14', 'C14.draw', su.path, 'coordinate', pr, loc=su.loc(0), ordinal=o))


def _angle(ctx, adt, su, r):
    fn = ctx.fn(su)
    probs = []
    pays = _ok_payloads(fn)
    if not pays:
        probs.append('no Ok(..) return found (unrecognised shape)')
    for (bi, si, pay) in pays:
        if pay is None:
            probs.append('the returned value is not a literal Ok(state) (unrecognised shape)')
            continue
        for st in pay:
            if st[0] != 'agg' or len(st[3]) != 1:
                probs.append('the returned state is not built in place (unrecognised shape)')
                continue
            v = st[3][0][1]
            if len(v) != 1 or _draw(next(iter(v))) is None:
                probs.append('the angle is %s, not one unmodified uniform draw' % fmt_terms(v)[:70])
                continue
            rng, lo, hi, _site = _draw(next(iter(v)))
            if not _is_rng_param(rng):
                probs.append('the angle is drawn from %s, not from the caller\'s generator' % fmt_terms(rng)[:40])
            rl, rh = list(bound_reads(lo or frozenset())), list(bound_reads(hi or frozenset()))
            ok = len(rl) == 1 and len(rh) == 1 and lo == T(rl[0][0]) and hi == T(rh[0][0]) and rl[0][2] == '0' and \
                rh[0][2] == '1' and rl[0][1] is None and rh[0][1] is None
            if not ok:
                probs.append('the draw range %s..%s is not exactly (bounds.0, bounds.1)' % (
                    fmt_terms(lo or frozenset())[:40], fmt_terms(hi or frozenset())[:40]))
    r.inst('%s: the angle is one unmodified uniform draw over the stored interval' % su.path, ok=not probs, site=su.loc(0))
    for o, pr in enumerate(dict.fromkeys(probs)):
        r.violations.append(Violation('C14', 'C14.draw', su.path, 'angle', pr, loc=su.loc(0), ordinal=o))


def _flatten_add(ts):
    """leaves of a left/right nested Add tree (each leaf a term set); None if a set has several nodes"""
    if len(ts) != 1:
        return None
    n = next(iter(ts))
    if n[0] == 'binop' and n[1] == 'Add':
        a, b = _flatten_add(n[2]), _flatten_add(n[3])
        if a is None or b is None:
            return None
        return a + b
    return [ts]


def _cone(ctx, adt, su, r):
    fn = ctx.fn(su)
    probs = []
    pays = _ok_payloads(fn)
    n_cand = 0
    for (bi, si, pay) in pays:
        if pay is None:
            probs.append('the returned value is not a literal Ok(state) (unrecognised shape)')
            continue
        for st in pay:
            if st[0] == 'clone' and all(m[0] == 'field' and m[2] == '0' and self_field(m[1], 'bounds') for m in st[1]):
                # degenerate cone: the centre itself; must be confined to a tiny max angle
                facts = cmp_facts(fn, bi)
                tiny = False
                for (a, b_, rel, _blk) in facts:
                    cb = const_float(b_)
                    if cb is not None and cb <= 1e-6 and rel <= {'lt', 'eq'} and \
                            all(m[0] == 'field' and m[2] == '1' and self_field(m[1], 'bounds') for m in a):
                        tiny = True
                if not tiny:
                    probs.append('the centre rotation is returned without the cone being degenerate (max angle not tested against a tiny constant)')
                continue
            if st[0] != 'agg' or len(st[3]) != 4:
                probs.append('the returned rotation is %s, not the accepted candidate itself: a sample that is moved, projected or '
                             'blended after the draw is no longer uniform on the cone' % fmt_terms(T(st))[:80])
                continue
            n_cand += 1
            comps = [t for (_f, t) in st[3]]
            draws, norms = [], []
            shape_ok = True
            for c in comps:
                n = next(iter(c)) if len(c) == 1 else None
                if n is None or n[0] != 'binop' or n[1] != 'Div' or len(n[2]) != 1 or _draw(next(iter(n[2]))) is None:
                    shape_ok = False
                    break
                draws.append(next(iter(n[2])))
                norms.append(n[3])
            if not shape_ok:
                probs.append('the quaternion components are not draw_k / norm (unrecognised construction: a different exact algorithm '
                             'must be added to the table of recognised constructions)')
                continue
            infos = [_draw(d) for d in draws]
            if len({i[3] for i in infos}) != 4:
                probs.append('the four components do not come from four separate draws')
            if not all(_is_rng_param(i[0]) for i in infos):
                probs.append('a component is not drawn from the caller\'s generator')
            los = {const_float(i[1] or frozenset()) for i in infos}
            his = {const_float(i[2] or frozenset()) for i in infos}
            if len(los) != 1 or len(his) != 1 or None in los or None in his or next(iter(los)) != -next(iter(his)) or next(iter(his)) <= 0:
                probs.append('the four draws do not share one symmetric constant range (-c..c): ranges %s' % sorted(
                    (str(const_float(i[1] or frozenset())), str(const_float(i[2] or frozenset()))) for i in infos))
            if len(set(norms)) != 1:
                probs.append('the components are divided by different norms')
                continue
            nn = next(iter(norms[0])) if len(norms[0]) == 1 else None
            if nn is None or nn[0] != 'call' or not nn[1].endswith('::sqrt'):
                probs.append('the divisor is not the square root of the sum of squares')
                continue
            S = nn[2][0]
            leaves = _flatten_add(S)
            sq = []
            if leaves is not None:
                for lf in leaves:
                    m = next(iter(lf)) if len(lf) == 1 else None
                    if m is not None and m[0] == 'binop' and m[1] == 'Mul' and m[2] == m[3] and len(m[2]) == 1:
                        sq.append(next(iter(m[2])))
                    elif m is not None and m[0] == 'call' and m[1].endswith('::powi') and len(m[2]) == 2 and \
                            m[2][1] == T(('const', '2')) and len(m[2][0]) == 1:
                        sq.append(next(iter(m[2][0])))
                    else:
                        sq = None
                        break
            if leaves is None or sq is None or sorted(map(str, sq)) != sorted(map(str, draws)):
                probs.append('the norm is not sqrt(d0^2 + d1^2 + d2^2 + d3^2) over exactly the four draws')
            # ball rejection: S <= 1 (or < 1) known wherever the candidate is returned
            facts = cmp_facts(fn, bi)
            rel, used = relation_for(facts, S, T(('const', '1.0f')))
            if not used or not rel <= {'lt', 'eq'}:
                probs.append('the candidate is normalised without the rejection test "sum of squares <= 1": normalising points of the '
                             'cube instead of the ball is biased towards the diagonals')
            # cone rejection on this very candidate
            cand = T(st)
            ok_cone = False
            for (a, b_, rel2, _blk) in facts:
                if rel2 <= {'lt', 'eq'} and all(m[0] == 'field' and m[2] == '1' and self_field(m[1], 'bounds') for m in strip_clone(b_)) and b_:
                    for m in a:
                        if m[0] == 'call' and m[1].endswith('::distance') and len(m[2]) == 3:
                            x, y = strip_clone(m[2][1]), strip_clone(m[2][2])
                            centre = lambda ts: bool(ts) and all(q[0] == 'field' and q[2] == '0' and self_field(q[1], 'bounds') for q in ts)
                            if (centre(x) and y == cand) or (centre(y) and x == cand):
                                ok_cone = True
            for bj, t in fn.b.calls():
                if t['func'].get('path', '').endswith('::satisfies_bounds') and strip_clone(fn.arg_terms(t, 1, bj)) == cand:
                    te, _fe = P.call_true_edges(fn, bj)
                    if P.guarded(fn, bi, te):
                        ok_cone = True
            if not ok_cone:
                probs.append('the returned candidate is not the one that passed `distance(centre, q) <= max_angle`')
            # every rejection draws afresh: the draws sit inside the loop that contains the return guard
            loops = [L for L in fn.loops() if all(i[3][1] in L['body'] for i in infos)]
            if not loops:
                probs.append('the draws are not inside a retry loop (a rejected candidate is not replaced by four fresh draws)')
    if n_cand < 1 and not probs:
        probs.append('no candidate rotation is constructed (unrecognised construction)')
    r.inst('%s: cube -> ball rejection -> normalise -> cone rejection, candidate returned unmodified' % su.path, ok=not probs, site=su.loc(0))
    for o, pr in enumerate(dict.fromkeys(probs)):
        r.violations.append(Violation('C14', 'C14.so3', su.path, 'construction', pr, loc=su.loc(0), ordinal=o))


def run(ctx, tier):
    r_draw = RuleResult('C14.draw', 'R^n / SO(2): each value is one unmodified uniform draw over exactly its stored bounds, from the caller\'s generator')
    r_so3 = RuleResult('C14.so3', 'SO(3): cube -> ball rejection -> normalise -> cone rejection; the accepted candidate is returned unmodified')
    r_comp = RuleResult('C14.compose', 'compound / SE(2) / SE(3) sample each component once with the caller\'s generator (C13 rules on sample_uniform)')
    n = {'vec': 0, 'angle': 0, 'cone': 0}
    for adt in space_adts(ctx):
        fields = {f['name']: f['ty'] for f in ctx.core.adts[adt]['variants'][0]['fields']}
        su = space_methods(ctx, adt).get('sample_uniform')
        if su is None or 'bounds' not in fields:
            continue
        bty = fields['bounds']
        if bty.startswith('std::vec::Vec<(f64, f64)>'):
            n['vec'] += 1
            _vector(ctx, adt, su, r_draw)
        elif bty == '(f64, f64)':
            n['angle'] += 1
            _angle(ctx, adt, su, r_draw)
        else:
            n['cone'] += 1
            _cone(ctx, adt, su, r_so3)
    for k, res in (('vec', r_draw), ('angle', r_draw), ('cone', r_so3)):
        if n[k] < 1:
            res.violations.append(Violation('C14', res.rule, 'oxmpl', 'floor:' + k, 'no %s-bounded primitive space with a sampler found (floor 1)' % k))
    # compound layers: the C13 rules, restricted to sampling
    from . import c13
    seen = 0
    for rr in c13.run(ctx, tier):
        for i in rr.instances:
            if 'sample_uniform' in i['desc']:
                seen += 1
                r_comp.inst('%s: %s' % (rr.rule, i['desc']), ok=i['ok'], nontrivial=i.get('nontrivial', True))
        for v in rr.violations:
            if 'sample_uniform' in v.fn or v.what == 'sample_uniform' or 'sample_uniform' in v.msg:
                r_comp.violations.append(Violation('C14', 'C14.compose', v.fn, v.what, '%s: %s' % (v.rule, v.msg), loc=v.loc, ordinal=v.ordinal))
    if seen < 3:
        r_comp.violations.append(Violation('C14', 'C14.compose', 'oxmpl', 'floor', 'only %d sampling-related C13 obligations found (floor 3)' % seen))
    return [r_draw, r_so3, r_comp]
