"""Symbolic value numbering over polynomial normal forms, on the MIR facts (gated-SSA style).

A forward dataflow analysis of the float computations of one body: every tracked place holds a *normal form* -
a polynomial with float coefficients over atoms - and control-flow joins are closed with gating terms
`ite(cond, a, b)` (the gamma functions of gated single assignment form), so the abstract value of a result is one term
for the whole function, not one per path.  Nothing is executed: the analysis is value numbering with algebraic
simplification (the classic compiler analysis), its answers are *terms*, and rules compare terms.

Atoms
    ('leaf', param, path)                a float read through parameter `param` (path = field names, ('idx', k) for the
                                         element at the symbolic position k of a vector / slice)
    ('fn', name, (arg keys..))           an uninterpreted application of an f64 method after local simplification
                                         (odd / even functions carry their sign out, constants fold, rem_euclid is
                                         canonicalised modulo its period)
    ('ite', cond, key_a, key_b)          gating term; cond = (rel, key) meaning  poly rel 0
    ('sum', k, key)                      sum over all positions k of a term (accumulation loop or Iterator::sum)
    ('phi', header, place)               loop-carried value (closed after the loop where the update is additive)
    ('opq', ..)                          an opaque but definite value (a call that is not modelled) - equal only to itself
TOP (None) is "not tracked"; every operation on TOP is TOP and rules treat it as *undecided*, never as a violation.

Mathematical reading: terms denote real-number expressions (x * 0 = 0, a + (b - a) = b); floating-point rounding is
outside this analysis and every rule built on it says so."""
import math

from .engine import proj_path

PI = math.pi
F64 = ('core::f64::<impl f64>::', 'std::f64::<impl f64>::')
TOP = None
EPS = 1e-12


def _isint(x):
    return abs(x - round(x)) < 1e-9


class Poly:
    """dict monomial -> coefficient; monomial = tuple of (atom, power) sorted by repr; () is the constant monomial"""
    __slots__ = ('m', '_key')

    def __init__(self, m=None):
        self.m = {k: v for k, v in (m or {}).items() if abs(v) > 0.0}
        self._key = None

    # -- construction
    @staticmethod
    def const(c):
        return Poly({(): float(c)})

    @staticmethod
    def atom(a):
        return Poly({((a, 1),): 1.0})

    def key(self):
        if self._key is None:
            self._key = tuple(sorted(((mono, round(c, 12) if abs(c) < 1e6 else c) for mono, c in self.m.items()), key=repr))
        return self._key

    def __eq__(self, o):
        return isinstance(o, Poly) and self.key() == o.key()

    def __hash__(self):
        return hash(self.key())

    def is_const(self):
        return all(mono == () for mono in self.m)

    def cval(self):
        return self.m.get((), 0.0)

    def is_zero(self):
        return not self.m

    def atoms(self):
        out = set()
        for mono in self.m:
            for a, _p in mono:
                out.add(a)
        return out

    # -- arithmetic
    def __add__(self, o):
        r = dict(self.m)
        for k, v in o.m.items():
            r[k] = r.get(k, 0.0) + v
            if abs(r[k]) < 1e-15 * max(1.0, abs(v)):
                del r[k]
        return Poly(r)

    def __neg__(self):
        return Poly({k: -v for k, v in self.m.items()})

    def __sub__(self, o):
        return self + (-o)

    def scale(self, c):
        return Poly({k: v * c for k, v in self.m.items()})

    @staticmethod
    def _mmul(a, b):
        d = {}
        for at, p in a + b:
            d[at] = d.get(at, 0) + p
        return tuple(sorted(((at, p) for at, p in d.items() if p != 0), key=repr))

    def __mul__(self, o):
        if len(self.m) * len(o.m) > 400:
            return TOP
        r = {}
        extra = None
        for k1, v1 in self.m.items():
            for k2, v2 in o.m.items():
                k = Poly._mmul(k1, k2)
                fold = [(a, p) for a, p in k if _foldable(a, p)]
                if fold:
                    # ite(c, x, y)^n with constant arms is ite(c, x^n, y^n); sqrt(P)^2 is P
                    rest = tuple((a, p) for a, p in k if not _foldable(a, p))
                    term = Poly({rest: v1 * v2})
                    for a, p in fold:
                        f = _fold_atom(a, p)
                        term = term * f if term is not None and f is not None else TOP
                    if term is None:
                        return TOP
                    extra = term if extra is None else extra + term
                    continue
                r[k] = r.get(k, 0.0) + v1 * v2
        res = Poly({k: v for k, v in r.items() if abs(v) > 1e-300})
        return res if extra is None else res + extra

    def recip(self):
        """1 / self for a single monomial; otherwise an atom"""
        if self.is_zero():
            return TOP
        if len(self.m) == 1:
            (mono, c), = self.m.items()
            return Poly({tuple((a, -p) for a, p in mono): 1.0 / c})
        s, q = sign_canon(self)
        return Poly({((('poly', q.key()), -1),): float(s)})

    def lead_sign(self):
        """sign of the first non-constant monomial in key order (0 when the polynomial is constant)"""
        for mono, c in self.key():
            if mono != ():
                return 1 if c > 0 else -1
        return 0

    def __repr__(self):
        return fmt_poly(self)


def _foldable(a, p):
    if a[0] == 'ite' and p not in (1,):
        x, y = from_key(a[2]), from_key(a[3])
        return x.is_const() and y.is_const() and x.cval() != 0 and y.cval() != 0
    if a[0] == 'fn' and a[1] == 'sqrt' and p % 2 == 0:
        return True
    return False


def _fold_atom(a, p):
    if a[0] == 'ite':
        x, y = from_key(a[2]).cval(), from_key(a[3]).cval()
        return ite(a[1], Poly.const(x ** p), Poly.const(y ** p))
    if a[0] == 'fn' and a[1] == 'sqrt':
        base = from_key(a[2][0])
        if p < 0:
            base = base.recip()
        r = Poly.const(1.0)
        for _ in range(abs(p) // 2):
            r = r * base if r is not None and base is not None else TOP
        return r
    return TOP


def sign_canon(p):
    """(s, q) with p = s * q and q sign-canonical (leading non-constant coefficient positive; constants: s = sign)"""
    s = p.lead_sign()
    if s == 0:
        s = -1 if p.cval() < 0 else 1
    return (s, p if s > 0 else -p)


def fmt_atom(a):
    k = a[0]
    if k == 'leaf':
        return 'p%d.%s' % (a[1], '.'.join('[%s]' % (t[1],) if isinstance(t, tuple) else str(t) for t in a[2])) if a[2] else 'p%d' % a[1]
    if k == 'fn':
        return '%s(%s)' % (a[1], ', '.join(fmt_key(x) for x in a[2]))
    if k == 'ite':
        if a[1][0] not in ('<', '<=', '=='):
            return 'ite(<cond %s>, %s, %s)' % (a[1][1][-1] if isinstance(a[1][1], tuple) else a[1][1], fmt_key(a[2]), fmt_key(a[3]))
        return 'ite(%s %s 0, %s, %s)' % (fmt_key(a[1][1]), a[1][0], fmt_key(a[2]), fmt_key(a[3]))
    if k == 'sum':
        return 'sum[%s](%s)' % (a[1], fmt_key(a[2]))
    if k == 'poly':
        return '(%s)' % fmt_key(a[1])
    if k == 'reduce':
        return '%s[%s](%s)' % (a[1], a[2], fmt_key(a[3]))
    return str(a)


def fmt_key(key):
    parts = []
    for mono, c in key:
        ms = '*'.join(fmt_atom(a) + ('^%d' % p if p != 1 else '') for a, p in mono)
        if not ms:
            parts.append('%g' % c)
        elif c == 1.0:
            parts.append(ms)
        elif c == -1.0:
            parts.append('-' + ms)
        else:
            parts.append('%g*%s' % (c, ms))
    return ' + '.join(parts) if parts else '0'


def fmt_poly(p):
    return 'TOP' if p is None else fmt_key(p.key())


def from_key(key):
    return Poly({mono: c for mono, c in key})


# ---------------------------------------------------------------------------------------------------- conditions
NEG = {'<': '<=', '<=': '<'}


def mk_cond(op, a, b):
    """canonical condition (rel, key, positive?) for  a op b; returns (cond, flipped) where the condition that holds is
    cond if not flipped else its negation.  cond = (rel, key of a sign-canonical polynomial), rel in < <= == !="""
    if a is None or b is None:
        return None
    if op in ('Gt', 'Ge'):
        a, b = b, a
        op = 'Lt' if op == 'Gt' else 'Le'
    d = a - b                       # d rel 0
    if op in ('Eq', 'Ne'):
        _s, q = sign_canon(d)
        return (('==', q.key()), op == 'Ne')
    rel = '<' if op == 'Lt' else '<='
    s, q = sign_canon(d)
    if d.is_const():
        q, s = d, 1
    if s > 0:
        return ((rel, q.key()), False)
    # -q rel 0  <=>  not (q rel' 0)
    return ((NEG[rel], q.key()), True)


def cond_const(cond):
    """True / False when the condition's polynomial is constant, else None"""
    p = from_key(cond[1])
    if not p.is_const():
        return None
    v = p.cval()
    return {'<': v < 0, '<=': v <= 0, '==': v == 0}[cond[0]]


def ite(cond, a, b):
    """gating term; a where cond holds, b otherwise"""
    if a is None or b is None:
        return TOP
    if a == b:
        return a
    if cond is None:
        return TOP
    cc = cond_const(cond) if cond[0] in ('<', '<=', '==') else None
    if cc is True:
        return a
    if cc is False:
        return b
    return Poly.atom(('ite', cond, a.key(), b.key()))


# ---------------------------------------------------------------------------------------------------- functions
ODD = {'sin', 'tan', 'asin', 'atan', 'sinh', 'tanh', 'cbrt', 'signum', 'to_radians', 'to_degrees'}
EVEN = {'cos', 'cosh', 'abs'}
FOLD1 = {'sin': math.sin, 'cos': math.cos, 'tan': math.tan, 'asin': lambda x: math.asin(x), 'acos': lambda x: math.acos(x),
         'atan': math.atan, 'sqrt': lambda x: math.sqrt(x), 'abs': abs, 'exp': math.exp, 'ln': lambda x: math.log(x),
         'floor': math.floor, 'ceil': math.ceil, 'round': lambda x: float(round(x)), 'trunc': math.trunc,
         'signum': lambda x: math.copysign(1.0, x), 'to_radians': math.radians, 'to_degrees': math.degrees,
         'sinh': math.sinh, 'cosh': math.cosh, 'tanh': math.tanh, 'cbrt': lambda x: math.copysign(abs(x) ** (1 / 3), x),
         'recip': lambda x: 1.0 / x}


def app(name, args):
    """normal form of the f64 method `name` applied to normal forms"""
    if any(a is None for a in args):
        return TOP
    try:
        return _app(name, args)
    except (ValueError, ZeroDivisionError, OverflowError):
        return TOP


def _atom_fn(name, args):
    return Poly.atom(('fn', name, tuple(a.key() for a in args)))


def _app(name, args):
    if name.startswith('call:'):
        base = name[5:]
        if base in ('distance', 'distance_dyn') and len(args) == 3:
            if args[1] == args[2]:
                return Poly()
            ks = sorted([args[1].key(), args[2].key()], key=repr)
            return Poly.atom(('fn', name, (args[0].key(),) + tuple(ks)))
        return _atom_fn(name, args)
    x = args[0]
    if name == 'mul_add':
        m = args[0] * args[1]
        return TOP if m is None else m + args[2]
    if name == 'powi':
        n = args[1]
        if not n.is_const() or not _isint(n.cval()):
            return TOP
        n = int(round(n.cval()))
        if n == 0:
            return Poly.const(1.0)
        base = x if n > 0 else x.recip()
        r = Poly.const(1.0)
        for _ in range(abs(n)):
            if r is None or base is None:
                return TOP
            r = r * base
        return r
    if name == 'recip':
        return x.recip()
    if name in ('min', 'max'):
        a, b = args[0], args[1]
        if a.is_const() and b.is_const():
            return Poly.const(min(a.cval(), b.cval()) if name == 'min' else max(a.cval(), b.cval()))
        if a == b:
            return a
        ks = sorted([a.key(), b.key()], key=repr)
        return Poly.atom(('fn', name, tuple(ks)))
    if name == 'rem_euclid':
        return rem_euclid(x, args[1])
    if name == 'hypot':
        s = x * x
        t = args[1] * args[1]
        return app('sqrt', [s + t]) if s is not None and t is not None else TOP
    if name == 'clamp':
        return _atom_fn('clamp', args)
    if name == 'atan2':
        return _atom_fn('atan2', args)
    if name == 'copysign':
        return _atom_fn('copysign', args)
    if name == 'powf':
        return _atom_fn('powf', args)
    if len(args) == 1:
        if x.is_const() and name in FOLD1:
            return Poly.const(FOLD1[name](x.cval()))
        if name == 'sqrt':
            # sqrt(c^2 * m^2) is not simplified (sign unknown); sqrt(0) folded above
            return _atom_fn('sqrt', [x])
        if name in ODD:
            s, q = sign_canon(x)
            r = _atom_fn(name, [q])
            return r if s > 0 else -r
        if name in EVEN:
            s, q = sign_canon(x)
            if name == 'abs' and len(q.m) == 1:
                # |c * m| = |c| * |m|
                (mono, c), = q.m.items()
                if mono == ():
                    return Poly.const(abs(c))
                return Poly.atom(('fn', 'abs', (Poly({mono: 1.0}).key(),))).scale(abs(c))
            return _atom_fn(name, [q])
        return _atom_fn(name, [x])
    return _atom_fn(name, args)


def rem_euclid(x, m):
    """canonical form of x.rem_euclid(m) for a positive constant m.  Off the seam (x not a multiple of m):
    rem(-y) = m - rem(y), and rem(y + k m) = rem(y); the argument is sign-canonicalised and its constant reduced into
    [0, m).  Integer-multiple terms  c * K  with K an integer atom and c / m integral are dropped."""
    if not m.is_const() or m.cval() <= 0:
        return _atom_fn('rem_euclid', [x, m])
    M = m.cval()
    if x.is_const():
        r = math.fmod(x.cval(), M)
        if r < 0:
            r += M
        return Poly.const(r)
    mm = {}
    for mono, c in x.m.items():
        if len(mono) == 1 and mono[0][0][0] == 'int' and mono[0][1] == 1 and _isint(c / M):
            continue
        mm[mono] = c
    x = Poly(mm)
    s, q = sign_canon(x)
    c0 = q.cval()
    r0 = math.fmod(c0, M)
    if r0 < 0:
        r0 += M
    if abs(r0 - M) < 1e-9:
        r0 = 0.0
    q = q + Poly.const(r0 - c0)
    base = Poly.atom(('fn', 'rem_euclid', (q.key(), m.key())))
    if s > 0:
        return base
    # x = -(q + k m): rem(x) = m - rem(q) off the seam; when the reduced constant moved, q = -x - k m, same class
    return m - base


# ---------------------------------------------------------------------------------------------------- substitution
def subst(p, f):
    """rebuild p with every atom a replaced by f(a) (a Poly, TOP, or None = keep and recurse into its arguments)"""
    if p is None:
        return TOP
    out = Poly()
    for mono, c in p.m.items():
        term = Poly.const(c)
        for a, pw in mono:
            v = subst_atom(a, f)
            if v is None:
                return TOP
            if pw < 0:
                v = v.recip()
                if v is None:
                    return TOP
            for _ in range(abs(pw)):
                term = term * v
                if term is None:
                    return TOP
        out = out + term
    return out


def subst_atom(a, f):
    r = f(a)
    if r is not None:
        return None if r == 'TOP' else r
    k = a[0]
    if k == 'fn':
        args = [subst(from_key(x), f) for x in a[2]]
        if a[1] in ('min', 'max', 'rem_euclid') or True:
            return app(a[1], args)
    if k == 'poly':
        return subst(from_key(a[1]), f)
    if k == 'ite':
        x = subst(from_key(a[2]), f)
        y = subst(from_key(a[3]), f)
        rel = a[1][0]
        if rel not in ('<', '<=', '=='):
            return ite(a[1], x, y)          # an opaque condition (a discriminant / a call result)
        cp = subst(from_key(a[1][1]), f)
        if cp is None:
            return TOP
        if rel == '==':
            _s, q = sign_canon(cp)
            return ite(('==', q.key()), x, y)
        if rel in ('<', '<='):
            s, q = sign_canon(cp)
            if cp.is_const():
                s, q = 1, cp
            if s > 0:
                return ite((rel, q.key()), x, y)
            return ite((NEG[rel], q.key()), y, x)
        # opaque condition: keep as it is
        return ite(a[1], x, y)
    if k == 'sum':
        body = subst(from_key(a[2]), f)
        return mk_sum(a[1], body)
    if k == 'reduce':
        body = subst(from_key(a[3]), f)
        return TOP if body is None else Poly.atom(('reduce', a[1], a[2], body.key()))
    return Poly.atom(a)


def mk_sum(k, body):
    if body is None:
        return TOP
    if body.is_zero():
        return Poly()
    return Poly.atom(('sum', k, body.key()))


def has_atom(p, pred):
    """does any atom (recursively) satisfy pred"""
    if p is None:
        return False
    found = []

    def f(a):
        if pred(a):
            found.append(a)
        return None
    subst(p, f)
    return bool(found)


def collect_atoms(p, pred):
    found = []

    def f(a):
        if pred(a):
            found.append(a)
        return None
    subst(p, f)
    return found


# ---------------------------------------------------------------------------------------------------- the analysis
class It:
    """abstract iterator: yields `elem` (a value: Poly / ('tuple', [..]) / ('ref', root)) at symbolic position k"""
    def __init__(self, elem):
        self.elem = elem


class SymVal:
    def __init__(self, ctx, crate, max_depth=5, consts=None):
        self.ctx = ctx
        self.crate = crate
        self.max_depth = max_depth
        self.consts = consts or {}          # {param idx: float} scalar parameters pinned to a constant (t := 0 / 1)
        self.notes = []
        self._cache = {}
        self._opq = 0

    # -- places
    @staticmethod
    def _tokens(pl):
        out = []
        for e in pl['p']:
            if e == 'deref':
                continue
            if isinstance(e, dict) and 'f' in e:
                ty = e.get('ty') or ''
                if ty.startswith('std::ptr::Unique<') or ty.startswith('std::ptr::NonNull<') or (e.get('name') == 'pointer' and ty.startswith('*const ')):
                    continue
                out.append(e['name'] if e.get('name') is not None else str(e['f']))
            elif isinstance(e, dict) and 'idx' in e:
                out.append(('idx', 'L%s' % (e['idx'],)))
            elif isinstance(e, dict) and 'cidx' in e:
                out.append(('idx', 'C%s' % (e['cidx'],)))
            elif isinstance(e, dict) and 'down' in e:
                continue
            else:
                out.append('?')
        return tuple(out)

    def _root(self, st, body, pl):
        """key of a place with references resolved"""
        toks = self._tokens(pl)
        if any(isinstance(t, tuple) and t[1].startswith('L') for t in toks):
            toks = tuple(self._idx_token(st, t) for t in toks)
        l = pl['l']
        n = 0
        base = (l,)
        while ('ref',) + base in st and n < 8:
            base = st[('ref',) + base]
            n += 1
        return tuple(base) + toks

    @staticmethod
    def _idx_of(v):
        """position token for an index value"""
        if isinstance(v, Poly):
            if v.is_const():
                return ('idx', 'C%d' % int(round(v.cval())))
            return ('idx', 'V%x' % (hash(v.key()) & 0xffffffff))
        return None

    def _idx_token(self, st, t):
        if isinstance(t, tuple) and t[0] == 'idx' and t[1].startswith('L'):
            v = st.get((int(t[1][1:]),))
            tok = self._idx_of(v)
            if tok is not None:
                return tok
        return t

    def _load(self, st, body, pl):
        k = self._root(st, body, pl)
        return self._load_key(st, body, k)

    def _load_key(self, st, body, k):
        if k in st:
            return st[k]
        # a field of an aliased struct (clone / copy of something rooted elsewhere)
        for n in range(len(k), 0, -1):
            al = st.get(('alias',) + k[:n])
            if al is not None:
                return self._load_key(st, body, tuple(al) + k[n:])
            rf = st.get(('ref',) + k[:n])
            if rf is not None:
                return self._load_key(st, body, tuple(rf) + k[n:])
        for n in range(len(k) - 1, 0, -1):
            base = st.get(k[:n])
            if isinstance(base, Poly) and len(base.m) == 1:
                (mono, c), = base.m.items()
                if c == 1.0 and len(mono) == 1 and mono[0][1] == 1 and mono[0][0][0] in ('opq', 'proj'):
                    return Poly.atom(('proj', mono[0][0], k[n:]))
        if isinstance(k[0], int) and 1 <= k[0] <= body.arg_count:
            if len(k) == 1 and k[0] in self.consts:
                return Poly.const(self.consts[k[0]])
            return Poly.atom(('leaf', k[0], k[1:]))
        if isinstance(k[0], tuple) and k[0][0] == 'ext':
            return Poly.atom(('leaf', k[0], k[1:]))
        return TOP

    def _const(self, c):
        for f in ('fval',):
            if f in c:
                try:
                    return Poly.const(float(c[f]))
                except ValueError:
                    return TOP
        if 'ival' in c:
            try:
                return Poly.const(float(c['ival']))
            except (TypeError, ValueError):
                return TOP
        if c.get('ty') in ('i32', 'usize', 'u32', 'i64', 'u64') and 'bits' in c:
            try:
                return Poly.const(float(int(c['bits'])))
            except (TypeError, ValueError):
                return TOP
        return TOP

    def _op(self, st, body, o):
        if 'const' in o:
            return self._const(o['const'])
        pl = o.get('copy') or o.get('move')
        if pl is None:
            return TOP
        return self._load(st, body, pl)

    def _fresh(self, what):
        self._opq += 1
        return Poly.atom(('opq', what, self._opq))

    # -- one body -------------------------------------------------------------------------------------
    def analyze(self, body, depth=0, bind=None):
        """bind: {param idx: value} initial values for parameters (closure arguments).  Returns
        {('ret', path..): Poly, ('out', param, path..): Poly}; a missing key means nothing tracked was stored."""
        fn = self.ctx.fn(body)
        dom = fn.dominators()
        preds_all = body.preds()
        reach = set(dom.keys())
        loops = {L['header']: L for L in fn.loops()}
        back = set()
        for L in loops.values():
            back |= set(L['back_edges'])
        # reverse post-order over the DAG without back edges
        order, seen = [], set()

        def dfs(b):
            stack = [(b, iter([s for s in body.succs(b) if (b, s) not in back and not body.blocks[s]['cleanup']]))]
            seen.add(b)
            while stack:
                x, itr = stack[-1]
                adv = False
                for s in itr:
                    if s not in seen:
                        seen.add(s)
                        stack.append((s, iter([y for y in body.succs(s) if (s, y) not in back and not body.blocks[y]['cleanup']])))
                        adv = True
                        break
                if not adv:
                    order.append(x)
                    stack.pop()
        dfs(0)
        order.reverse()
        idom = {}
        for b in order:
            ds = dom[b] - {b}
            # immediate dominator: the dominator dominated by all others
            best = None
            for d in ds:
                if all(o in dom[d] for o in ds):
                    best = d
            idom[b] = best
        out_states = {}           # (block, succ) -> state on that edge
        edge_cond = {}            # (block, succ) -> (cond, positive) | ('sw', key, val)
        st0 = {}
        for i, v in (bind or {}).items():
            self._store_value(st0, (i,), v)
        ret = {}
        phi_info = {}             # phi atom -> (header, key, init value)
        latch_states = {}
        entry_states = {}
        for b in order:
            if b == 0:
                st = dict(st0)
            else:
                ins = [(p, out_states[(p, b)]) for p in preds_all[b] if (p, b) in out_states and (p, b) not in back]
                if not ins:
                    continue
                if len(ins) == 1:
                    st = dict(ins[0][1])
                else:
                    st = self._merge(body, b, ins, idom, dom, edge_cond)
                if b in loops:
                    entry_states[b] = dict(st)
                    for k in self._assigned_in(body, st, loops[b]):
                        a = ('phi', b, k)
                        phi_info[a] = (b, k, st.get(k))
                        st[k] = Poly.atom(a)
            blk = body.blocks[b]
            self._cur = (body, b)
            for s in blk['stmts']:
                if s['k'] == 'assign':
                    try:
                        self._assign(st, body, fn, s)
                    except Exception as e:      # noqa - an unmodelled shape is "not tracked", never a crash
                        self.notes.append('%s bb%d: %s' % (body.path, b, e))
                        self._kill(st, self._root(st, body, s['place']))
            t = blk['term']
            k = t['k']
            if k == 'call':
                try:
                    self._call(st, body, fn, b, t, depth)
                except Exception as e:          # noqa
                    self.notes.append('%s bb%d call: %s' % (body.path, b, e))
                    self._kill(st, self._root(st, body, t['dest']))
                if t['target'] is not None:
                    out_states[(b, t['target'])] = st
            elif k == 'switch':
                self._switch(st, body, b, t, out_states, edge_cond)
            elif k == 'return':
                for kk, v in st.items():
                    if not isinstance(kk[0], int) or not isinstance(v, Poly):
                        continue
                    if kk[0] == 0:
                        ret[('ret',) + kk[1:]] = v
                    elif 1 <= kk[0] <= body.arg_count and len(kk) > 1 and body.local_ty(kk[0]).startswith('&mut '):
                        ret[('out', kk[0]) + kk[1:]] = v
                it = st.get((0,))
                if isinstance(it, It):
                    ret[('ret-iter',)] = it
            else:
                for s2 in body.succs(b):
                    if not body.blocks[s2]['cleanup']:
                        out_states[(b, s2)] = st
            for (x, h) in back:
                if x == b:
                    latch_states.setdefault(h, []).append(st)
        # close the loop-carried values
        closed = {}

        def close(a):
            if a[0] != 'phi':
                return None
            if a in closed:
                return closed[a] if closed[a] is not None else 'TOP'
            closed[a] = None
            h, k, init = phi_info.get(a, (None, None, None))
            ls = latch_states.get(h, [])
            res = TOP
            if len(ls) == 1:
                upd = ls[0].get(k)
                me = Poly.atom(a)
                if isinstance(upd, Poly):
                    if upd == me:
                        res = init if isinstance(init, Poly) else TOP
                    else:
                        term = upd - me
                        if not has_atom(term, lambda x: x == a) and isinstance(init, Poly):
                            term2 = subst(term, close)
                            init2 = subst(init, close)
                            if term2 is not None and init2 is not None:
                                s = mk_sum('k', term2)
                                res = init2 + s if s is not None else TOP
            closed[a] = res
            return res if res is not None else 'TOP'
        # what a loop body stores into the elements of an out-parameter / the result (per position)
        for h, ls in latch_states.items():
            for lst in ls:
                for kk, v in lst.items():
                    if not isinstance(kk[0], int) or not isinstance(v, Poly) or not any(isinstance(t, tuple) for t in kk):
                        continue
                    if kk[0] == 0:
                        ret.setdefault(('ret',) + kk[1:], v)
                    elif 1 <= kk[0] <= body.arg_count and body.local_ty(kk[0]).startswith('&mut '):
                        ret.setdefault(('out', kk[0]) + kk[1:], v)
        out = {}
        for kk, v in ret.items():
            if isinstance(v, Poly):
                r = subst(v, close)
                if r is not None:
                    kk2, r2 = _rename_positions(kk, r)
                    out[kk2] = r2
            else:
                out[kk] = v
        return out

    def _assigned_in(self, body, st, L):
        keys = set()
        for b in L['body']:
            blk = body.blocks[b]
            for s in blk['stmts']:
                if s['k'] == 'assign':
                    k = self._root(st, body, s['place'])
                    if not any(isinstance(t, tuple) for t in k):
                        keys.add(k)
            t = blk['term']
            if t['k'] == 'call':
                k = self._root(st, body, t['dest'])
                keys.add(k)
        return [k for k in keys if body.local_ty(k[0]) in ('f64', 'f32') or k in st] if True else []

    # -- joins ------------------------------------------------------------------------------------------
    def _merge(self, body, b, ins, idom, dom, edge_cond):
        keys = set()
        for _p, s in ins:
            keys |= set(s.keys())
        st = {}
        for k in keys:
            vals = [s.get(k, 'missing') for _p, s in ins]
            first = vals[0]
            if all(self._same(v, first) for v in vals[1:]):
                if first != 'missing':
                    st[k] = first
                continue
            if k and k[0] in ('ref', 'alias'):
                continue
            if any(not isinstance(v, Poly) for v in vals):
                # defined on some ways only / not a scalar: a scalar defined on some ways only keeps TOP
                continue
            v = self._gate(body, b, [(p, s[k]) for p, s in ins], idom, dom, edge_cond)
            if v is not None:
                st[k] = v
        return st

    @staticmethod
    def _same(a, b):
        if isinstance(a, Poly) and isinstance(b, Poly):
            return a == b
        return a is b or (not isinstance(a, (Poly, It)) and not isinstance(b, (Poly, It)) and a == b)

    def _gate(self, body, join, pvals, idom, dom, edge_cond):
        """gating term for the values arriving at `join` from the predecessors in pvals"""
        vals = [v for _p, v in pvals]
        if all(v == vals[0] for v in vals[1:]):
            return vals[0]
        d = idom.get(join)
        # the switch that decides among these predecessors: the nearest common dominator that ends in a switch
        while d is not None and body.blocks[d]['term']['k'] != 'switch':
            d = idom.get(d)
        if d is None:
            return TOP
        groups = {}
        for (p, v) in pvals:
            arm = None
            for s in body.succs(d):
                if (d, s) not in edge_cond:
                    continue
                if (p == d and s == join) or (s in dom.get(p, ()) and s != join) or (s == p):
                    if arm is not None and arm != s:
                        return TOP
                    arm = s
            if arm is None:
                # the edge d -> join itself
                if p == d:
                    arm = join
                else:
                    return TOP
            groups.setdefault(arm, []).append((p, v))
        if len(groups) < 2:
            # all arrive through one arm: an inner switch decides
            (arm, g), = groups.items()
            inner = arm
            return self._gate_from(body, join, g, idom, dom, edge_cond, inner)
        res = None
        arms = list(groups.items())
        # resolve every arm to one value
        resolved = []
        for arm, g in arms:
            if len(g) == 1:
                resolved.append((arm, g[0][1]))
            else:
                v = self._gate_from(body, join, g, idom, dom, edge_cond, arm)
                if v is None:
                    return TOP
                resolved.append((arm, v))
        # chain ite over the arms by their edge conditions
        res = resolved[-1][1]
        for arm, v in reversed(resolved[:-1]):
            ec = edge_cond.get((d, arm))
            if ec is None:
                return TOP
            cond, positive = ec
            res = ite(cond, v, res) if positive else ite(cond, res, v) if len(resolved) == 2 else TOP
            if res is None:
                return TOP
        if len(resolved) == 2:
            (a1, v1), (a2, v2) = resolved
            ec = edge_cond.get((d, a1))
            if ec is None:
                return TOP
            cond, positive = ec
            return ite(cond, v1, v2) if positive else ite(cond, v2, v1)
        return res

    def _gate_from(self, body, join, g, idom, dom, edge_cond, start):
        """values of group g all arrive below block `start`: find the switch below start that separates them"""
        # the nearest common dominator of the predecessors in g
        common = None
        for (p, _v) in g:
            ds = dom.get(p, set())
            common = set(ds) if common is None else (common & ds)
        cands = [c for c in (common or ()) if start in dom.get(c, ()) and body.blocks[c]['term']['k'] == 'switch']
        # deepest first
        cands.sort(key=lambda c: -len(dom.get(c, ())))
        for d in cands:
            groups = {}
            ok = True
            for (p, v) in g:
                arm = None
                for s in body.succs(d):
                    if (d, s) not in edge_cond:
                        continue
                    if (p == d and s == join) or (s in dom.get(p, ()) and s != join):
                        arm = s if arm is None else 'multi'
                if arm is None and p == d:
                    arm = join
                if arm is None or arm == 'multi':
                    ok = False
                    break
                groups.setdefault(arm, []).append((p, v))
            if not ok or len(groups) != 2:
                continue
            res = []
            for arm, gg in groups.items():
                if len(gg) == 1 or all(x[1] == gg[0][1] for x in gg):
                    res.append((arm, gg[0][1]))
                else:
                    v = self._gate_from(body, join, gg, idom, dom, edge_cond, arm)
                    if v is None:
                        return TOP
                    res.append((arm, v))
            (a1, v1), (a2, v2) = res
            ec = edge_cond.get((d, a1))
            if ec is None:
                return TOP
            cond, positive = ec
            return ite(cond, v1, v2) if positive else ite(cond, v2, v1)
        return TOP

    # -- switch -----------------------------------------------------------------------------------------
    def _switch(self, st, body, b, t, out_states, edge_cond):
        pl = t['discr'].get('copy') or t['discr'].get('move')
        info = st.get(self._root(st, body, pl)) if pl is not None else None
        targets = t['targets']
        succs = body.succs(b)
        if isinstance(info, tuple) and info and info[0] == 'cond' and len(targets) == 1 and str(targets[0][0]) == '0' and targets[0][1] != t['otherwise']:
            cond, flipped = info[1], info[2]
            f_t, t_t = targets[0][1], t['otherwise']
            cc = cond_const(cond) if cond is not None and cond[0] in ('<', '<=', '==') else None
            if cc is not None:
                holds = cc != flipped
                tgt = t_t if holds else f_t
                out_states[(b, tgt)] = st
                edge_cond[(b, tgt)] = (cond, True)
                return
            out_states[(b, t_t)] = st
            out_states[(b, f_t)] = st
            if cond is not None:
                edge_cond[(b, t_t)] = (cond, not flipped)
                edge_cond[(b, f_t)] = (cond, flipped)
            return
        # an opaque discriminant: one opaque condition per value
        dk = ('sw', body.path, b)
        for s2 in succs:
            out_states[(b, s2)] = st
        if len(succs) == 2:
            edge_cond[(b, succs[0])] = (('opq', dk), True)
            edge_cond[(b, succs[1])] = (('opq', dk), False)

    # -- statements -------------------------------------------------------------------------------------
    def _kill(self, st, k):
        for kk in [x for x in st if (x[:len(k)] == k) or (x and x[0] in ('ref', 'alias') and x[1:1 + len(k)] == k)]:
            del st[kk]

    def _store_value(self, st, k, v):
        if isinstance(v, tuple) and v and v[0] == 'tuple':
            for i, e in enumerate(v[1]):
                self._store_value(st, k + (str(i),), e)
        elif isinstance(v, tuple) and v and v[0] == 'refto':
            st[('ref',) + k] = tuple(v[1])
        elif v is not None:
            st[k] = v

    def _copy_struct(self, st, body, dk, sk):
        """copy everything tracked under sk to dk; returns True when something structured was found"""
        moved = False
        for kk in list(st.keys()):
            if kk[:len(sk)] == sk and len(kk) > len(sk):
                st[dk + kk[len(sk):]] = st[kk]
                moved = True
            elif kk and kk[0] in ('ref', 'alias') and kk[1:1 + len(sk)] == sk and len(kk) > 1 + len(sk):
                st[(kk[0],) + dk + kk[1 + len(sk):]] = st[kk]
                moved = True
        return moved

    def _assign(self, st, body, fn, s):
        pl, rv = s['place'], s['rv']
        k = self._root(st, body, pl)
        kind = rv['k']
        if kind == 'use':
            o = rv['op']
            src = o.get('copy') or o.get('move')
            if src is not None:
                sk = self._root(st, body, src)
                if sk == k:
                    return
                self._kill(st, k)
                if ('ref',) + sk in st:
                    st[('ref',) + k] = st[('ref',) + sk]
                    return
                moved = self._copy_struct(st, body, k, sk)
                v = self._load_key(st, body, sk)
                ty = body.local_ty(pl['l']) if not pl['p'] else None
                if isinstance(v, (Poly, It)) and (sk in st or self._is_scalar_place(body, src)):
                    st[k] = v
                elif not moved or True:
                    # a struct copied whole: remember where it came from (fields are looked up there)
                    if not self._is_scalar_place(body, src):
                        st[('alias',) + k] = sk
                return
            self._kill(st, k)
            v = self._op(st, body, o)
            if v is not None:
                st[k] = v
            return
        pre = None
        if kind == 'binop':
            pre = (self._op(st, body, rv['a']), self._op(st, body, rv['b']))
        elif kind == 'unop':
            pre = self._op(st, body, rv['a'])
            src0 = rv['a'].get('copy') or rv['a'].get('move')
            prev0 = st.get(self._root(st, body, src0)) if src0 is not None else None
        elif kind in ('cast', 'repeat'):
            pre = self._op(st, body, rv['op'])
        elif kind == 'agg':
            pre = dict(st)
        if kind not in ('ref', 'rawptr'):
            self._kill(st, k)
        if kind == 'binop':
            a, b = pre
            op = rv['op']
            if op in ('Lt', 'Le', 'Gt', 'Ge', 'Eq', 'Ne'):
                if isinstance(a, Poly) and isinstance(b, Poly):
                    c = mk_cond(op, a, b)
                    if c is not None:
                        st[k] = ('cond', c[0], c[1])
                return
            if not isinstance(a, Poly) or not isinstance(b, Poly):
                return
            v = TOP
            if op in ('Add', 'AddWithOverflow', 'AddUnchecked'):
                v = a + b
            elif op in ('Sub', 'SubWithOverflow', 'SubUnchecked'):
                v = a - b
            elif op in ('Mul', 'MulWithOverflow', 'MulUnchecked'):
                v = a * b
            elif op == 'Div':
                r = b.recip()
                v = a * r if r is not None else TOP
            elif op == 'Rem':
                v = _atom_fn('rem', [a, b]) if not (a.is_const() and b.is_const() and b.cval() != 0) else Poly.const(math.fmod(a.cval(), b.cval()))
            if v is not None:
                if op.endswith('WithOverflow'):
                    st[k + ('0',)] = v
                else:
                    st[k] = v
            return
        if kind == 'unop':
            a = pre
            if rv['op'] == 'Neg' and isinstance(a, Poly):
                st[k] = -a
            elif rv['op'] == 'Not':
                prev = prev0
                if isinstance(prev, tuple) and prev and prev[0] == 'cond':
                    st[k] = ('cond', prev[1], not prev[2])
            return
        if kind == 'cast':
            a = pre
            if isinstance(a, Poly):
                ty = rv.get('ty') or ''
                st[k] = a if ('f64' in ty or 'f32' in ty or a.is_const() or True) else a
            return
        if kind == 'agg':
            if rv['agg'] in ('adt', 'tuple', 'array', 'closure'):
                names = rv.get('field_names', []) if rv['agg'] == 'adt' else []
                for i, f in enumerate(rv['fields']):
                    fname = names[i] if i < len(names) else (('idx', 'C%d' % i) if rv['agg'] == 'array' else str(i))
                    src = f.get('copy') or f.get('move')
                    if src is not None:
                        sk = self._root(pre, body, src)
                        if ('ref',) + sk in pre:
                            st[('ref',) + k + (fname,)] = pre[('ref',) + sk]
                            continue
                        for kk in list(pre.keys()):
                            if kk[:len(sk)] == sk and len(kk) > len(sk):
                                st[k + (fname,) + kk[len(sk):]] = pre[kk]
                            elif kk and kk[0] in ('ref', 'alias') and kk[1:1 + len(sk)] == sk and len(kk) > 1 + len(sk):
                                st[(kk[0],) + k + (fname,) + kk[1 + len(sk):]] = pre[kk]
                        v = self._load_key(pre, body, sk)
                        if isinstance(v, (Poly, It)) and (sk in pre or self._is_scalar_place(body, src)):
                            st[k + (fname,)] = v
                        elif not self._is_scalar_place(body, src):
                            st[('alias',) + k + (fname,)] = sk
                    else:
                        v = self._op(pre, body, f)
                        if v is not None:
                            st[k + (fname,)] = v
            return
        if kind in ('ref', 'rawptr'):
            tk = self._root(st, body, rv['place'])
            if not pl['p']:
                self._kill(st, k)
                st[('ref',) + k] = tk
            return
        if kind == 'repeat':
            v = pre
            if isinstance(v, Poly):
                st[k + (('idx', '*'),)] = v
            return
        if kind == 'len':
            st[k] = self._fresh('len')
            return

    def _is_scalar_place(self, body, pl):
        if not pl['p']:
            ty = body.local_ty(pl['l'])
            return ty in ('f64', 'f32', '&f64', '&f32', '&mut f64', 'usize', 'i32', 'u32', 'i64', 'u64', 'bool')
        last = pl['p'][-1]
        if isinstance(last, dict) and 'ty' in last:
            return last['ty'] in ('f64', 'f32', '&f64', 'usize', 'i32', 'bool')
        if last == 'deref':
            ty = body.local_ty(pl['l'])
            return ty in ('&f64', '&mut f64', '&f32') and len(pl['p']) == 1
        if isinstance(last, dict) and ('idx' in last or 'cidx' in last):
            return True
        return False

    # -- calls ------------------------------------------------------------------------------------------
    def _arg_value(self, st, body, a):
        """Poly for scalars, It for iterators, ('refto', root) for references / structs"""
        if 'const' in a:
            return self._const(a['const'])
        pl = a.get('copy') or a.get('move')
        if pl is None:
            return TOP
        k = self._root(st, body, pl)
        if k in st and isinstance(st[k], (Poly, It)):
            return st[k]
        if ('ref',) + k in st:
            return ('refto', st[('ref',) + k])
        if self._is_scalar_place(body, pl):
            return self._load_key(st, body, k)
        return ('refto', k)

    def _call(self, st, body, fn, b, t, depth):
        f = t['func']
        p = f.get('path', '')
        name = p.rsplit('::', 1)[-1]
        d = self._root(st, body, t['dest'])
        args = [self._arg_value(st, body, a) for a in t['args']]
        self._kill(st, d)

        def scal(i):
            v = args[i] if i < len(args) else None
            if isinstance(v, tuple) and v and v[0] == 'refto':
                v = self._load_key(st, body, tuple(v[1]))
            return v if isinstance(v, Poly) else TOP

        self_ty = f.get('self_ty') or ''
        if p.startswith(F64):
            if name in ('is_nan', 'is_finite', 'is_infinite', 'is_sign_negative', 'is_sign_positive', 'partial_cmp', 'total_cmp'):
                return
            v = app(name, [scal(i) for i in range(len(args))])
            if v is not None:
                st[d] = v
            return
        if p in ('std::ops::Add::add', 'std::ops::Sub::sub', 'std::ops::Mul::mul', 'std::ops::Div::div') and 'f64' in self_ty:
            a, c = scal(0), scal(1)
            if a is None or c is None:
                return
            if name == 'add':
                v = a + c
            elif name == 'sub':
                v = a - c
            elif name == 'mul':
                v = a * c
            else:
                r = c.recip()
                v = a * r if r is not None else TOP
            if v is not None:
                st[d] = v
            return
        if p == 'std::ops::Neg::neg' and 'f64' in self_ty:
            a = scal(0)
            if a is not None:
                st[d] = -a
            return
        if p in ('std::ops::AddAssign::add_assign', 'std::ops::SubAssign::sub_assign', 'std::ops::MulAssign::mul_assign',
                 'std::ops::DivAssign::div_assign') and 'f64' in self_ty:
            tgt = args[0]
            if isinstance(tgt, tuple) and tgt[0] == 'refto':
                tk = tuple(tgt[1])
                a, c = self._load_key(st, body, tk), scal(1)
                if isinstance(a, Poly) and c is not None:
                    v = {'add_assign': lambda: a + c, 'sub_assign': lambda: a - c, 'mul_assign': lambda: a * c,
                         'div_assign': lambda: (a * c.recip()) if c.recip() is not None else TOP}[name]()
                    if v is not None:
                        st[tk] = v
                        return
                self._kill(st, tk)
            return
        if p in ('std::clone::Clone::clone', 'std::ops::Deref::deref', 'std::ops::DerefMut::deref_mut', 'std::convert::Into::into',
                 'std::convert::From::from', 'std::borrow::ToOwned::to_owned', 'std::convert::AsRef::as_ref', 'std::borrow::Borrow::borrow',
                 'std::vec::Vec::<T, A>::as_slice', 'std::vec::Vec::<T>::as_slice', 'std::iter::IntoIterator::into_iter'):
            v = args[0] if args else None
            if isinstance(v, (Poly, It)):
                st[d] = v
            elif isinstance(v, tuple) and v[0] == 'refto':
                tk = tuple(v[1])
                if name in ('deref', 'deref_mut', 'as_ref', 'borrow', 'as_slice'):
                    st[('ref',) + d] = tk
                elif name == 'into_iter':
                    ty = body.local_ty(t['dest']['l'])
                    if 'Iter' in ty or 'slice' in ty:
                        st[d] = It(('refto', tk + (('idx', 'k'),)))
                    else:
                        st[('alias',) + d] = tk
                else:
                    sv = self._load_key(st, body, tk)
                    if isinstance(sv, Poly) and tk in st:
                        st[d] = sv
                    else:
                        st[('alias',) + d] = tk
            return
        if p in ('std::ops::Index::index', 'std::ops::IndexMut::index_mut') and len(args) == 2:
            v, i = args[0], args[1]
            tok = self._idx_of(i if isinstance(i, Poly) else None)
            if isinstance(v, tuple) and v and v[0] == 'refto' and tok is not None:
                st[('ref',) + d] = tuple(v[1]) + (tok,)
            return
        # ---- iterators
        if name == 'iter' and ('slice' in p or 'Vec' in p) or name in ('iter_mut',) and False:
            v = args[0]
            if isinstance(v, tuple) and v[0] == 'refto':
                st[d] = It(('refto', tuple(v[1]) + (('idx', 'k'),)))
            return
        if p.endswith('Iterator::zip') or name == 'zip':
            a, c = args[0], args[1] if len(args) > 1 else None
            if isinstance(c, tuple) and c and c[0] == 'refto':
                c = It(('refto', tuple(c[1]) + (('idx', 'k'),)))
            if isinstance(a, It) and isinstance(c, It):
                st[d] = It(('tuple', [a.elem, c.elem]))
            return
        if name in ('copied', 'cloned', 'by_ref', 'rev', 'peekable', 'fuse') and isinstance(args[0] if args else None, It):
            if name != 'rev':
                st[d] = args[0]
            else:
                st[d] = args[0]
            return
        if name == 'enumerate' and args and isinstance(args[0], It):
            st[d] = It(('tuple', [Poly.atom(('pos', 'k')), args[0].elem]))
            return
        if name == 'map' and args and isinstance(args[0], It) and p.endswith('Iterator::map'):
            cb = self._closure_body(st, body, fn, t, 1, b)
            if cb is not None and depth < self.max_depth:
                r = self._call_closure(st, body, cb, t['args'][1], [args[0].elem], depth)
                if r is not None:
                    st[d] = It(r)
            return
        if name == 'sum' and args and isinstance(args[0], It):
            e = args[0].elem
            e = self._deref_value(st, body, e)
            if isinstance(e, Poly):
                v = mk_sum('k', e)
                if v is not None:
                    st[d] = v
            return
        if name == 'fold' and args and isinstance(args[0], It) and len(args) >= 3 and 'const' in t['args'][2] and \
                isinstance(t['args'][2]['const'].get('fn'), dict):
            # fold(init, f64::max) / fold(init, f64::min): the extremum over all positions, and the initial value
            fpath = t['args'][2]['const']['fn'].get('path', '')
            fname = fpath.rsplit('::', 1)[-1]
            init = scal(1)
            e = self._deref_value(st, body, args[0].elem)
            if fpath.startswith(F64) and fname in ('max', 'min') and isinstance(e, Poly) and init is not None:
                st[d] = app(fname, [init, Poly.atom(('reduce', fname, 'k', e.key()))])
            return
        if name == 'fold' and args and isinstance(args[0], It) and len(args) >= 3:
            init = scal(1)
            cb = self._closure_body(st, body, fn, t, 2, b)
            if cb is not None and init is not None and depth < self.max_depth:
                acc = Poly.atom(('acc', 'k'))
                r = self._call_closure(st, body, cb, t['args'][2], [acc, args[0].elem], depth)
                if isinstance(r, Poly):
                    term = r - acc
                    if not has_atom(term, lambda x: x == ('acc', 'k')):
                        v = mk_sum('k', term)
                        if v is not None:
                            st[d] = init + v
            return
        # ---- calls into the crate: analyse the callee generically, substitute the actuals
        tgt = self.crate.body(f.get('resolved', {}).get('path') or p)
        if tgt is None and f.get('trait'):
            cands = self.ctx.trait_impl_bodies(self.crate, f['trait'], f.get('name'))
            same = [c for c in cands if c.j.get('impl_adt') and c.j.get('impl_adt') == body.j.get('impl_adt')]
            tgt = same[0] if same else None
        if tgt is not None and depth < self.max_depth and tgt.arg_count == len(args):
            r = self._summary(tgt, depth)
            self._apply_summary(st, body, tgt, r, args, d)
            return
        # a scalar-valued call that is not modelled: an uninterpreted application of its arguments (references stand for the
        # places they point at); `distance`-like callees are taken as symmetric with d(x, x) = 0 (their own rules)
        if body.local_ty(t['dest']['l']) in ('f64', 'f32') and not t['dest']['p'] and not any(
                body.local_ty((a.get('copy') or a.get('move') or {'l': 0})['l']).startswith('&mut ') for a in t['args'] if 'const' not in a):
            av = []
            for v in args:
                if isinstance(v, Poly):
                    av.append(v)
                elif isinstance(v, tuple) and v and v[0] == 'refto':
                    x = self._load_key(st, body, tuple(v[1]))
                    rk = tuple(v[1])
                    if isinstance(x, Poly) and rk in st:
                        av.append(x)
                    elif isinstance(rk[0], int) and 1 <= rk[0] <= body.arg_count or (isinstance(rk[0], tuple) and rk[0][0] == 'ext'):
                        av.append(Poly.atom(('leaf', rk[0], rk[1:])))
                    else:
                        av = None
                        break
                else:
                    av = None
                    break
            if av is not None:
                v = app('call:' + (f.get('name') or name), av)
                if v is not None:
                    st[d] = v
                return
        # unknown callee: the destination is an opaque value; &mut arguments are clobbered
        for i, a in enumerate(t['args']):
            pl = a.get('copy') or a.get('move')
            if pl is not None and not pl['p'] and body.local_ty(pl['l']).startswith('&mut '):
                v = args[i]
                if isinstance(v, tuple) and v[0] == 'refto':
                    self._kill(st, tuple(v[1]))
        if not t['dest']['p'] and body.local_ty(t['dest']['l']) != '()':
            st[d] = self._fresh(name)

    def _deref_value(self, st, body, e):
        if isinstance(e, tuple) and e and e[0] == 'refto':
            return self._load_key(st, body, tuple(e[1]))
        return e

    def _closure_body(self, st, body, fn, t, j, b):
        try:
            terms = fn.arg_terms(t, j, b)
        except Exception:           # noqa
            return None
        for n in terms:
            if n[0] == 'closure':
                return self.crate.body(n[1])
        return None

    def _call_closure(self, st, body, cb, closure_arg, values, depth):
        """analyse closure body cb with its parameters bound to `values` (caller-side values); returns the value"""
        bind = {}
        ext = {}
        for i, v in enumerate(values):
            bind[i + 2] = self._externalise(st, body, v, ext)
        # captures: the closure's environment is parameter 1; its fields are the captured places
        pl = closure_arg.get('copy') or closure_arg.get('move')
        if pl is not None:
            ck = self._root(st, body, pl)
            envv = []
            n = 0
            while True:
                sub = ck + (str(n),)
                if sub in st and isinstance(st[sub], Poly):
                    envv.append(st[sub])
                elif ('ref',) + sub in st:
                    envv.append(self._externalise(st, body, ('refto', st[('ref',) + sub]), ext))
                elif ('alias',) + sub in st:
                    envv.append(self._externalise(st, body, ('refto', st[('alias',) + sub]), ext))
                else:
                    break
                n += 1
            if envv:
                bind[1] = ('tuple', envv)
        sub = SymVal(self.ctx, self.crate, self.max_depth)
        sub._opq = self._opq + 1000
        r = sub.analyze(cb, depth + 1, bind)
        v = r.get(('ret',))
        if v is None:
            parts = {k: x for k, x in r.items() if k[0] == 'ret'}
            if not parts:
                return TOP
            return TOP
        # map external leaves back
        back = {('leaf', ('ext', i), ()): None for i in ext}

        def f(a):
            if a[0] == 'leaf' and isinstance(a[1], tuple) and a[1][0] == 'ext':
                root = ext.get(a[1][1])
                if root is None:
                    return 'TOP'
                x = self._load_key(st, body, tuple(root) + tuple(a[2]))
                return x if x is not None else 'TOP'
            return None
        return subst(v, f)

    def _externalise(self, st, body, v, ext):
        """a caller-side value as a closure-side binding: scalars as they are, references as external roots"""
        if isinstance(v, Poly):
            return v
        if isinstance(v, tuple) and v and v[0] == 'tuple':
            return ('tuple', [self._externalise(st, body, e, ext) for e in v[1]])
        if isinstance(v, tuple) and v and v[0] == 'refto':
            x = self._load_key(st, body, tuple(v[1]))
            if isinstance(x, Poly) and (tuple(v[1]) in st or any(isinstance(tk, tuple) for tk in v[1])):
                return x
            i = len(ext)
            ext[i] = tuple(v[1])
            return ('refto', (('ext', i),))
        return TOP

    def _summary(self, tgt, depth):
        key = (tgt.path, tuple(sorted(self.consts.items())) if False else ())
        if key not in self._cache:
            self._cache[key] = {}
            sub = SymVal(self.ctx, self.crate, self.max_depth)
            sub._cache = self._cache
            self._cache[key] = sub.analyze(tgt, depth + 1)
            self.notes += sub.notes
        return self._cache[key]

    def _apply_summary(self, st, body, tgt, r, args, d):
        def f(a):
            if a[0] == 'leaf' and isinstance(a[1], int):
                i = a[1] - 1
                if i >= len(args):
                    return 'TOP'
                v = args[i]
                if isinstance(v, Poly):
                    return v if not a[2] else 'TOP'
                if isinstance(v, tuple) and v and v[0] == 'refto':
                    x = self._load_key(st, body, tuple(v[1]) + tuple(a[2]))
                    return x if x is not None else 'TOP'
                return 'TOP'
            if a[0] == 'opq':
                self._opq += 1
                return Poly.atom(('opq', a[1], ('at', self._cur[1], a[2])))
            return None
        wrote = False
        for kk, vv in r.items():
            if not isinstance(vv, Poly):
                continue
            x = subst(vv, f)
            if kk[0] == 'ret':
                if x is not None:
                    st[d + kk[1:]] = x
                    wrote = True
            elif kk[0] == 'out':
                ai = kk[1] - 1
                v = args[ai] if ai < len(args) else None
                if isinstance(v, tuple) and v and v[0] == 'refto':
                    tk = tuple(v[1]) + kk[2:]
                    if x is not None:
                        st[tk] = x
                    else:
                        self._kill(st, tk)
        # &mut arguments whose stores were not tracked are clobbered conservatively: only when the callee has no summary
        if not r:
            for i in range(len(args)):
                if tgt.local_ty(i + 1).startswith('&mut '):
                    v = args[i]
                    if isinstance(v, tuple) and v and v[0] == 'refto':
                        self._kill(st, tuple(v[1]))


def _rename_positions(key, p):
    """one index local used for the stored element and every element read: that local is the position symbol k"""
    idx = {t[1] for t in key if isinstance(t, tuple) and t[0] == 'idx'}
    for a in collect_atoms(p, lambda a: a[0] == 'leaf'):
        idx |= {t[1] for t in a[2] if isinstance(t, tuple) and t[0] == 'idx'}
    loc = {i for i in idx if i.startswith('L') or i.startswith('V')}
    if len(loc) != 1 or (idx - loc - {'k'}):
        return key, p
    (only,) = loc

    def ren(path):
        return tuple(('idx', 'k') if isinstance(t, tuple) and t == ('idx', only) else t for t in path)

    def f(a):
        if a[0] == 'leaf' and any(isinstance(t, tuple) and t == ('idx', only) for t in a[2]):
            return Poly.atom(('leaf', a[1], ren(a[2])))
        return None
    return ren(key), subst(p, f)


# ---------------------------------------------------------------------------------------------------- term utilities
def swap_params(p, i, j):
    """the term with the float content of parameters i and j exchanged"""
    def f(a):
        if a[0] == 'leaf' and a[1] in (i, j):
            return Poly.atom(('leaf', j if a[1] == i else i, a[2]))
        return None
    return subst(p, f)


def replace_param(p, i, j):
    """every read through parameter i replaced by the same read through parameter j"""
    def f(a):
        if a[0] == 'leaf' and a[1] == i:
            return Poly.atom(('leaf', j, a[2]))
        return None
    return subst(p, f)


def split_cases(polys, limit=64):
    """case analysis over the gating terms: yields (assignment, [poly without top-level ite atoms..]) for every
    consistent truth assignment of the conditions that occur (conditions are shared between the polys)"""
    conds = []
    for p in polys:
        for a in collect_atoms(p, lambda a: a[0] == 'ite'):
            if a[1] not in conds:
                conds.append(a[1])
    if len(conds) > 6:
        return None
    out = []
    for bits in range(1 << len(conds)):
        asg = {c: bool(bits >> n & 1) for n, c in enumerate(conds)}

        def f(a, _asg=asg):
            if a[0] == 'ite' and a[1] in _asg:
                return subst(from_key(a[2] if _asg[a[1]] else a[3]), f) or 'TOP'
            return None
        ps = [subst(p, f) for p in polys]
        out.append((asg, ps))
    return out
