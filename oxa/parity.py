"""Sign-symmetry (parity) abstract interpretation of float code on the MIR facts.

Question decided: how does every float the function produces change when all float content of the designated parameters
is negated (q -> -q for a quaternion, which denotes the same rotation)?  Abstract values:

    E   even: unchanged            O   odd: negated            Z   neither shown (fail closed)

Transfer: constants and everything rooted at the other parameters are E; the designated parameters' fields are O;
E*E = O*O = E, E*O = O, same parity adds, abs(E|O) = E, powi by an even constant = E, sin/tan/signum keep the parity,
cos(O) = E, every other function of even arguments is E; a comparison of even values is an invariant condition, a
comparison of an odd value with zero FLIPS; `let s = if odd < 0 { -c } else { c }` (a diamond of constant assignments on
a flipping condition) is O; any other control dependence on a flipping / unknown condition taints what is assigned
under it (Z).  Calls of functions of the crate are analysed with the parities of their arguments.

This is an abstract interpretation (no value is ever computed); it decides representation invariance clauses:
distance(q, r) = distance(-q, r)  <=  the returned value is E;  interpolate(a, -b) denotes the same rotation as
interpolate(a, b)  <=  the four stored components are all E or all O."""
from .engine import proj_path

E, O, Z = 'E', 'O', 'Z'
F64 = ('core::f64::<impl f64>::', 'std::f64::<impl f64>::')
INV = {'Lt': 'Ge', 'Le': 'Gt', 'Gt': 'Le', 'Ge': 'Lt', 'Eq': 'Ne', 'Ne': 'Eq'}


def jn(a, b):
    if a is None:
        return b
    if b is None:
        return a
    return a if a == b else Z


def mulp(a, b):
    if Z in (a, b):
        return Z
    return E if a == b else O


def addp(a, b):
    if Z in (a, b) or a != b:
        return Z
    return a


class Parity:
    def __init__(self, ctx, crate, max_depth=4):
        self._cur = None
        self.ctx = ctx
        self.crate = crate
        self.max_depth = max_depth
        self.notes = []

    @staticmethod
    def _key(pl):
        return (pl['l'],) + tuple(t for t in proj_path(pl['p']) if not t.startswith('as:'))

    def _root_key(self, fn, body, pl, st=None):
        """key of a place, references resolved to what they point at (`(*_5).x` with _5 = &(*_2) -> (_2, 'x'))"""
        k = self._key(pl)
        st = st if st is not None else self._cur
        if pl['p'] and pl['p'][0] == 'deref' and pl['l'] > body.arg_count:
            tgt = st.get(('ref', pl['l'])) if st is not None else None
            if tgt is not None:
                return tuple(tgt) + k[1:]
            root = fn.borrow_root(pl['l'])
            if root is not None:
                return (root[0],) + tuple(root[1]) + k[1:]
        return k

    def _load(self, st, fn, body, pl, odd):
        k = self._root_key(fn, body, pl)
        for n in range(len(k), 0, -1):
            if k[:n] in st and isinstance(st[k[:n]], str):
                return st[k[:n]]
        if 1 <= k[0] <= body.arg_count:
            return O if k[0] in odd else E
        return Z

    def _op(self, st, fn, body, o, odd):
        if 'const' in o:
            return E
        pl = o.get('copy') or o.get('move')
        if pl is None:
            return Z
        k = self._root_key(fn, body, pl)
        if k in st and isinstance(st[k], tuple):
            return st[k]
        return self._load(st, fn, body, pl, odd)

    # ------------------------------------------------------------------------------------------------
    def analyze(self, body, odd, scalars=None, depth=0):
        """odd: set of parameter indices whose float content is negated; scalars: {param idx: parity} for f64 parameters.
        Returns {('ret', field..) | ('out', param, field..): parity}"""
        fn = self.ctx.fn(body)
        st0 = {}
        for i, p in (scalars or {}).items():
            st0[(i,)] = p
        states = {0: st0}
        work = [0]
        ret = {}
        visits = {}
        diamonds = self._select_diamonds(body)
        while work:
            b = work.pop()
            visits[b] = visits.get(b, 0) + 1
            if visits[b] > 40:
                self.notes.append('%s: no fixpoint' % body.path)
                return {('ret',): Z}
            st = dict(states[b])
            self._cur = st
            blk = body.blocks[b]
            pcz = st.get(('pc',)) == Z
            for s in blk['stmts']:
                if s['k'] == 'assign':
                    self._assign(st, fn, body, s, odd, pcz)
            t = blk['term']
            succs = []
            if t['k'] == 'call':
                self._call(st, fn, body, b, t, odd, depth, pcz)
                if t['target'] is not None:
                    succs = [(t['target'], st)]
            elif t['k'] == 'switch':
                succs = self._switch(st, fn, body, b, t, odd, diamonds)
            elif t['k'] == 'return':
                for k, v in st.items():
                    if not isinstance(k[0], int) or not isinstance(v, str):
                        continue
                    if k[0] == 0:
                        kk = ('ret',) + k[1:]
                        ret[kk] = jn(ret.get(kk), v)
                    elif 1 <= k[0] <= body.arg_count and len(k) > 1 and body.local_ty(k[0]).startswith('&mut '):
                        kk = ('out', k[0]) + k[1:]
                        ret[kk] = jn(ret.get(kk), v)
            else:
                succs = [(s2, st) for s2 in body.succs(b)]
            for (s2, st2) in succs:
                if body.blocks[s2]['cleanup']:
                    continue
                old = states.get(s2)
                if old is None:
                    states[s2] = dict(st2)
                    work.append(s2)
                    continue
                new = dict(old)
                changed = False
                for k, v in st2.items():
                    if k not in new:
                        new[k] = v
                        changed = True
                    elif new[k] != v:
                        j = jn(new[k], v) if isinstance(new[k], str) and isinstance(v, str) else (Z if isinstance(v, str) else ('cmp', 'unk'))
                        if j != new[k]:
                            new[k] = j
                            changed = True
                if changed:
                    states[s2] = new
                    if s2 not in work:
                        work.append(s2)
        return ret

    # ------------------------------------------------------------------------------------------------
    def _assign(self, st, fn, body, s, odd, pcz):
        pl, rv = s['place'], s['rv']
        k = self._root_key(fn, body, pl)
        kind = rv['k']
        v = None
        if kind == 'use':
            src = rv['op'].get('copy') or rv['op'].get('move')
            if src is not None and not src['p'] and not pl['p'] and ('ref', src['l']) in st:
                st[('ref', pl['l'])] = st[('ref', src['l'])]
                return
            if src is not None:
                sk = self._root_key(fn, body, src)
                moved = False
                for kk in list(st.keys()):
                    if kk[:len(sk)] == sk and len(kk) > len(sk):
                        st[k + kk[len(sk):]] = Z if pcz and isinstance(st[kk], str) else st[kk]
                        moved = True
                if moved and sk not in st:
                    return
            v = self._op(st, fn, body, rv['op'], odd)
        elif kind == 'binop':
            a, b = self._op(st, fn, body, rv['a'], odd), self._op(st, fn, body, rv['b'], odd)
            op = rv['op']
            if op in ('Lt', 'Le', 'Gt', 'Ge', 'Eq', 'Ne'):
                if a == E and b == E:
                    v = ('cmp', 'inv')
                elif (a == O and self._is_zero(rv['b'])) or (b == O and self._is_zero(rv['a'])):
                    # x < 0 becomes -x < 0, i.e. x > 0: the condition flips (ties at exactly zero aside)
                    v = ('cmp', 'flip' if op in ('Lt', 'Le', 'Gt', 'Ge') else 'inv')
                elif a == O and b == O and op in ('Eq', 'Ne'):
                    v = ('cmp', 'inv')
                else:
                    v = ('cmp', 'unk')
            elif isinstance(a, tuple) or isinstance(b, tuple):
                v = Z
            elif op in ('Mul', 'Div'):
                v = mulp(a, b)
            elif op in ('Add', 'Sub'):
                v = addp(a, b)
            elif op == 'Rem':
                v = a if b == E and a != Z else Z
            else:
                v = E if a == E and b == E else Z
        elif kind == 'unop':
            a = self._op(st, fn, body, rv['a'], odd)
            if rv['op'] == 'Neg':
                v = a
            elif rv['op'] == 'Not':
                v = a if isinstance(a, tuple) else Z
            else:
                v = a if a == E else Z
        elif kind == 'cast':
            v = self._op(st, fn, body, rv['op'], odd)
        elif kind == 'agg':
            if rv['agg'] in ('adt', 'tuple', 'array'):
                names = rv.get('field_names', []) if rv['agg'] == 'adt' else []
                for i, f in enumerate(rv['fields']):
                    fname = names[i] if i < len(names) else ('[]' if rv['agg'] == 'array' else str(i))
                    fv = self._op(st, fn, body, f, odd)
                    if isinstance(fv, str):
                        kk = k + (fname,)
                        fv = Z if pcz else fv
                        st[kk] = jn(st.get(kk), fv) if rv['agg'] == 'array' and i > 0 else fv
            return
        elif kind in ('ref', 'rawptr'):
            if not pl['p']:
                st[('ref', pl['l'])] = self._root_key(fn, body, rv['place'])       # what this reference points at
            return
        elif kind == 'repeat':
            v = self._op(st, fn, body, rv['op'], odd)
            if isinstance(v, str):
                st[k + ('[]',)] = Z if pcz else v
            return
        else:
            return
        if v is None:
            return
        if pcz and isinstance(v, str):
            v = Z
        # a store through an index joins with what the array already holds
        if '[]' in k and isinstance(v, str) and k in st and isinstance(st[k], str):
            v = jn(st[k], v)
        st[k] = v

    @staticmethod
    def _is_zero(o):
        c = o.get('const') if isinstance(o, dict) else None
        if c is None:
            return False
        try:
            return float(c.get('fval', 'nan')) == 0.0
        except ValueError:
            return False

    def _select_diamonds(self, body):
        """{switch block: (true arm, false arm, join)} for  switch(c) -> [A: consts only; goto J], [B: consts only; goto J]"""
        out = {}
        preds = body.preds()
        for b, blk in enumerate(body.blocks):
            t = blk['term']
            if blk['cleanup'] or t['k'] != 'switch' or len(t['targets']) != 1:
                continue
            f_t, t_t = t['targets'][0][1], t['otherwise']
            if str(t['targets'][0][0]) != '0' or f_t == t_t:
                continue
            ok = True
            for a in (t_t, f_t):
                ab = body.blocks[a]
                if ab['term']['k'] != 'goto' or preds.get(a, []) != [b]:
                    ok = False
                    break
                for s in ab['stmts']:
                    if s['k'] == 'assign' and not (s['rv']['k'] == 'use' and 'const' in s['rv']['op'] and not s['place']['p']):
                        ok = False
            if ok and body.blocks[t_t]['term']['target'] == body.blocks[f_t]['term']['target']:
                out[b] = (t_t, f_t, body.blocks[t_t]['term']['target'])
        return out

    def _switch(self, st, fn, body, b, t, odd, diamonds):
        pl = t['discr'].get('copy') or t['discr'].get('move')
        info = st.get(self._root_key(fn, body, pl)) if pl is not None else None
        succs = []
        seen = []
        for s2 in [x[1] for x in t['targets']] + [t['otherwise']]:
            if s2 not in seen:
                seen.append(s2)
        kind = info[1] if isinstance(info, tuple) else ('inv' if info == E else 'unk')
        if kind == 'inv':
            return [(s2, st) for s2 in seen]
        if kind == 'flip' and b in diamonds:
            a_t, a_f, J = diamonds[b]
            st2 = dict(st)

            def consts(blk):
                d = {}
                for s in body.blocks[blk]['stmts']:
                    if s['k'] == 'assign':
                        c = s['rv']['op']['const']
                        try:
                            d[s['place']['l']] = float(c['fval']) if 'fval' in c else None
                        except ValueError:
                            d[s['place']['l']] = None
                return d
            ca, cb = consts(a_t), consts(a_f)
            for l in set(ca) | set(cb):
                x, y = ca.get(l), cb.get(l)
                if l in ca and l in cb and x is not None and y is not None and x == -y and x != 0.0:
                    st2[(l,)] = O           # the sign of an odd quantity
                elif l in ca and l in cb and x is not None and x == y:
                    st2[(l,)] = E
                elif body.local_ty(l) == '()':
                    continue
                else:
                    st2[(l,)] = Z
            # the arms are summarised: continue at the join
            return [(J, st2)]
        # control depends on a condition that is not invariant: everything assigned from here on is not shown invariant
        st2 = dict(st)
        st2[('pc',)] = Z
        return [(s2, st2) for s2 in seen]

    # ------------------------------------------------------------------------------------------------
    def _call(self, st, fn, body, b, t, odd, depth, pcz):
        f = t['func']
        p = f.get('path', '')
        d = self._root_key(fn, body, t['dest'])
        args = [self._op(st, fn, body, a, odd) for a in t['args']]
        pa = [a if isinstance(a, str) else Z for a in args]
        name = p.rsplit('::', 1)[-1]
        v = None
        if p.startswith(F64):
            if name == 'abs':
                v = E if pa[0] in (E, O) else Z
            elif name == 'powi':
                n = None
                if 'const' in t['args'][1]:
                    try:
                        n = int(t['args'][1]['const'].get('ival', t['args'][1]['const'].get('bits')))
                    except (TypeError, ValueError):
                        n = None
                if pa[0] == Z or n is None:
                    v = Z if pa[0] != E else E
                else:
                    v = E if n % 2 == 0 else pa[0]
            elif name in ('sin', 'tan', 'asin', 'atan', 'signum', 'sinh', 'tanh', 'cbrt', 'recip', 'to_radians', 'to_degrees', 'trunc', 'round'):
                v = pa[0]                                   # odd functions
            elif name in ('cos', 'cosh'):
                v = E if pa[0] in (E, O) else Z             # even functions
            elif name == 'mul_add':
                v = addp(mulp(pa[0], pa[1]), pa[2])
            elif name == 'copysign':
                v = pa[1] if pa[0] in (E, O) and pa[1] in (E, O) else Z
            elif name == 'hypot':
                v = E if all(x in (E, O) for x in pa[:2]) else Z
            else:
                v = E if all(x == E for x in pa) else Z     # sqrt, acos, min, max, clamp, exp, ln, floor, ceil, rem_euclid, atan2..
        elif p in ('std::ops::Sub::sub', 'std::ops::Add::add') and 'f64' in (f.get('self_ty') or ''):
            v = addp(pa[0], pa[1])
        elif p in ('std::ops::Mul::mul', 'std::ops::Div::div') and 'f64' in (f.get('self_ty') or ''):
            v = mulp(pa[0], pa[1])
        elif p == 'std::ops::Neg::neg' and 'f64' in (f.get('self_ty') or ''):
            v = pa[0]
        elif p in ('std::clone::Clone::clone', 'std::ops::Deref::deref', 'std::convert::Into::into', 'std::convert::From::from',
                   'std::borrow::ToOwned::to_owned'):
            src = t['args'][0].get('copy') or t['args'][0].get('move') if t['args'] else None
            if src is not None:
                sk = self._root_key(fn, body, src)
                hit = False
                for kk in list(st.keys()):
                    if kk[:len(sk)] == sk and isinstance(kk[0], int):
                        st[d + kk[len(sk):]] = st[kk]
                        hit = True
                if not hit:
                    # a clone of (part of) a parameter: carries that parameter's parity
                    st[d] = self._load(st, fn, body, src, odd)
            return
        elif p in ('std::iter::Iterator::sum',):
            v = Z
            terms = fn.arg_terms(t, 0, b)
            # sum over an array / mapped iterator is not modelled: fail closed
        else:
            tgt = self.crate.body(f.get('resolved', {}).get('path') or p)
            if tgt is None and f.get('trait'):
                cands = self.ctx.trait_impl_bodies(self.crate, f['trait'], f.get('name'))
                same = [c for c in cands if c.j.get('impl_adt') and c.j.get('impl_adt') == body.j.get('impl_adt')]
                tgt = same[0] if same else None
            if tgt is not None and depth < self.max_depth and tgt.arg_count == len(t['args']):
                codd, cscal = set(), {}
                for i, a in enumerate(t['args']):
                    ty = tgt.local_ty(i + 1)
                    if ty in ('f64', 'f32'):
                        cscal[i + 1] = pa[i]
                        continue
                    apl = a.get('copy') or a.get('move')
                    if apl is None:
                        continue
                    # a reference / struct argument: the parity of what it is rooted at
                    if not apl['p'] and ('ref', apl['l']) in st:
                        root = tuple(st[('ref', apl['l'])])
                    else:
                        root = self._root_key(fn, body, apl)
                    sub = [st[kk] for kk in st if isinstance(kk[0], int) and kk[:len(root)] == root and isinstance(st[kk], str)]
                    if sub:
                        par = sub[0] if all(x == sub[0] for x in sub) else Z
                    elif 1 <= root[0] <= body.arg_count:
                        par = O if root[0] in odd else E
                    else:
                        par = Z
                    if par == O:
                        codd.add(i + 1)
                    elif par == Z:
                        cscal[i + 1] = Z
                r = Parity(self.ctx, self.crate, self.max_depth).analyze(tgt, codd, cscal, depth + 1)
                for kk, vv in r.items():
                    if kk[0] == 'ret':
                        st[d + kk[1:]] = Z if pcz else vv
                    elif kk[0] == 'out':
                        ai = kk[1] - 1
                        apl = t['args'][ai].get('copy') or t['args'][ai].get('move') if ai < len(t['args']) else None
                        if apl is not None:
                            root = fn.borrow_root(apl['l'])
                            base = (root[0],) + tuple(root[1]) if root is not None else (apl['l'],)
                            st[base + kk[2:]] = Z if pcz else vv
                if not any(kk[0] == 'ret' for kk in r) and tgt.j.get('ret_ty') in ('f64', 'f32'):
                    st[d] = Z
                return
            if body.local_ty(t['dest']['l']) in ('f64', 'f32') and not t['dest']['p']:
                v = E if pa and all(x == E for x in pa) else Z
            else:
                return
        if v is not None:
            st[d] = Z if pcz and isinstance(v, str) else v
