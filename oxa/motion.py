"""Analysis of a motion checker (a bool function with two &S parameters that reaches is_valid):
which exits answer `true`, what was validated before, and the discretisation parameters.
Shared by C01.kernel, C03.res, C06.divisor."""
from .core import IS_VALID, INTERPOLATE, DISTANCE, LVS
from .engine import walk, fmt_terms, strip_clone, T
from .planner import call_true_edges
from .rules.c12 import cmp_facts, relation_for, const_float


def state_params(body):
    return [i for i in range(1, body.arg_count + 1) if body.local_ty(i) in ('&S', "&'_ S")]


def _is_param(ts, idx):
    ts = strip_clone(ts)
    return bool(ts) and all(n[0] == 'param' and n[1] == idx for n in ts)


def _single(ts):
    return next(iter(ts)) if len(ts) == 1 else None


def _int_const(ts):
    n = _single(ts)
    if n is not None and n[0] == 'const':
        try:
            return int(n[1])
        except ValueError:
            return None
    return None


def _strip_casts(ts):
    # only the integer -> float conversions of `i as f64 / n as f64`
    n = _single(ts)
    while n is not None and n[0] == 'cast' and 'IntToFloat' in n[1]:
        ts = n[2]
        n = _single(ts)
    return ts


def analyze(ctx, body):
    """returns dict:
      from_idx, to_idx
      exits: list of dict(block, idx, kind, ok(bool), why)   one per assignment to the return place
      loops: list of dict describing validated interpolation loops
      steps: dict(n_terms, round, dist_terms, lvs_terms, c, K, direct_rel) or None
      problems: list of str  (unrecognised shapes; rules fail closed on them)
    """
    fn = ctx.fn(body)
    sp = state_params(body)
    res = {'from_idx': sp[0] if sp else None, 'to_idx': sp[1] if len(sp) > 1 else None, 'exits': [], 'loops': [],
           'steps': None, 'problems': []}
    if len(sp) < 2:
        res['problems'].append('fewer than two &S parameters')
        return res
    frm, to = sp[0], sp[1]
    mcs = {m.path for m in ctx.motion_checkers()}

    # ---- validated interpolation loops ---------------------------------------------------------
    loops = []
    for L in fn.loops():
        info = _validated_loop(ctx, fn, L, frm, to)
        if info is not None:
            loops.append(info)
    res['loops'] = loops

    # ---- exits --------------------------------------------------------------------------------
    reach = fn.reachable(0)
    for bi, blk in enumerate(fn.blocks):
        if blk['cleanup'] or bi not in reach:
            continue
        for si, st in enumerate(blk['stmts']):
            if st['k'] == 'assign' and st['place']['l'] == 0 and not st['place']['p']:
                rv = st['rv']
                if rv['k'] == 'use' and 'const' in rv['op'] and 'val' in rv['op']['const']:
                    if rv['op']['const']['val'] is False:
                        res['exits'].append({'block': bi, 'idx': si, 'kind': 'const_false', 'ok': True, 'why': ''})
                    else:
                        ok, why = _true_exit_ok(fn, bi, loops)
                        if ok and not _to_accepted_before(fn, bi, to):
                            ok, why = False, ('answers true although `to` itself was never put to the validity checker: the last state asked '
                                              'about is interpolate(from, to, 1), which rounding can make differ from `to` - and `to` is the '
                                              'state that gets stored')
                        res['exits'].append({'block': bi, 'idx': si, 'kind': 'const_true', 'ok': ok, 'why': why})
                else:
                    ts = fn.rvalue_terms(rv, (bi, si))
                    if ts and all(n[0] == 'call' and n[1] == IS_VALID and len(n[2]) > 1 and _is_param(n[2][1], to) for n in ts):
                        # `let ok = vc.is_valid(to); ok`: the answer is the verdict on the end state itself
                        res['exits'].append({'block': bi, 'idx': si, 'kind': 'query_to', 'ok': True, 'why': ''})
                        continue
                    res['exits'].append({'block': bi, 'idx': si, 'kind': 'other', 'ok': False,
                                         'why': 'returns a computed boolean %s (unrecognised shape)' % fmt_terms(ts)[:80]})
        t = blk['term']
        if t['k'] == 'call' and t['dest']['l'] == 0 and not t['dest']['p']:
            p = t['func'].get('path')
            if p == IS_VALID:
                st_terms = fn.arg_terms(t, 1, bi)
                ok = _is_param(st_terms, to)
                res['exits'].append({'block': bi, 'idx': fn.nstmts(bi), 'kind': 'query_to', 'ok': ok,
                                     'why': '' if ok else 'returns is_valid(%s), not is_valid(<to>)' % fmt_terms(st_terms)[:60]})
            elif p in mcs and p != body.path:
                m = ctx.core.body(p)
                msp = state_params(m)
                ok = len(msp) >= 2 and _is_param(fn.arg_terms(t, msp[0] - 1, bi), frm) and \
                    _is_param(fn.arg_terms(t, msp[1] - 1, bi), to)
                res['exits'].append({'block': bi, 'idx': fn.nstmts(bi), 'kind': 'delegate', 'ok': ok,
                                     'why': '' if ok else 'delegates to %s with different end points' % p})
            else:
                res['exits'].append({'block': bi, 'idx': fn.nstmts(bi), 'kind': 'other', 'ok': False,
                                     'why': 'returns the result of %s (unrecognised shape)' % p})
    if not any(e['kind'] in ('const_true', 'query_to', 'delegate') for e in res['exits']):
        res['problems'].append('the checker can never answer true (unrecognised shape)')

    # ---- discretisation ------------------------------------------------------------------------
    res['steps'] = _steps(ctx, fn, frm, to, loops, res)
    return res


def _validated_loop(ctx, fn, L, frm, to):
    """recognise:  for i in RANGE { t = f(i, N); interpolate(_, from, to, t, &mut out); if !is_valid(out) {return false} }"""
    body = L['body']
    interp = None
    for b in sorted(body):
        t = fn.blocks[b]['term']
        if t['k'] == 'call' and t['func'].get('path') == INTERPOLATE:
            interp = (b, t)
            break
    if interp is None:
        return None
    ib, it = interp
    a_from = fn.arg_terms(it, 1, ib)
    a_to = fn.arg_terms(it, 2, ib)
    a_t = fn.arg_terms(it, 3, ib)
    info = {'header': L['header'], 'interp_block': ib, 'problems': []}
    if not (_is_param(a_from, frm) and _is_param(a_to, to)):
        info['problems'].append('interpolates between %s and %s, not between the checker\'s end points' % (
            fmt_terms(a_from)[:40], fmt_terms(a_to)[:40]))
    # the validity query on the interpolated state
    q = None
    for b in sorted(body):
        t = fn.blocks[b]['term']
        if t['k'] == 'call' and t['func'].get('path') == IS_VALID:
            st = fn.arg_terms(t, 1, b)
            if st and all(n[0] == 'out' and n[1] == INTERPOLATE and n[4] == (fn.path, ib) for n in st):
                q = (b, t)
    if q is None:
        info['problems'].append('no validity query on the interpolated state inside the loop')
        return info
    qb, qt = q
    te, fe = call_true_edges(fn, qb)
    info['query_block'] = qb
    # every back edge must be dominated (inside the loop) by the true edge of the query
    outside = frozenset(x for x in range(fn.nb) if x not in body)
    for (src, dst) in L['back_edges']:
        if (src, dst) in te:
            continue            # the accepting edge of the query is itself the way back to the loop head
        r = fn.reachable(L['header'], removed=frozenset(te), stop=outside)
        if not te or src in r:
            info['problems'].append('an iteration can continue without the interpolated state having been accepted')
    # the false edge must answer false
    for (s, d) in fe:
        if not _leads_to_false_only(fn, d):
            info['problems'].append('a rejected interpolated state does not make the checker answer false')
    # the loop is left only when the iterator is exhausted (an exit of the block that pulls the next index / tests the
    # counter, i.e. a block every iteration passes before the interpolation) or towards the answer `false`: any other way
    # out (`break` on a deadline, a cap, a flag) skips iterates that were never put to the checker
    dom = fn.dominators()
    for (src, dst) in L.get('exits', []):
        if fn.blocks[dst]['cleanup'] or fn.blocks[src]['cleanup']:
            continue
        if _leads_to_false_only(fn, dst):
            continue
        if src in dom.get(ib, ()) and src != ib and _is_range_test(fn, src):
            continue            # the loop test itself: the iterator is exhausted / the counter reached its bound
        tk = fn.blocks[dst]['term']['k']
        if tk == 'other' and not fn.succs(dst):
            continue            # unreachable / abort
        info['problems'].append('the interpolation loop can be left at %s before every iterate was put to the validity checker (an exit '
                                'that is neither the end of the range nor the answer false)' % fn.loc(src))
    # iteration range and the parameter t
    it_terms = None
    idx_terms = None
    for n in walk(a_t):
        if n[0] == 'unwrap' and all(m[0] == 'call' and m[1] == 'std::iter::Iterator::next' for m in n[1]):
            idx_terms = T(n)
            it_terms = next(iter(n[1]))[2][0]
    if idx_terms is None:
        # hand-written counter:  i = K0; while i < n { i += 1; t = i / n; .. }   or   while i <= n { t = i / n; ..; i += 1 }
        cnt = _counter_idiom(fn, L, a_t)
        if cnt is None:
            info['problems'].append('the interpolation parameter does not depend on the loop index')
            return info
        den, okc, whyc, k0, open_end = cnt
        if open_end:
            info['open_end'] = True
        info['N'] = den
        info['lo'] = T(('const', str(k0)))
        if not okc:
            info['problems'].append(whyc)
        return _entered_nonzero(fn, L, den, info)
    rng = _range_of(it_terms)
    if rng is None:
        info['problems'].append('loop does not iterate over a literal integer range (%s)' % fmt_terms(it_terms)[:60])
        return info
    lo, hi, inclusive = rng
    info['lo'] = lo
    # t = num / den
    tn = _single(a_t)
    if tn is None or tn[0] != 'binop' or tn[1] != 'Div':
        info['problems'].append('interpolation parameter is not a quotient i / n')
        return info
    num, den = _strip_casts(tn[2]), _strip_casts(tn[3])
    info['N'] = den
    # accepted idioms
    lo_c = _int_const(lo)
    ok = False
    if lo_c is not None and lo_c <= 1:
        if inclusive and num == idx_terms and strip_clone(hi) == strip_clone(den):
            ok = True                                            # lo..=n , t = i/n
        elif not inclusive and num == idx_terms and _is_plus_one(hi, den):
            ok = True                                            # lo..n+1 , t = i/n
        elif not inclusive and lo_c == 0 and _is_plus_one(num, idx_terms) and strip_clone(hi) == strip_clone(den):
            ok = True                                            # 0..n , t = (i+1)/n
        elif not inclusive and num == idx_terms and strip_clone(hi) == strip_clone(den):
            ok = True                                            # lo..n , t = i/n: the interior only; the end point is
            info['open_end'] = True                              # asked about directly (every true exit needs is_valid(to))
    if not ok:
        info['problems'].append('the last iteration does not evaluate t = 1 (range %s..%s%s, t = %s)' % (
            fmt_terms(lo)[:20], '=' if inclusive else '', fmt_terms(hi)[:40], fmt_terms(a_t)[:60]))
    return _entered_nonzero(fn, L, den, info)


def _is_range_test(fn, b):
    """the switch ending block b decides on the result of Iterator::next (for-loops, `all` / `any` written out) or on a
    comparison of two INTEGERS (hand-written counters: `while i < n`), never on floats or on the clock"""
    si = fn.switch_info(b)
    if si is None:
        return False
    terms, _tmap, _other = si
    if not terms:
        return False
    INTS = ('usize', 'u8', 'u16', 'u32', 'u64', 'u128', 'isize', 'i8', 'i16', 'i32', 'i64', 'i128')
    for n in terms:
        if n[0] == 'discr' and n[1] and all(m[0] == 'call' and m[1] == 'std::iter::Iterator::next' for m in n[1]):
            continue
        if n[0] == 'binop' and n[1] in ('Lt', 'Le', 'Gt', 'Ge', 'Ne', 'Eq'):
            if any(m[0] == 'call' and any(w in str(m[1]) for w in ('Instant', 'elapsed', 'Duration', 'SystemTime')) for m in walk(T(n))):
                return False
            # the compared operands are integer locals / integer constants
            ok = False
            for st in fn.blocks[b]['stmts']:
                if st['k'] == 'assign' and st['rv']['k'] == 'binop' and st['rv']['op'] == n[1]:
                    tys = []
                    for o in (st['rv']['a'], st['rv']['b']):
                        pl = o.get('copy') or o.get('move')
                        if pl is not None and not pl['p']:
                            tys.append(fn.b.local_ty(pl['l']))
                        elif 'const' in o:
                            tys.append(o['const'].get('ty', ''))
                        else:
                            tys.append('?')
                    if all(t in INTS for t in tys):
                        ok = True
            if ok:
                continue
        return False
    return True


def _single_def(fn, local):
    evs = [e for e in fn.events(local) if not e.path]
    return evs[0] if len(evs) == 1 else None


def _root_local(fn, op):
    """follow single-definition copies / int->float casts of an operand back to a user variable local"""
    pl = op.get('move') or op.get('copy')
    for _ in range(6):
        if pl is None or pl['p']:
            return None
        e = _single_def(fn, pl['l'])
        if e is None or e.kind != 'assign' or e.data['k'] != 'assign':
            return pl['l']
        rv = e.data['rv']
        if rv['k'] == 'use' or (rv['k'] == 'cast' and 'IntToFloat' in rv.get('cast', '')):
            nxt = rv['op'].get('move') or rv['op'].get('copy')
            if nxt is None:
                return pl['l']
            pl = nxt
            continue
        return pl['l']
    return pl['l'] if pl is not None and not pl['p'] else None


def _counter_idiom(fn, L, a_t):
    """returns (den terms, ok, why, K0) when the interpolation parameter is counter / n for a counter that starts at a
    constant, is incremented by one exactly once per iteration and is tested against n at the loop head"""
    body = L['body']
    # the quotient
    div = None
    for b in sorted(body):
        for si, st in enumerate(fn.blocks[b]['stmts']):
            if st['k'] == 'assign' and st['rv']['k'] == 'binop' and st['rv']['op'] == 'Div' and fn.rvalue_terms(st['rv'], (b, si)) == a_t:
                div = (b, si, st)
    if div is None:
        return None
    db, dsi, dst = div
    c = _root_local(fn, dst['rv']['a'])
    n = _root_local(fn, dst['rv']['b'])
    if c is None or n is None or c == n:
        return None
    # definitions of the counter: one constant outside the loop, one `c = c + 1` inside
    evs = [e for e in fn.events(c) if not e.path]
    outside = [e for e in evs if e.block not in body]
    inside = [e for e in evs if e.block in body]
    if len(outside) != 1 or len(inside) != 1 or outside[0].kind != 'assign' or inside[0].kind != 'assign':
        return None
    rv0 = outside[0].data['rv']
    if rv0['k'] != 'use' or 'const' not in rv0['op'] or 'ival' not in rv0['op']['const']:
        return None
    k0 = int(rv0['op']['const']['ival'])
    inc = inside[0]
    rvi = inc.data['rv']
    plus_one = False
    if rvi['k'] == 'binop' and rvi['op'] in ('Add', 'AddUnchecked'):
        plus_one = _root_local(fn, rvi['a']) == c and rvi['b'].get('const', {}).get('ival') == '1'
    elif rvi['k'] == 'use':
        src = rvi['op'].get('move') or rvi['op'].get('copy')
        if src is not None and len(src['p']) == 1 and isinstance(src['p'][0], dict) and src['p'][0].get('f') == 0:
            e2 = _single_def(fn, src['l'])
            if e2 is not None and e2.kind == 'assign' and e2.data['rv']['k'] == 'binop' and e2.data['rv']['op'] == 'AddWithOverflow':
                r2 = e2.data['rv']
                pa = r2['a'].get('move') or r2['a'].get('copy')
                plus_one = pa is not None and not pa['p'] and pa['l'] == c and r2['b'].get('const', {}).get('ival') == '1'
    if not plus_one:
        return None
    # the increment happens exactly once on every way round the loop
    outside_b = frozenset(x for x in range(fn.nb) if x not in body)
    r = fn.reachable(L['header'], stop=outside_b | frozenset([inc.block]))
    if any(src in r and src != inc.block for (src, _d) in L['back_edges']):
        return None
    # the loop test: switch on  c < n  /  c <= n  whose failing edge leaves the loop
    test = None
    for b in sorted(body):
        t = fn.blocks[b]['term']
        if t['k'] != 'switch':
            continue
        for si, st in enumerate(fn.blocks[b]['stmts']):
            if st['k'] == 'assign' and st['rv']['k'] == 'binop' and st['rv']['op'] in ('Lt', 'Le', 'Gt', 'Ge'):
                a_, b_ = _root_local(fn, st['rv']['a']), _root_local(fn, st['rv']['b'])
                op = st['rv']['op']
                if (a_, b_) == (n, c):
                    a_, b_, op = c, n, {'Lt': 'Gt', 'Le': 'Ge', 'Gt': 'Lt', 'Ge': 'Le'}[op]
                if (a_, b_) == (c, n) and op in ('Lt', 'Le'):
                    tm = {str(v): tg for v, tg in t['targets']}
                    f_t = tm.get('0')
                    if f_t is not None and f_t not in body and (b, si) < (inc.block, inc.idx) or (b != inc.block and b in fn.dominators().get(inc.block, ())):
                        test = (op, b)
    if test is None:
        return None
    dom = fn.dominators()
    use_after_inc = (inc.block == db and inc.idx < dsi) or (inc.block != db and inc.block in dom.get(db, ()))
    den_terms = _strip_casts(fn.op_terms(dst['rv']['b'], (db, dsi)))
    op = test[0]
    if use_after_inc and op == 'Lt':
        ok = k0 == 0
        why = '' if ok else 'the counter starts at %d: the first interpolation parameter is %d/n, skipping part of the motion' % (k0, k0 + 1)
    elif not use_after_inc and op == 'Le':
        ok = k0 <= 1
        why = '' if ok else 'the counter starts at %d: the beginning of the motion is skipped' % k0
    elif not use_after_inc and op == 'Lt':
        # i = K0; while i < n { t = i / n; ..; i += 1 }: the interior only; the end point is asked about directly
        ok = k0 <= 1
        why = '' if ok else 'the counter starts at %d: the beginning of the motion is skipped' % k0
        return den_terms, ok, why, k0, True
    else:
        ok = False
        why = 'the last iteration does not evaluate t = 1 (counter tested with %s and used %s its increment)' % (
            '<' if op == 'Lt' else '<=', 'after' if use_after_inc else 'before')
    return den_terms, ok, why, k0, False


def _entered_nonzero(fn, L, den, info):
    # the loop is entered with n >= 1
    facts = cmp_facts(fn, L['header'])
    n_ok = False
    for (a, b, rel, _blk) in facts:
        for (x, y, r) in ((a, b, rel), (b, a, {{'lt': 'gt', 'gt': 'lt', 'eq': 'eq', 'un': 'un'}[q] for q in rel})):
            if strip_clone(_strip_casts(x)) == strip_clone(den):
                k = _int_const(y)
                r = r - {'un'}      # integer operands are never unordered
                if k == 0 and _unsigned(den):
                    r = r - {'lt'}  # an unsigned count is never below zero: `n != 0` is `n > 0`
                if k is not None and ((r <= {'gt'} and k >= 0) or (r <= {'gt', 'eq'} and k >= 1)):
                    n_ok = True
                    info['K'] = k if r <= {'gt'} else k - 1
    if not n_ok:
        # `match n { 0 | 1 => direct, _ => loop }`: the loop lies behind the default edge of a switch on n whose listed
        # values are 0..=K
        for sb in range(fn.nb):
            if fn.blocks[sb]['cleanup'] or fn.blocks[sb]['term']['k'] != 'switch':
                continue
            si = fn.switch_info(sb)
            if si is None:
                continue
            terms, tmap, other = si
            if strip_clone(_strip_casts(terms)) != strip_clone(den) or not _unsigned(den):
                continue
            try:
                keys = sorted(int(k) for k in tmap)
            except ValueError:
                continue
            if keys != list(range(0, len(keys))) or other in tmap.values():
                continue
            if L['header'] not in fn.reachable(0, removed=frozenset([(sb, other)])):
                n_ok = True
                info['K'] = keys[-1]
    if not n_ok and info.get('open_end'):
        # a loop over the interior only: with zero or one steps it is empty and the verdict is the one on `to` itself (every true
        # answer is behind an accepted query on `to`, see the const_true exits): no threshold is needed, K = 0
        info['K'] = 0
        n_ok = True
    if not n_ok:
        info['problems'].append('the loop can be entered with zero steps (no dominating test n > K): the checker would answer true without any query')
    return info


UNSIGNED = ('usize', 'u8', 'u16', 'u32', 'u64', 'u128')


def _unsigned(ts):
    ts = strip_clone(ts)
    return bool(ts) and all((n[0] == 'cast' and n[3] in UNSIGNED) or
                            (n[0] == 'call' and n[1].endswith('::len')) for n in ts)


def _is_plus_one(a, b):
    """a == b + 1 (possibly through the overflow-checked tuple projection)"""
    n = _single(a)
    if n is None:
        return False
    if n[0] == 'field' and n[2] == '0':
        n = _single(n[1])
        if n is None:
            return False
    if n[0] == 'binop' and n[1] in ('Add', 'AddWithOverflow', 'AddUnchecked'):
        return (strip_clone(n[2]) == strip_clone(b) and _int_const(n[3]) == 1) or \
               (strip_clone(n[3]) == strip_clone(b) and _int_const(n[2]) == 1)
    return False


def _range_of(it_terms):
    n = _single(it_terms)
    if n is None:
        return None
    if n[0] == 'call' and n[1] == 'std::ops::RangeInclusive::<Idx>::new' and len(n[2]) == 2:
        return n[2][0], n[2][1], True
    if n[0] == 'agg' and n[1] == 'std::ops::Range':
        d = dict(n[3])
        return d.get('start'), d.get('end'), False
    if n[0] == 'agg' and n[1] == 'std::ops::RangeInclusive':
        d = dict(n[3])
        return d.get('start'), d.get('end'), True
    return None


def _leads_to_false_only(fn, start):
    """every way on from `start` ends in the answer `false`.  Boolean locals that were assigned a literal on the way are
    followed through copies into the switches that test them (`let ok = (1..n).all(..); ok && vc.is_valid(to)`: the
    rejected iterate makes `ok` false, and the switch on `ok` then answers false)."""
    seen = set()
    st = [(start, ())]
    while st:
        b, known = st.pop()
        key = (b, known)
        if key in seen:
            continue
        seen.add(key)
        kn = dict(known)
        done = False
        for s_ in fn.blocks[b]['stmts']:
            if s_['k'] != 'assign':
                continue
            pl, rv = s_['place'], s_['rv']
            if pl['l'] == 0 and not pl['p']:
                if rv['k'] == 'use' and 'const' in rv['op'] and rv['op']['const'].get('val') is False:
                    done = True
                elif rv['k'] == 'use' and ('copy' in rv['op'] or 'move' in rv['op']):
                    src = rv['op'].get('copy') or rv['op'].get('move')
                    if not src['p'] and kn.get(src['l']) is False:
                        done = True
                    else:
                        return False
                else:
                    return False
                break
            if not pl['p']:
                if rv['k'] == 'use' and 'const' in rv['op'] and isinstance(rv['op']['const'].get('val'), bool):
                    kn[pl['l']] = rv['op']['const']['val']
                elif rv['k'] == 'use' and ('copy' in rv['op'] or 'move' in rv['op']):
                    src = rv['op'].get('copy') or rv['op'].get('move')
                    if not src['p'] and src['l'] in kn:
                        kn[pl['l']] = kn[src['l']]
                    else:
                        kn.pop(pl['l'], None)
                elif rv['k'] == 'unop' and rv['op'] == 'Not':
                    src = rv['a'].get('copy') or rv['a'].get('move')
                    if src is not None and not src['p'] and src['l'] in kn:
                        kn[pl['l']] = not kn[src['l']]
                    else:
                        kn.pop(pl['l'], None)
                else:
                    kn.pop(pl['l'], None)
        if done:
            continue
        t = fn.blocks[b]['term']
        if t['k'] == 'return':
            return False
        if t['k'] == 'switch':
            d = t['discr'].get('copy') or t['discr'].get('move')
            if d is not None and not d['p'] and d['l'] in kn and len(t['targets']) == 1 and str(t['targets'][0][0]) == '0':
                nxt = t['otherwise'] if kn[d['l']] else t['targets'][0][1]
                st.append((nxt, tuple(sorted(kn.items()))))
                continue
            return False
        if t['k'] == 'call' and t['dest']['l'] == 0:
            return False
        if t['k'] == 'call' and not t['dest']['p']:
            kn.pop(t['dest']['l'], None)
        for s2 in fn.succs(b):
            st.append((s2, tuple(sorted(kn.items()))))
    return True


def _to_accepted_before(fn, block, to):
    """every path to `block` passes the accepting edge of a validity query on the `to` parameter itself"""
    edges = set()
    for b in range(fn.nb):
        t = fn.blocks[b]['term']
        if fn.blocks[b]['cleanup'] or t['k'] != 'call' or t['func'].get('path') != IS_VALID:
            continue
        if _is_param(fn.arg_terms(t, 1, b), to):
            te, _fe = call_true_edges(fn, b)
            edges |= set(te)
    return bool(edges) and fn.dominated_by_edges(block, edges)


def _true_exit_ok(fn, block, loops):
    """`_0 = true` at `block`: every path to it must leave a validated loop through its normal exit"""
    good = [L for L in loops if not L['problems']]
    if not loops:
        return False, 'answers true without any validity query (no validated interpolation loop)'
    dom = fn.dominators()
    for L in loops:
        if L['header'] in dom.get(block, ()):
            if L['problems']:
                return False, '; '.join(L['problems'])
            return True, ''
    return False, 'answers true on a path that bypasses the validated interpolation loop'


def _steps(ctx, fn, frm, to, loops, res):
    """n = round(dist / (lvs * c)) ; direct branch when n <= K"""
    Ns = [L['N'] for L in loops if 'N' in L]
    if not Ns:
        return None
    N = Ns[0]
    n = _single(N)
    if n is not None and n[0] == 'cast':
        n = _single(n[2])
    out = {'n_terms': N, 'round': None, 'c': None, 'K': None, 'dist_ok': False, 'lvs_ok': False, 'problems': []}
    if n is None:
        out['problems'].append('step count has several definitions')
        return out
    rounding = 'cast'
    if n is not None and n[0] == 'call' and n[1] in ('core::f64::<impl f64>::min', 'std::f64::<impl f64>::min') and len(n[2]) == 2:
        # n = min(round(..), M): the step count is capped
        for (x, y) in ((n[2][0], n[2][1]), (n[2][1], n[2][0])):
            cy = const_float(y)
            if cy is not None and len(x) == 1:
                out['cap'] = cy
                n = next(iter(x))
    if n is not None and n[0] == 'call' and n[1] in ('std::f64::<impl f64>::ceil', 'std::f64::<impl f64>::floor', 'std::f64::<impl f64>::round'):
        rounding = n[1].rsplit('::', 1)[1]
        n = _single(n[2][0])
    out['round'] = rounding
    if n is None or n[0] != 'binop' or n[1] != 'Div':
        out['problems'].append('step count is not round(dist / resolution)')
        return out
    dist, den = n[2], n[3]
    d = _single(dist)
    if d is not None and d[0] == 'call' and d[1] == DISTANCE and len(d[2]) == 3:
        a, b = d[2][1], d[2][2]
        out['dist_ok'] = (_is_param(a, frm) and _is_param(b, to)) or (_is_param(a, to) and _is_param(b, frm))
    dn = _single(den)
    c = None
    lvs = None
    if dn is not None and dn[0] == 'binop' and dn[1] == 'Mul':
        for x, y in ((dn[2], dn[3]), (dn[3], dn[2])):
            cx = const_float(y)
            sx = _single(x)
            if cx is not None and sx is not None and sx[0] == 'call' and sx[1] == LVS:
                c, lvs = cx, x
    elif dn is not None and dn[0] == 'call' and dn[1] == LVS:
        c, lvs = 1.0, den
    out['c'] = c
    out['lvs_ok'] = lvs is not None
    out['lvs_terms'] = lvs
    Ks = [L.get('K') for L in loops if 'K' in L]
    out['K'] = Ks[0] if Ks else None
    return out
